(* Hist2_proofs.v -- C01 over whole histories WITH node deletion, for one incarnation of the controller behind a
   well-behaved informer: nodes are created without pod CIDRs under names used once, may be relabelled and
   deleted at any time; deletions are delivered in order as ordinary delete notifications; node work items may run on
   arbitrarily stale copies of the node.  Everything else is arbitrary: any
   ClusterCIDRs (overlapping, nested, identical ranges, any block sizes, dual stack) created and deleted at any
   time, any interleaving of deliveries, resyncs and work items, stale ClusterCIDR work items, any pattern of
   failed and timed-out writes, a crash at any point.
   Theorem: in every reachable world no two existing nodes hold overlapping pod CIDRs -- and not even a node that
   has been deleted but whose deletion the controller has not processed yet overlaps an existing one.
   Outside this universe (monitored, not proved): tombstones and relists (K-TOMB, K-REPL), nodes marked deleting,
   pre-set pod CIDRs, restarts. *)
From NIPAM Require Import Sys Geom_proofs Pool_proofs Prio_proofs Alloc_proofs Inv_proofs Sys_proofs World_proofs Complete_proofs Resv_proofs Hist_proofs.
From Coq Require Import Lia.
Open Scope N_scope.

Definition dead_names (feed : list nevent) : list str :=
  flat_map (fun e => match e with NDel x => [n_name x] | _ => [] end) feed.

Lemma dead_names_in feed nm : In nm (dead_names feed) <-> exists x, In (NDel x) feed /\ n_name x = nm.
Proof.
  unfold dead_names. rewrite in_flat_map. split.
  - intros (e & He & Hn). destruct e as [n|n|n]; cbn in Hn; try contradiction. destruct Hn as [<-|[]]. exists n. split; [exact He|reflexivity].
  - intros (x & Hx & <-). exists (NDel x). split; [exact Hx|left; reflexivity].
Qed.
Lemma dead_names_app a b : dead_names (a ++ b) = dead_names a ++ dead_names b.
Proof. unfold dead_names. apply flat_map_app. Qed.

(* who holds what: existing nodes, and deleted nodes whose delete notification is still on its way *)
Definition holder (w : world) (nm : str) (c : cidr) : Prop :=
  (exists a, In a (w_nodes w) /\ an_name a = nm /\ node_cidr a c) \/
  (exists x cn, In (NDel x) (w_nfeed w) /\ n_name x = nm /\ In (PGood c cn) (n_cidrs x)).

Record GInv (w : world) : Prop := {
  g_w : WInv w;
  g_names : NoDup (map an_name (w_nodes w));
  g_nodel : forall a, In a (w_nodes w) -> an_deleting a = false;
  g_feed_nd : forall e, In e (w_nfeed w) -> n_deleting (nev_node e) = false;
  g_cache_nd : forall n, In n (w_ncache w) -> n_deleting n = false;
  g_fetch : forall wk key n, In (wk, (key, Some n)) (w_nfetch w) -> n_deleting n = false;
  g_dead : forall x, In (NDel x) (w_nfeed w) -> ~ In (n_name x) (map an_name (w_nodes w));
  g_dead_nodup : NoDup (dead_names (w_nfeed w));
  g_disj : forall n1 c1 n2 c2, holder w n1 c1 -> holder w n2 c2 -> n1 <> n2 -> overlapb c1 c2 = false;
  g_held : forall m, w_ctl w = Some m -> forall nm c, holder w nm c -> Held m nm c
}.

Ltac gsplit I :=
  let a := fresh "Gw" in let b := fresh "Gnm" in let c := fresh "Gnd" in let d := fresh "Gfd" in
  let e := fresh "Gca" in let f := fresh "Gft" in let g := fresh "Gde" in let h := fresh "Gdn" in
  let i := fresh "Gdj" in let j := fresh "Ghd" in
  destruct I as [a b c d e f g h i j]; constructor;
  cbn [w_nodes w_ccs w_rv w_nfeed w_cfeed w_ncache w_ccache w_nq w_cq w_ctl w_synced w_nfetch w_cfetch w_svc w_delseen
       set_api set_ctl set_caches set_queues set_fetch set_delseen crashed] in *.

Definition tame_op (o : op) : Prop :=
  match o with
  | UMarkNodeDeleting _ | Construct _ _ _ _ | DeliverNodeTombstone | RelistNodes => False
  | UCreateNode _ _ cs => cs = []
  | UCreateCC obj => good_obj obj
  | _ => True
  end.
Lemma tame_wf o : tame_op o -> wf_op o.
Proof. destruct o; cbn; try tauto. intros ->. constructor. Qed.

Definition created (o : op) : list str := match o with UCreateNode nm _ _ => [nm] | _ => [] end.

(* a world that differs only in fields the invariant does not read *)
Lemma ginv_same w w' :
  GInv w -> WInv w' -> w_nodes w' = w_nodes w -> w_nfeed w' = w_nfeed w -> w_ncache w' = w_ncache w ->
  w_nfetch w' = w_nfetch w -> w_ctl w' = w_ctl w -> GInv w'.
Proof.
  intros I W' E1 E2 E3 E4 E5. destruct I as [a b c d e f g h i j].
  assert (Hh : forall nm c0, holder w' nm c0 <-> holder w nm c0) by (intros; unfold holder; rewrite E1, E2; tauto).
  constructor; rewrite ?E1, ?E2, ?E3, ?E4, ?E5; try assumption.
  - intros n1 c1 n2 c2 H1 H2. apply i; apply Hh; assumption.
  - intros m Em nm c0 Hc. apply (j m Em). apply Hh. exact Hc.
Qed.

Lemma ginv_init : GInv init_world.
Proof.
  constructor; cbn.
  - apply winv_init.
  - apply NoDup_nil.
  - intros a [].
  - intros e [].
  - intros n [].
  - intros wk key n [].
  - intros x [].
  - apply NoDup_nil.
  - intros n1 c1 n2 c2 [(a & [] & _)|(x & cn & [] & _)].
  - intros m E. discriminate E.
Qed.

Lemma crashed_ginv w : GInv w -> GInv (crashed w).
Proof.
  intros I. pose proof (crashed_winv w (g_w w I)) as W'. gsplit I; try assumption.
  - intros e [].
  - intros n [].
  - intros wk key n [].
  - intros x [].
  - apply NoDup_nil.
  - intros n1 c1 n2 c2 H1 H2. apply Gdj; [destruct H1 as [H1|(x & cn & [] & _)]; left; exact H1|destruct H2 as [H2|(x & cn & [] & _)]; left; exact H2].
  - intros m E. discriminate E.
Qed.

Lemma in_push_ndel w e x : In (NDel x) (push_nev w e) -> no_del_event e -> In (NDel x) (w_nfeed w).
Proof.
  unfold push_nev. destruct (w_synced w); [|auto]. intros H Hn. apply in_app_or in H. destruct H as [H|[E|[]]]; [exact H|rewrite E in Hn; destruct Hn].
Qed.
Lemma dead_names_push w e : no_del_event e -> dead_names (push_nev w e) = dead_names (w_nfeed w).
Proof.
  intros Hn. unfold push_nev. destruct (w_synced w); [|reflexivity]. rewrite dead_names_app.
  destruct e; try destruct Hn; cbn; rewrite app_nil_r; reflexivity.
Qed.

Lemma patched_ginv w nm cs a :
  GInv w -> Forall wf_cidr cs ->
  (forall n2 d, holder w n2 d -> n2 <> nm -> forall x, In x cs -> overlapb x d = false) ->
  (forall m, w_ctl w = Some m -> forall x, In x cs -> Held m nm x) ->
  find_anode nm (w_nodes w) = Some a -> an_cidrs a = [] ->
  let a' := mkANode (an_name a) (an_labels a) (map (fun c => PGood c true) cs) (an_deleting a) in
  WInv (set_api w (upd_anode a' (w_nodes w)) (w_ccs w) (w_rv w) (push_nev w (NUpd (node_view a'))) (w_cfeed w)) ->
  GInv (set_api w (upd_anode a' (w_nodes w)) (w_ccs w) (w_rv w) (push_nev w (NUpd (node_view a'))) (w_cfeed w)).
Proof.
  intros I Hw Hav Hheld Ea Ec a' W'.
  pose proof (find_anode_name _ _ _ Ea) as Hnm. pose proof (find_anode_in _ _ _ Ea) as Hina.
  assert (Hnmapi : In nm (map an_name (w_nodes w))) by (rewrite <- Hnm; apply in_map; exact Hina).
  set (w' := set_api w (upd_anode a' (w_nodes w)) (w_ccs w) (w_rv w) (push_nev w (NUpd (node_view a'))) (w_cfeed w)) in *.
  assert (Hhold : forall n c, holder w' n c -> (n = nm /\ In c cs) \/ (holder w n c /\ n <> nm)).
  { intros n c [(b & Hb & Hn & Hc)|(x & cn & Hx & Hn & Hc)].
    - cbn [w' set_api w_nodes] in Hb. destruct (in_upd_anode a' _ b (g_names w I) Hb) as [->|[Hb' Hbn]].
      + left. split; [cbn in Hn; congruence|eapply node_cidr_written; exact Hc].
      + right. split; [left; exists b; repeat split; assumption|cbn in Hbn; congruence].
    - cbn [w' set_api w_nfeed] in Hx. apply in_push_ndel in Hx; [|exact Logic.I].
      right. split; [right; exists x, cn; repeat split; assumption|].
      intros ->. apply (g_dead w I x Hx). rewrite Hn. exact Hnmapi. }
  pose proof I as I0. unfold w' in *. clear w'. gsplit I.
  - exact W'.
  - rewrite upd_anode_names. exact Gnm.
  - intros x Hx. destruct (in_upd_anode a' _ x Gnm Hx) as [->|[Hx' _]]; [cbn; apply Gnd; exact Hina|apply Gnd; exact Hx'].
  - intros e He. unfold push_nev in He. destruct (w_synced w); [|apply Gfd; exact He].
    apply in_app_or in He. destruct He as [He|[<-|[]]]; [apply Gfd; exact He|cbn; apply Gnd; exact Hina].
  - exact Gca.
  - exact Gft.
  - intros x Hx. apply in_push_ndel in Hx; [|exact Logic.I]. rewrite upd_anode_names. apply Gde. exact Hx.
  - rewrite dead_names_push; [exact Gdn|exact Logic.I].
  - intros n1 c1 n2 c2 H1 H2 Hne. destruct (Hhold _ _ H1) as [[-> Hc1]|[H1' Hn1]]; destruct (Hhold _ _ H2) as [[-> Hc2]|[H2' Hn2]].
    + contradiction.
    + apply (Hav n2 c2 H2' Hn2 c1 Hc1).
    + rewrite overlapb_sym. apply (Hav n1 c1 H1' Hn1 c2 Hc2).
    + exact (Gdj n1 c1 n2 c2 H1' H2' Hne).
  - intros m Em n c Hc. destruct (Hhold _ _ Hc) as [[-> Hc1]|[Hc' _]]; [apply (Hheld m Em c Hc1)|exact (Ghd m Em n c Hc')].
Qed.

Lemma apply_patch_ginv w nm cs o :
  GInv w -> Forall wf_cidr cs ->
  (forall n2 d, holder w n2 d -> n2 <> nm -> forall x, In x cs -> overlapb x d = false) ->
  (o = POk \/ o = PTimeoutApplied -> forall m, w_ctl w = Some m -> forall x, In x cs -> Held m nm x) ->
  GInv (apply_patch w nm cs o).
Proof.
  intros I Hw Hav Hheld. pose proof (apply_patch_winv w nm cs o (g_w w I) Hw) as W'.
  unfold apply_patch in *.
  destruct o; try exact I;
    (destruct (find_anode nm (w_nodes w)) as [a|] eqn:Ea; [|exact I]; destruct (an_cidrs a) eqn:Ec; [|exact I]);
    (eapply patched_ginv; try eassumption; apply Hheld; auto).
Qed.

(* holders other than nm are untouched by a patch of nm *)
Lemma apply_patch_other_holders w nm cs o n2 d :
  GInv w -> holder (apply_patch w nm cs o) n2 d -> n2 <> nm -> holder w n2 d.
Proof.
  intros I H Hne. unfold apply_patch in H.
  destruct o; try exact H;
    (destruct (find_anode nm (w_nodes w)) as [a|] eqn:Ea; [|exact H]; destruct (an_cidrs a) eqn:Ec; [|exact H]).
  all: destruct H as [(b & Hb & Hn & Hc)|(x & cn & Hx & Hn & Hc)].
  all: try (cbn [set_api w_nodes] in Hb; destruct (in_upd_anode _ _ b (g_names w I) Hb) as [->|[Hb' _]];
            [cbn in Hn; rewrite (find_anode_name _ _ _ Ea) in Hn; congruence|left; exists b; repeat split; assumption]).
  all: cbn [set_api w_nfeed] in Hx; apply in_push_ndel in Hx; [|exact Logic.I]; right; exists x, cn; repeat split; assumption.
Qed.

Lemma apply_update_cc_ginv w o out : GInv w -> GInv (apply_update_cc w o out).
Proof.
  intros I. pose proof (apply_update_cc_winv w o out (g_w w I)) as W'.
  apply (ginv_same w); try assumption.
  - apply apply_update_cc_nodes.
  - unfold apply_update_cc. destruct out; try reflexivity; destruct (find_cc (o_name o) (w_ccs w)) as [c|]; try reflexivity;
      destruct (negb (o_rv c =? o_rv o)); try reflexivity; match goal with |- context [if ?b then _ else _] => destruct b end; reflexivity.
  - unfold apply_update_cc. destruct out; try reflexivity; destruct (find_cc (o_name o) (w_ccs w)) as [c|]; try reflexivity;
      destruct (negb (o_rv c =? o_rv o)); try reflexivity; match goal with |- context [if ?b then _ else _] => destruct b end; reflexivity.
  - unfold apply_update_cc. destruct out; try reflexivity; destruct (find_cc (o_name o) (w_ccs w)) as [c|]; try reflexivity;
      destruct (negb (o_rv c =? o_rv o)); try reflexivity; match goal with |- context [if ?b then _ else _] => destruct b end; reflexivity.
  - apply apply_update_cc_ctl.
Qed.

Lemma apply_update_cc_holders w o out n c : holder (apply_update_cc w o out) n c <-> holder w n c.
Proof.
  unfold holder. rewrite apply_update_cc_nodes.
  assert (E : w_nfeed (apply_update_cc w o out) = w_nfeed w).
  { unfold apply_update_cc. destruct out; try reflexivity; destruct (find_cc (o_name o) (w_ccs w)) as [c0|]; try reflexivity;
      destruct (negb (o_rv c0 =? o_rv o)); try reflexivity; match goal with |- context [if ?b then _ else _] => destruct b end; reflexivity. }
  rewrite E. tauto.
Qed.

Lemma apply_create_cc_ginv w o out : GInv w -> good_obj o -> GInv (apply_create_cc w o out).
Proof.
  intros I Hg. pose proof (apply_create_cc_winv w o out (g_w w I) Hg) as W'.
  destruct (apply_create_cc_frame w o out) as (E1 & E2 & _ & E3 & _ & _ & E4 & _ & E5 & _).
  apply (ginv_same w); assumption.
Qed.

Lemma apply_create_cc_holders w o out n c : holder (apply_create_cc w o out) n c <-> holder w n c.
Proof.
  destruct (apply_create_cc_frame w o out) as (E1 & _ & _ & _ & _ & _ & E4 & _).
  unfold holder. rewrite E1, E4. tauto.
Qed.

Lemma apply_effects_ginv fx : forall w nm cs, GInv w -> Forall wf_cidr cs -> fx_good fx ->
  (forall nm' cs' o, In (FxPatch nm' cs' o) fx -> nm' = nm /\ cs' = cs) ->
  (forall n2 d, holder w n2 d -> n2 <> nm -> forall x, In x cs -> overlapb x d = false) ->
  ((exists o, In (FxPatch nm cs o) fx /\ (o = POk \/ o = PTimeoutApplied)) -> forall m, w_ctl w = Some m -> forall x, In x cs -> Held m nm x) ->
  GInv (apply_effects w fx).
Proof.
  induction fx as [|e fx IH]; intros w nm cs I Hw Hg Hsame Hav Hheld; [exact I|].
  pose proof (fx_good_tail _ _ Hg) as Hg'.
  destruct e; cbn [apply_effects].
  - destruct (Hsame _ _ _ (or_introl eq_refl)) as [-> ->].
    apply (IH _ nm cs); [|exact Hw|exact Hg'| | |].
    + apply apply_patch_ginv; [exact I|exact Hw|exact Hav|]. intros Ho. apply Hheld. exists o. split; [left; reflexivity|exact Ho].
    + intros nm' cs' o' Hin. apply (Hsame nm' cs' o'). right. exact Hin.
    + intros n2 d Hh Hne. apply (Hav n2 d); [|exact Hne]. eapply apply_patch_other_holders; eassumption.
    + intros (o' & Hin & Ho') m Em. rewrite apply_patch_ctl in Em. apply Hheld; [|exact Em]. exists o'. split; [right; exact Hin|exact Ho'].
  - apply (IH _ nm cs); try assumption. intros; eapply Hsame; right; eassumption.
    intros (o' & Hin & Ho'). apply Hheld. exists o'. split; [right; exact Hin|exact Ho'].
  - apply (IH _ nm cs); try assumption. intros; eapply Hsame; right; eassumption.
    intros (o' & Hin & Ho'). apply Hheld. exists o'. split; [right; exact Hin|exact Ho'].
  - apply (IH _ nm cs); [apply apply_update_cc_ginv; exact I|exact Hw|exact Hg'| | |].
    + intros; eapply Hsame; right; eassumption.
    + intros n2 d Hh. apply (Hav n2 d). apply apply_update_cc_holders in Hh. exact Hh.
    + intros (o'' & Hin & Ho') m Em. rewrite apply_update_cc_ctl in Em. apply Hheld; [|exact Em]. exists o''. split; [right; exact Hin|exact Ho'].
  - apply (IH _ nm cs); [apply apply_create_cc_ginv; [exact I|exact (fx_good_head _ _ _ Hg)]|exact Hw|exact Hg'| | |].
    + intros; eapply Hsame; right; eassumption.
    + intros n2 d Hh. apply (Hav n2 d). apply apply_create_cc_holders in Hh. exact Hh.
    + intros (o'' & Hin & Ho') m Em. rewrite apply_create_cc_ctl in Em. apply Hheld; [|exact Em]. exists o''. split; [right; exact Hin|exact Ho'].
Qed.

Lemma crashed_ginv_of w X : GInv w -> WInv X -> w_nodes X = w_nodes w -> GInv (crashed X).
Proof.
  intros I WX E. pose proof (crashed_winv X WX) as W'. destruct I as [a b c d e f g h i j]. constructor; cbn; try assumption.
  - rewrite E. exact b.
  - rewrite E. exact c.
  - intros e0 [].
  - intros n [].
  - intros wk key n [].
  - intros x [].
  - apply NoDup_nil.
  - intros n1 c1 n2 c2 H1 H2. apply i.
    + destruct H1 as [H1|(x & cn & [] & _)]. left. cbn in H1. rewrite E in H1. exact H1.
    + destruct H2 as [H2|(x & cn & [] & _)]. left. cbn in H2. rewrite E in H2. exact H2.
  - intros m Em. discriminate Em.
Qed.

Lemma NoDup_app_l {A} (l m : list A) : NoDup (l ++ m) -> NoDup l.
Proof.
  induction l as [|x l IH]; cbn; [constructor|]. intros H. inversion H; subst. constructor; [|apply IH; exact H3].
  intros Hin. apply H2. apply in_or_app. left. exact Hin.
Qed.
Lemma NoDup_app_r {A} (l m : list A) : NoDup (l ++ m) -> NoDup m.
Proof. induction l as [|x l IH]; cbn; [auto|]. intros H. inversion H; subst. apply IH. exact H3. Qed.

Section Hist2.
  Variable po : parse_oracle.
  Variable lab : label_oracle.

  Lemma run_node_sync_ginv w cached key outs :
    GInv w -> (forall n, cached = Some n -> wf_node n /\ n_deleting n = false) ->
    GInv (fst (run_node_sync po lab w cached key outs)).
  Proof.
    intros I Hc. unfold run_node_sync. destruct (w_ctl w) as [m|] eqn:Em; [|exact I].
    destruct (sync_node po lab (svc_list (w_svc w)) (can_patch w key) (api_same w key) (held_cidrs (w_ncache w)) m cached (find_node key (w_ncache w)) outs)
      as [[m' r] fx] eqn:Es.
    cbn [fst]. pose proof (wi_ctl w (g_w w I) m Em) as M.
    destruct (res_eq_panic r) as [->|Hnp].
    { rewrite (sync_node_panic_writes_nothing _ _ _ _ _ _ _ _ _ _ _ _ M Es). cbn. apply crashed_ginv. exact I. }
    destruct (sync_node_keeps _ _ _ _ _ _ _ _ _ _ _ _ _ M Hc Hnp Es) as (Hmono & Havoid & Hkept).
    assert (M' : MapInv m') by (eapply sync_node_inv; [exact M|exact (wi_svc w (g_w w I))|intros n E; apply (Hc n E)|exact Es]).
    assert (Hac : after_call w r m' = set_ctl w (Some m')) by (unfold after_call; destruct r; [reflexivity|reflexivity|contradiction]).
    assert (IA : GInv (after_call w r m')).
    { pose proof (after_call_winv w r m' (g_w w I) M') as W'. rewrite Hac in *.
      destruct I as [a b c d e f g h i j]. constructor; cbn [set_ctl w_nodes w_nfeed w_ncache w_nfetch w_ctl]; try assumption.
      intros m0 E0 nm c0 Hh. inversion E0; subst. apply Hmono. apply (j m Em). exact Hh. }
    assert (Hholders : forall n c, holder (after_call w r m') n c <-> holder w n c) by (intros; rewrite Hac; unfold holder; cbn; tauto).
    assert (Hctl : w_ctl (after_call w r m') = Some m') by (rewrite Hac; reflexivity).
    destruct (patch_dec fx) as [(nm & cs & o & Hin)|Hno].
    - apply (apply_effects_ginv fx _ nm cs IA).
      + exact (sync_node_patches_wf po lab _ _ _ _ _ _ _ _ _ _ _ M Es nm cs o Hin).
      + eapply sync_node_fx_good; exact Es.
      + intros nm' cs' o' Hin'. exact (sync_node_patches_same _ _ _ _ _ _ _ _ _ _ _ _ _ Es _ _ _ _ _ _ Hin' Hin).
      + intros n2 d Hh Hne x Hx. apply Hholders in Hh. eapply Havoid; [exact Hin| |exact Hx]. apply (g_held w I m Em n2 d Hh).
      + intros (o' & Hin' & Ho') m0 E0 x Hx. rewrite Hctl in E0. inversion E0; subst m0.
        eapply Hkept; [exact Hin'| |exact Hx].
        exact (sync_node_applied_is_kept _ _ _ _ _ _ _ _ _ _ _ _ _ M Es _ _ _ Hin' Ho').
    - apply (apply_effects_ginv fx _ key [] IA); [constructor|eapply sync_node_fx_good; exact Es| | |].
      + intros nm' cs' o' Hin'. destruct (Hno _ _ _ Hin').
      + intros n2 d _ _ x [].
      + intros _ m0 _ x [].
  Qed.

  Lemma run_cc_sync_ginv w key cached out :
    GInv w -> (forall o, cached = Some o -> good_obj o) -> GInv (fst (run_cc_sync w key cached out)).
  Proof.
    intros I Hc. pose proof (run_cc_sync_winv w key cached out (g_w w I) Hc) as W'.
    unfold run_cc_sync in *. destruct (w_ctl w) as [m|] eqn:Em; [|exact I].
    match goal with |- context [sync_cc m key cached ?o] => destruct (sync_cc m key cached o) as [[m' r] fx] eqn:Es end.
    cbn [fst] in *. pose proof (sync_cc_keeps _ _ _ _ _ _ _ Es) as Hmono.
    assert (Hnp : forall nm cs o, ~ In (FxPatch nm cs o) fx).
    { intros nm cs o Hin. pose proof (sync_cc_no_patch _ _ _ _ _ _ _ Es _ Hin) as Hp. discriminate Hp. }
    assert (IA : GInv (after_call w r m')).
    { unfold after_call. destruct r; try (apply crashed_ginv; exact I).
      all: assert (M' : MapInv m') by (eapply sync_cc_inv; [exact (wi_ctl w (g_w w I) m Em)|exact Hc|exact Es]).
      all: pose proof (after_call_winv w (@Ok unit tt) m' (g_w w I) M') as Wa; cbn [after_call] in Wa.
      all: destruct I as [a0 b c d e0 f g h i j]; constructor; cbn [set_ctl w_nodes w_nfeed w_ncache w_nfetch w_ctl]; try assumption.
      all: intros m0 E0 nm c0 Hh; inversion E0; subst; apply Hmono; apply (j m Em); exact Hh. }
    assert (IB : forall w1, GInv w1 -> GInv (apply_effects w1 fx)).
    { intros w1 I1. apply (apply_effects_ginv fx w1 key [] I1); [constructor|eapply sync_cc_fx_good; eassumption| | |].
      - intros nm' cs' o' Hin'. destruct (Hnp _ _ _ Hin').
      - intros n2 d _ _ x [].
      - intros _ m0 _ x []. }
    apply IB. destruct cached as [o|]; [|exact IA].
    match goal with |- context [if ?b then _ else _] => destruct b end; [|exact IA].
    apply (ginv_same (after_call w r m')); try reflexivity; [exact IA|]. apply set_delseen_winv. exact (g_w _ IA).
  Qed.

  Lemma del_anode_names name l : forall x, In x (map an_name (del_anode name l)) -> In x (map an_name l) /\ x <> name.
  Proof.
    intros x Hx. apply in_map_iff in Hx. destruct Hx as (a & <- & Ha). unfold del_anode in Ha. apply filter_In in Ha.
    destruct Ha as [Ha Hn]. split; [apply in_map; exact Ha|]. intros E. rewrite E, str_eqb_refl in Hn. discriminate.
  Qed.
  Lemma NoDup_del_anode name l : NoDup (map an_name l) -> NoDup (map an_name (del_anode name l)).
  Proof.
    induction l as [|h t IH]; cbn; [auto|]. intros H. inversion H; subst. unfold del_anode in *. cbn.
    destruct (negb (str_eqb (an_name h) name)); cbn; [|apply IH; exact H3].
    constructor; [|apply IH; exact H3]. intros Hin. apply H2. apply in_map_iff in Hin. destruct Hin as (a & E & Ha).
    apply filter_In in Ha. rewrite <- E. apply in_map. apply Ha.
  Qed.
  Lemma in_del_anode name l x : In x (del_anode name l) -> In x l /\ an_name x <> name.
  Proof.
    unfold del_anode. intros H. apply filter_In in H. destruct H as [H Hn]. split; [exact H|].
    intros E. rewrite E, str_eqb_refl in Hn. discriminate.
  Qed.

  Theorem step_ginv w o :
    GInv w -> tame_op o ->
    (forall nm, In nm (created o) -> ~ In nm (dead_names (w_nfeed w))) ->
    GInv (fst (step po lab w o)).
  Proof.
    intros I Hq Hfresh. pose proof (step_winv po lab w o (g_w w I) (tame_wf o Hq)) as W'.
    destruct o; cbn [step tame_op] in *; try contradiction.
    - (* UCreateNode without pod CIDRs, under a name no deleted node still waiting for its notification carries *)
      subst cs. destruct (find_anode name (w_nodes w)) eqn:Ef; [exact I|]. cbn [fst] in *.
      set (a' := mkANode name ls [] false) in *.
      assert (Hhold : forall n c, holder (set_api w (w_nodes w ++ [a']) (w_ccs w) (w_rv w) (push_nev w (NAdd (node_view a'))) (w_cfeed w)) n c -> holder w n c).
      { intros n c [(b & Hb & Hn & Hc)|(x & cn & Hx & Hn & Hc)].
        - cbn [set_api w_nodes] in Hb. apply in_app_or in Hb. destruct Hb as [Hb|[<-|[]]]; [left; exists b; repeat split; assumption|destruct Hc as (cn & [])].
        - cbn [set_api w_nfeed] in Hx. apply in_push_ndel in Hx; [|exact Logic.I]. right. exists x, cn. repeat split; assumption. }
      pose proof I as I0. gsplit I; try assumption.
      + rewrite map_app. cbn. apply NoDup_app_snoc; [exact Gnm|apply find_anode_none; exact Ef].
      + intros x Hx. apply in_app_or in Hx. destruct Hx as [Hx|[<-|[]]]; [apply Gnd; exact Hx|reflexivity].
      + intros e He. unfold push_nev in He. destruct (w_synced w); [|apply Gfd; exact He].
        apply in_app_or in He. destruct He as [He|[<-|[]]]; [apply Gfd; exact He|reflexivity].
      + intros x Hx. apply in_push_ndel in Hx; [|exact Logic.I]. rewrite map_app. intros Hin. apply in_app_or in Hin.
        destruct Hin as [Hin|[E|[]]]; [exact (Gde x Hx Hin)|]. cbn in E.
        apply (Hfresh name (or_introl eq_refl)). apply dead_names_in. exists x. split; [exact Hx|symmetry; exact E].
      + rewrite dead_names_push; [exact Gdn|exact Logic.I].
      + intros n1 c1 n2 c2 H1 H2. apply Gdj; apply Hhold; assumption.
      + intros m Em n c Hc. apply (Ghd m Em). apply Hhold. exact Hc.
    - (* ULabelNode *)
      destruct (find_anode name (w_nodes w)) as [a|] eqn:Ea; [|exact I]. cbn [fst] in *.
      pose proof (find_anode_name _ _ _ Ea) as Hnm. pose proof (find_anode_in _ _ _ Ea) as Hina.
      set (a' := mkANode name ls (an_cidrs a) (an_deleting a)) in *.
      assert (Hhold : forall n c, holder (set_api w (upd_anode a' (w_nodes w)) (w_ccs w) (w_rv w) (push_nev w (NUpd (node_view a'))) (w_cfeed w)) n c -> holder w n c).
      { intros n c [(b & Hb & Hn & Hc)|(x & cn & Hx & Hn & Hc)].
        - cbn [set_api w_nodes] in Hb. destruct (in_upd_anode a' _ b (g_names w I) Hb) as [->|[Hb' _]].
          + left. exists a. split; [exact Hina|]. split; [cbn in Hn; congruence|exact Hc].
          + left. exists b. repeat split; assumption.
        - cbn [set_api w_nfeed] in Hx. apply in_push_ndel in Hx; [|exact Logic.I]. right. exists x, cn. repeat split; assumption. }
      pose proof I as I0. gsplit I; try assumption.
      + rewrite upd_anode_names. exact Gnm.
      + intros x Hx. destruct (in_upd_anode a' _ x Gnm Hx) as [->|[Hx' _]]; [cbn; apply Gnd; exact Hina|apply Gnd; exact Hx'].
      + intros e He. unfold push_nev in He. destruct (w_synced w); [|apply Gfd; exact He].
        apply in_app_or in He. destruct He as [He|[<-|[]]]; [apply Gfd; exact He|cbn; apply Gnd; exact Hina].
      + intros x Hx. apply in_push_ndel in Hx; [|exact Logic.I]. rewrite upd_anode_names. apply Gde. exact Hx.
      + rewrite dead_names_push; [exact Gdn|exact Logic.I].
      + intros n1 c1 n2 c2 H1 H2. apply Gdj; apply Hhold; assumption.
      + intros m Em n c Hc. apply (Ghd m Em). apply Hhold. exact Hc.
    - (* UDeleteNode: the node leaves the API; its delete notification (if informers run) keeps it among the holders *)
      destruct (find_anode name (w_nodes w)) as [a|] eqn:Ea; [|exact I]. cbn [fst] in *.
      pose proof (find_anode_name _ _ _ Ea) as Hnm. pose proof (find_anode_in _ _ _ Ea) as Hina.
      assert (Hhold : forall n c, holder (set_api w (del_anode name (w_nodes w)) (w_ccs w) (w_rv w) (push_nev w (NDel (node_view a))) (w_cfeed w)) n c -> holder w n c).
      { intros n c [(b & Hb & Hn & Hc)|(x & cn & Hx & Hn & Hc)].
        - cbn [set_api w_nodes] in Hb. destruct (in_del_anode _ _ _ Hb) as [Hb' _]. left. exists b. repeat split; assumption.
        - cbn [set_api w_nfeed] in Hx. unfold push_nev in Hx. destruct (w_synced w); [|right; exists x, cn; repeat split; assumption].
          apply in_app_or in Hx. destruct Hx as [Hx|[E|[]]]; [right; exists x, cn; repeat split; assumption|].
          inversion E; subst x. left. exists a. split; [exact Hina|]. split; [exact Hn|exists cn; exact Hc]. }
      pose proof I as I0. gsplit I; try assumption.
      + apply NoDup_del_anode. exact Gnm.
      + intros x Hx. destruct (in_del_anode _ _ _ Hx) as [Hx' _]. apply Gnd. exact Hx'.
      + intros e He. unfold push_nev in He. destruct (w_synced w); [|apply Gfd; exact He].
        apply in_app_or in He. destruct He as [He|[<-|[]]]; [apply Gfd; exact He|cbn; apply Gnd; exact Hina].
      + intros x Hx Hin. destruct (del_anode_names _ _ _ Hin) as [Hin' Hne].
        unfold push_nev in Hx. destruct (w_synced w); [|exact (Gde x Hx Hin')].
        apply in_app_or in Hx. destruct Hx as [Hx|[E|[]]]; [exact (Gde x Hx Hin')|]. inversion E; subst x. cbn in Hne. congruence.
      + unfold push_nev. destruct (w_synced w); [|exact Gdn]. rewrite dead_names_app. cbn. apply NoDup_app_snoc; [exact Gdn|].
        intros Hin. apply dead_names_in in Hin. destruct Hin as (x & Hx & Hn). apply (Gde x Hx). rewrite Hn. cbn. apply in_map. exact Hina.
      + intros n1 c1 n2 c2 H1 H2. apply Gdj; apply Hhold; assumption.
      + intros m Em n c Hc. apply (Ghd m Em). apply Hhold. exact Hc.
    - (* UCreateCC *)
      destruct (find_cc (o_name o) (w_ccs w)); [exact I|]. apply (ginv_same w); try reflexivity; assumption.
    - (* UDeleteCC *)
      destruct (find_cc name (w_ccs w)) as [c|]; [|exact I]. destruct (o_fins c); [apply (ginv_same w); try reflexivity; assumption|].
      destruct (o_deleting c); [exact I|apply (ginv_same w); try reflexivity; assumption].
    - (* USetCCFinalizers *)
      destruct (find_cc name (w_ccs w)) as [c|]; [|exact I].
      match goal with |- context [if ?b then _ else _] => destruct b end; apply (ginv_same w); try reflexivity; assumption.
    - (* DeliverNode *)
      destruct (w_nfeed w) as [|e rest] eqn:Ef; [exact I|].
      assert (Hwe : wf_node (nev_node e)) by (pose proof (wi_nfeed w (g_w w I)) as Hf; rewrite Ef in Hf; inversion Hf; assumption).
      assert (Hde : n_deleting (nev_node e) = false) by (apply (g_feed_nd w I); rewrite Ef; left; reflexivity).
      pose proof (handle_nevent_winv (set_caches w (w_ncache w) (w_ccache w) rest (w_cfeed w)) e) as Wh.
      assert (W0 : WInv (set_caches w (w_ncache w) (w_ccache w) rest (w_cfeed w))).
      { pose proof (g_w w I) as Ww. destruct Ww as [a1 b1 c1 d1 e1 f1 g1 h1 i1 j1]. constructor; cbn; try assumption. rewrite Ef in c1. inversion c1; assumption. }
      specialize (Wh W0 Hwe).
      unfold handle_nevent in *. destruct e as [n|n|n]; cbn [nev_node] in *.
      + (* add *)
        assert (Hhold : forall nm c, holder (set_caches w (w_ncache w) (w_ccache w) rest (w_cfeed w)) nm c -> holder w nm c).
        { intros nm c [H|(x & cn & Hx & Hn & Hc)]; [left; exact H|right; exists x, cn; split; [rewrite Ef; right; exact Hx|split; assumption]]. }
        destruct (w_ctl w) eqn:Em; cbn [set_caches w_ctl] in *; rewrite ?Em in *; cbn [fst] in *.
        all: pose proof I as I0; gsplit I; try assumption.
        all: try (intros e0 He0; apply Gfd; rewrite Ef; right; exact He0).
        all: try (intros x Hx; unfold put_node in Hx; destruct (find_node (n_name n) (w_ncache w));
                  [apply in_map_iff in Hx; destruct Hx as (y & <- & Hy); destruct (str_eqb (n_name y) (n_name n)); [exact Hde|apply Gca; exact Hy]
                  |apply in_app_or in Hx; destruct Hx as [Hx|[<-|[]]]; [apply Gca; exact Hx|exact Hde]]).
        all: try (intros x Hx; apply Gde; rewrite Ef; right; exact Hx).
        all: try (rewrite Ef in Gdn; cbn in Gdn; exact Gdn).
        all: try (intros n1 c1 n2 c2 H1 H2; apply Gdj; apply Hhold; assumption).
        all: intros m0 Em0 nm c9 Hc; apply (Ghd m0 Em0); apply Hhold; exact Hc.
      + (* update *)
        assert (Hhold : forall nm c, holder (set_caches w (w_ncache w) (w_ccache w) rest (w_cfeed w)) nm c -> holder w nm c).
        { intros nm c [H|(x & cn & Hx & Hn & Hc)]; [left; exact H|right; exists x, cn; split; [rewrite Ef; right; exact Hx|split; assumption]]. }
        destruct (w_ctl w) eqn:Em; cbn [set_caches w_ctl] in *; rewrite ?Em in *; cbn [fst] in *.
        all: pose proof I as I0; gsplit I; try assumption.
        all: try (intros e0 He0; apply Gfd; rewrite Ef; right; exact He0).
        all: try (intros x Hx; unfold put_node in Hx; destruct (find_node (n_name n) (w_ncache w));
                  [apply in_map_iff in Hx; destruct Hx as (y & <- & Hy); destruct (str_eqb (n_name y) (n_name n)); [exact Hde|apply Gca; exact Hy]
                  |apply in_app_or in Hx; destruct Hx as [Hx|[<-|[]]]; [apply Gca; exact Hx|exact Hde]]).
        all: try (intros x Hx; apply Gde; rewrite Ef; right; exact Hx).
        all: try (rewrite Ef in Gdn; cbn in Gdn; exact Gdn).
        all: try (intros n1 c1 n2 c2 H1 H2; apply Gdj; apply Hhold; assumption).
        all: intros m0 Em0 nm c9 Hc; apply (Ghd m0 Em0); apply Hhold; exact Hc.
      + (* delete: the controller releases what the deleted node held *)
        assert (Hdn : NoDup (n_name n :: dead_names rest)) by (pose proof (g_dead_nodup w I) as H; rewrite Ef in H; exact H).
        assert (Hhold : forall nm c, holder (set_caches w (del_node (n_name n) (w_ncache w)) (w_ccache w) rest (w_cfeed w)) nm c -> holder w nm c /\ nm <> n_name n).
        { intros nm c [(b & Hb & Hn & Hc)|(x & cn & Hx & Hn & Hc)].
          - split; [left; exists b; repeat split; assumption|]. intros E. apply (g_dead w I n ltac:(rewrite Ef; left; reflexivity)).
            rewrite <- E, <- Hn. apply in_map. exact Hb.
          - split; [right; exists x, cn; split; [rewrite Ef; right; exact Hx|split; assumption]|].
            intros E. inversion Hdn; subst. apply H1. apply dead_names_in. exists x. split; [exact Hx|congruence]. }
        cbn [set_caches w_ctl w_svc] in *. destruct (w_ctl w) as [m|] eqn:Em.
        * pose proof (wi_ctl w (g_w w I) m Em) as M.
          destruct (release_cidr (svc_list (w_svc w)) m n) as [m' r] eqn:Er.
          assert (Hkeep : forall nm c, holder (set_caches w (del_node (n_name n) (w_ncache w)) (w_ccache w) rest (w_cfeed w)) nm c -> Held m' nm c).
          { intros nm c Hc. destruct (Hhold nm c Hc) as [Hc' Hne].
            eapply (release_cidr_keeps _ m n m' r M (wi_svc w (g_w w I)) Hwe Er nm c); [exact (g_held w I m Em nm c Hc')|exact Hne|].
            intros c0 canon Hc0. apply (g_disj w I (n_name n) c0 nm c); [|exact Hc'|congruence].
            right. exists n, canon. split; [rewrite Ef; left; reflexivity|split; [reflexivity|exact Hc0]]. }
          destruct r; cbn [fst] in *.
          -- pose proof I as I0. gsplit I; try assumption.
             ++ intros e0 He0. apply Gfd. rewrite Ef. right. exact He0.
             ++ intros x Hx. unfold del_node in Hx. apply filter_In in Hx. apply Gca. apply Hx.
             ++ intros x Hx. apply Gde. rewrite Ef. right. exact Hx.
             ++ inversion Hdn; assumption.
             ++ intros n1 c1 n2 c2 H1 H2. apply Gdj; [apply (Hhold n1 c1 H1)|apply (Hhold n2 c2 H2)].
             ++ intros m0 E0 nm c Hc. inversion E0; subst. apply Hkeep. exact Hc.
          -- pose proof I as I0. gsplit I; try assumption.
             ++ intros e0 He0. apply Gfd. rewrite Ef. right. exact He0.
             ++ intros x Hx. unfold del_node in Hx. apply filter_In in Hx. apply Gca. apply Hx.
             ++ intros x Hx. apply Gde. rewrite Ef. right. exact Hx.
             ++ inversion Hdn; assumption.
             ++ intros n1 c1 n2 c2 H1 H2. apply Gdj; [apply (Hhold n1 c1 H1)|apply (Hhold n2 c2 H2)].
             ++ intros m0 E0 nm c Hc. inversion E0; subst. apply Hkeep. exact Hc.
          -- apply (crashed_ginv_of w); [exact I| |reflexivity].
             pose proof (g_w w I) as Ww. destruct Ww as [a1 b1 c1 d1 e1 f1 g1 h1 i1 j1]. constructor; cbn; try assumption.
             ++ rewrite Ef in c1. inversion c1; assumption.
             ++ apply Forall_del_node. exact e1.
        * cbn [fst] in *. pose proof I as I0. gsplit I; try assumption.
          -- intros e0 He0. apply Gfd. rewrite Ef. right. exact He0.
          -- intros x Hx. unfold del_node in Hx. apply filter_In in Hx. apply Gca. apply Hx.
          -- intros x Hx. apply Gde. rewrite Ef. right. exact Hx.
          -- inversion Hdn; assumption.
          -- intros n1 c1 n2 c2 H1 H2. apply Gdj; [apply (Hhold n1 c1 H1)|apply (Hhold n2 c2 H2)].
          -- intros m0 E0. rewrite Em in E0. discriminate E0.
    - (* DeliverCC *)
      destruct (w_cfeed w) as [|e rest]; [exact I|].
      match goal with |- GInv (fst (handle_cevent ?w0 e)) => destruct (handle_cevent_same w0 e) as (A & B & C & D & E) end.
      apply (ginv_same w); assumption.
    - (* ResyncNodes *) destruct (w_ctl w); [|exact I]. apply (ginv_same w); try reflexivity; assumption.
    - (* ResyncCCs *) destruct (w_ctl w); [|exact I]. apply (ginv_same w); try reflexivity; assumption.
    - (* RelistCCs *)
      destruct (w_synced w); [|exact I]. cbn [fst] in *.
      match goal with |- GInv (deliver_all_c ?w0 ?es) => destruct (deliver_all_c_same es w0) as (A & B & C & D & E) end.
      apply (ginv_same w); assumption.
    - (* FetchNode: a worker takes a copy of the cached node; it may run on it much later *)
      cbn [fst] in *. pose proof I as I0. gsplit I; try assumption.
      intros wk k n [E|Hin].
      + inversion E; subst. match goal with H : find_node _ _ = Some n |- _ => apply find_node_in in H; exact (Gca n H) end.
      + apply filter_In in Hin. destruct Hin as [Hin _]. eapply Gft. exact Hin.
    - (* RunNode *)
      destruct (find (fun x => fst x =? w0) (w_nfetch w)) as [[wk [key cached]]|] eqn:Ef; [|exact I].
      apply find_some in Ef. destruct Ef as [Hin _].
      apply run_node_sync_ginv.
      + pose proof I as I0. gsplit I; try assumption.
        * pose proof (g_w w I0) as Ww. destruct Ww as [a1 b1 c1 d1 e1 f1 g1 h1 i1 j1]. constructor; cbn; try assumption.
          intros wk' k n Hi. apply filter_In in Hi. destruct Hi as [Hi _]. eapply g1. exact Hi.
        * intros wk' k n Hi. apply filter_In in Hi. destruct Hi as [Hi _]. eapply Gft. exact Hi.
      + intros n E. subst cached. split; [eapply (wi_nfetch w (g_w w I)); exact Hin|eapply (g_fetch w I); exact Hin].
    - (* FetchCC *) apply (ginv_same w); try reflexivity; assumption.
    - (* RunCC *)
      destruct (find (fun x => fst x =? w0) (w_cfetch w)) as [[wk [key cached]]|] eqn:Ef; [|exact I].
      apply find_some in Ef. destruct Ef as [Hin _].
      apply run_cc_sync_ginv.
      + apply (ginv_same w); try reflexivity; [exact I|].
        pose proof (g_w w I) as Ww. destruct Ww as [a1 b1 c1 d1 e1 f1 g1 h1 i1 j1]. constructor; cbn; try assumption.
        intros wk' k n Hi. apply filter_In in Hi. destruct Hi as [Hi _]. eapply h1. exact Hi.
      + intros n E. subst cached. eapply (wi_cfetch w (g_w w I)). exact Hin.
    - (* ProcNode *)
      destruct (w_ctl w) as [m|] eqn:Em; [|exact I]. destruct (q_ready (w_nq w)) as [|key rest]; [exact I|].
      match goal with |- context [run_node_sync po lab ?w1 ?c ?k ?o] =>
        assert (I2 : GInv (fst (run_node_sync po lab w1 c k o)));
          [|destruct (run_node_sync po lab w1 c k o) as [w2 ob2]] end.
      { apply run_node_sync_ginv.
        - apply (ginv_same w); try reflexivity; [exact I|apply set_queues_winv; exact (g_w w I)].
        - cbn [set_queues w_ncache]. intros n E. apply find_node_in in E. split; [|exact (g_cache_nd w I n E)].
          pose proof (wi_ncache w (g_w w I)) as F. rewrite Forall_forall in F. apply F. exact E. }
      cbn [fst] in I2. destruct (ob_res ob2 =? 2); cbn [fst]; [|exact I2].
      apply (ginv_same w2); try reflexivity; [exact I2|apply set_queues_winv; exact (g_w w2 I2)].
    - (* ProcCC *)
      destruct (w_ctl w) as [m|] eqn:Em; [|exact I]. destruct (q_ready (w_cq w)) as [|key rest]; [exact I|].
      match goal with |- context [run_cc_sync ?w1 ?k ?c ?o] =>
        assert (I2 : GInv (fst (run_cc_sync w1 k c o)));
          [|destruct (run_cc_sync w1 k c o) as [w2 ob2]] end.
      { apply run_cc_sync_ginv.
        - apply (ginv_same w); try reflexivity; [exact I|apply set_queues_winv; exact (g_w w I)].
        - cbn [set_queues w_ccache]. intros n E. eapply cached_cc_good; [exact (g_w w I)|exact E]. }
      cbn [fst] in I2. destruct (ob_res ob2 =? 2); cbn [fst]; [|exact I2].
      apply (ginv_same w2); try reflexivity; [exact I2|apply set_queues_winv; exact (g_w w2 I2)].
    - (* Tick *) apply (ginv_same w); try reflexivity; assumption.
    - (* Crash *) apply crashed_ginv. exact I.
    - (* StartInformers: the caches are filled from the API; notifications still on their way are dropped *)
      destruct (w_ctl w) as [m|] eqn:Em; [|exact I]. destruct (w_synced w); [exact I|]. cbn [fst] in *.
      assert (Hhold : forall nm c, holder (mkWorld (w_nodes w) (w_ccs w) (w_rv w) [] [] (map node_view (w_nodes w)) (w_ccs w)
                 (fold_left (fun q n => q_add (n_name n) q) (map node_view (w_nodes w)) (w_nq w))
                 (fold_left (fun q o => q_add (o_name o) q) (w_ccs w) (w_cq w)) (Some m) true (w_nfetch w) (w_cfetch w) (w_svc w) (w_delseen w)) nm c -> holder w nm c).
      { intros nm c [H|(x & cn & [] & _)]. left. exact H. }
      pose proof I as I0. gsplit I; try assumption.
      + intros e [].
      + intros n Hn. apply in_map_iff in Hn. destruct Hn as (a & <- & Ha). cbn. apply Gnd. exact Ha.
      + intros x [].
      + apply NoDup_nil.
      + intros n1 c1 n2 c2 H1 H2. apply Gdj; apply Hhold; assumption.
      + intros m0 E0 nm c Hc. inversion E0; subst m0. apply (Ghd m Em). apply Hhold. exact Hc.
  Qed.

  (* ---------- names: API names only grow by creations; dead names only by deletions of API names ---------- *)
  Definition names_ok (w w' : world) (new : list str) : Prop :=
    (forall nm, In nm (map an_name (w_nodes w')) -> In nm (map an_name (w_nodes w)) \/ In nm new) /\
    (forall nm, In nm (dead_names (w_nfeed w')) -> In nm (dead_names (w_nfeed w)) \/ In nm (map an_name (w_nodes w))).

  Lemma names_ok_refl w : names_ok w w [].
  Proof. split; intros nm H; left; exact H. Qed.
  Lemma names_ok_same w w' new : w_nodes w' = w_nodes w -> w_nfeed w' = w_nfeed w -> names_ok w w' new.
  Proof. intros E1 E2. split; intros nm H; left; congruence. Qed.
  Lemma names_ok_trans a b c n1 n2 : names_ok a b n1 -> map an_name (w_nodes b) = map an_name (w_nodes a) -> names_ok b c n2 -> names_ok a c (n1 ++ n2).
  Proof.
    intros [A1 A2] E [B1 B2]. split; intros nm H.
    - destruct (B1 nm H) as [H1|H1]; [destruct (A1 nm H1) as [H2|H2]; [left; exact H2|right; apply in_or_app; left; exact H2]|right; apply in_or_app; right; exact H1].
    - destruct (B2 nm H) as [H1|H1]; [exact (A2 nm H1)|right; rewrite <- E; exact H1].
  Qed.

  Lemma apply_patch_names w nm cs o : map an_name (w_nodes (apply_patch w nm cs o)) = map an_name (w_nodes w) /\
                                     dead_names (w_nfeed (apply_patch w nm cs o)) = dead_names (w_nfeed w).
  Proof.
    unfold apply_patch. destruct o; try (split; reflexivity);
      (destruct (find_anode nm (w_nodes w)) as [a|]; [|split; reflexivity]; destruct (an_cidrs a); [|split; reflexivity]);
      cbn [set_api w_nodes w_nfeed]; (split; [apply upd_anode_names|apply dead_names_push; exact Logic.I]).
  Qed.
  Lemma apply_update_cc_feed w o out : w_nfeed (apply_update_cc w o out) = w_nfeed w.
  Proof.
    unfold apply_update_cc. destruct out; try reflexivity; destruct (find_cc (o_name o) (w_ccs w)) as [c0|]; try reflexivity;
      destruct (negb (o_rv c0 =? o_rv o)); try reflexivity; match goal with |- context [if ?b then _ else _] => destruct b end; reflexivity.
  Qed.
  Lemma apply_effects_names fx : forall w, map an_name (w_nodes (apply_effects w fx)) = map an_name (w_nodes w) /\
                                           dead_names (w_nfeed (apply_effects w fx)) = dead_names (w_nfeed w).
  Proof.
    induction fx as [|e fx IH]; intros w; [split; reflexivity|]. destruct e; cbn [apply_effects]; destruct (IH (apply_patch w node cs o)) as [A B] || idtac.
    - destruct (apply_patch_names w node cs o) as [C D]. split; congruence.
    - apply IH.
    - apply IH.
    - destruct (IH (apply_update_cc w o' outcome)) as [A B]. rewrite apply_update_cc_nodes, apply_update_cc_feed in *. split; assumption.
    - destruct (IH (apply_create_cc w o' outcome)) as [A B].
      destruct (apply_create_cc_frame w o' outcome) as (E1 & _ & _ & _ & _ & _ & E4 & _). rewrite E1, E4 in *. split; assumption.
  Qed.

  Lemma crashed_names w X new : w_nodes X = w_nodes w -> names_ok w (crashed X) new.
  Proof. intros E. split; intros nm H; cbn in H; [left; rewrite <- E; exact H|destruct H]. Qed.

  Lemma run_node_sync_names w cached key outs : names_ok w (fst (run_node_sync po lab w cached key outs)) [].
  Proof.
    unfold run_node_sync. destruct (w_ctl w) as [m|]; [|apply names_ok_refl].
    destruct (sync_node _ _ _ _ _ _ _ _ _) as [[m' r] fx]. cbn [fst].
    destruct (apply_effects_names fx (after_call w r m')) as [A B].
    split; intros nm H; [rewrite A in H|rewrite B in H]; unfold after_call in H; destruct r; cbn in H; try (left; exact H); destruct H.
  Qed.
  Lemma run_cc_sync_names w key cached out : names_ok w (fst (run_cc_sync w key cached out)) [].
  Proof.
    unfold run_cc_sync. destruct (w_ctl w) as [m|]; [|apply names_ok_refl].
    match goal with |- context [sync_cc m key cached ?o] => destruct (sync_cc m key cached o) as [[m' r] fx] end. cbn [fst].
    match goal with |- names_ok w (apply_effects ?X fx) [] => destruct (apply_effects_names fx X) as [A B];
      assert (EX : (w_nodes X = w_nodes w /\ w_nfeed X = w_nfeed w) \/ (w_nodes X = w_nodes w /\ w_nfeed X = [])) end.
    { destruct cached as [o|]; [match goal with |- context [if ?b then _ else _] => destruct b end|]; unfold after_call; destruct r; cbn; auto. }
    split; intros nm H; [rewrite A in H|rewrite B in H]; destruct EX as [[E1 E2]|[E1 E2]]; rewrite ?E1, ?E2 in H; try (left; exact H); destruct H.
  Qed.

  Lemma handle_nevent_feed w e : w_nfeed (fst (handle_nevent w e)) = w_nfeed w \/ w_nfeed (fst (handle_nevent w e)) = [].
  Proof.
    unfold handle_nevent. destruct e as [n|n|n]; cbn [set_caches w_ctl]; try (destruct (w_ctl w); left; reflexivity).
    destruct (w_ctl w) as [m|]; [|left; reflexivity]. destruct (release_cidr (svc_list (w_svc w)) m n) as [m' r]. destruct r; cbn; auto.
  Qed.

  Lemma step_names w o : tame_op o -> names_ok w (fst (step po lab w o)) (created o).
  Proof.
    intros Hq. destruct o; cbn [step tame_op created] in *; try contradiction.
    - destruct (find_anode name (w_nodes w)); [split; intros nm H; left; exact H|]. unfold names_ok. cbn [fst set_api w_nodes w_nfeed]. split; intros nm H.
      + rewrite map_app in H. apply in_app_or in H. destruct H as [H|[<-|[]]]; [left; exact H|right; left; reflexivity].
      + rewrite dead_names_push in H; [left; exact H|exact Logic.I].
    - destruct (find_anode name (w_nodes w)) as [a|] eqn:Ea; [|apply names_ok_refl]. unfold names_ok. cbn [fst set_api w_nodes w_nfeed]. split; intros nm H.
      + rewrite upd_anode_names in H. left. exact H.
      + rewrite dead_names_push in H; [left; exact H|exact Logic.I].
    - destruct (find_anode name (w_nodes w)) as [a|] eqn:Ea; [|apply names_ok_refl]. unfold names_ok. cbn [fst set_api w_nodes w_nfeed]. split; intros nm H.
      + left. apply (del_anode_names _ _ _ H).
      + unfold push_nev in H. destruct (w_synced w); [|left; exact H]. rewrite dead_names_app in H. apply in_app_or in H.
        destruct H as [H|[<-|[]]]; [left; exact H|right]. cbn. rewrite (find_anode_name _ _ _ Ea). rewrite <- (find_anode_name _ _ _ Ea). apply in_map. eapply find_anode_in. exact Ea.
    - destruct (find_cc (o_name o) (w_ccs w)); apply names_ok_same; reflexivity.
    - destruct (find_cc name (w_ccs w)) as [c|]; [|apply names_ok_refl]. destruct (o_fins c); [apply names_ok_same; reflexivity|].
      destruct (o_deleting c); apply names_ok_same; reflexivity.
    - destruct (find_cc name (w_ccs w)) as [c|]; [|apply names_ok_refl].
      match goal with |- context [if ?b then _ else _] => destruct b end; apply names_ok_same; reflexivity.
    - (* DeliverNode *)
      destruct (w_nfeed w) as [|e rest] eqn:Ef; [apply names_ok_refl|]. unfold names_ok.
      rewrite (handle_nevent_nodes (set_caches w (w_ncache w) (w_ccache w) rest (w_cfeed w)) e). cbn [set_caches w_nodes].
      split; intros nm H; [left; exact H|]. left.
      destruct (handle_nevent_feed (set_caches w (w_ncache w) (w_ccache w) rest (w_cfeed w)) e) as [E|E]; rewrite E in H; [|destruct H].
      cbn [set_caches w_nfeed] in H. rewrite Ef. change (dead_names (e :: rest)) with ((match e with NDel x => [n_name x] | _ => [] end) ++ dead_names rest).
      apply in_or_app. right. exact H.
    - destruct (w_cfeed w) as [|e rest]; [apply names_ok_refl|].
      match goal with |- names_ok w (fst (handle_cevent ?w0 e)) _ => destruct (handle_cevent_same w0 e) as (A & B & _) end.
      apply names_ok_same; assumption.
    - destruct (w_ctl w); apply names_ok_same; reflexivity.
    - destruct (w_ctl w); apply names_ok_same; reflexivity.
    - destruct (w_synced w); [|apply names_ok_refl]. cbn [fst].
      match goal with |- names_ok w (deliver_all_c ?w0 ?es) _ => destruct (deliver_all_c_same es w0) as (A & B & _) end.
      apply names_ok_same; assumption.
    - apply names_ok_same; reflexivity.
    - destruct (find (fun x => fst x =? w0) (w_nfetch w)) as [[wk [key cached]]|]; [|apply names_ok_refl].
      match goal with |- names_ok w (fst (run_node_sync po lab ?w1 ?c ?k ?o)) _ => pose proof (run_node_sync_names w1 c k o) as H end. exact H.
    - apply names_ok_same; reflexivity.
    - destruct (find (fun x => fst x =? w0) (w_cfetch w)) as [[wk [key cached]]|]; [|apply names_ok_refl].
      match goal with |- names_ok w (fst (run_cc_sync ?w1 ?k ?c ?o)) _ => pose proof (run_cc_sync_names w1 k c o) as H end. exact H.
    - destruct (w_ctl w) as [m|]; [|apply names_ok_refl]. destruct (q_ready (w_nq w)) as [|key rest]; [apply names_ok_refl|].
      match goal with |- context [run_node_sync po lab ?w1 ?c ?k ?o] =>
        pose proof (run_node_sync_names w1 c k o) as H; destruct (run_node_sync po lab w1 c k o) as [w2 ob2] end.
      cbn [fst] in *. destruct (ob_res ob2 =? 2); exact H.
    - destruct (w_ctl w) as [m|]; [|apply names_ok_refl]. destruct (q_ready (w_cq w)) as [|key rest]; [apply names_ok_refl|].
      match goal with |- context [run_cc_sync ?w1 ?k ?c ?o] =>
        pose proof (run_cc_sync_names w1 k c o) as H; destruct (run_cc_sync w1 k c o) as [w2 ob2] end.
      cbn [fst] in *. destruct (ob_res ob2 =? 2); exact H.
    - apply names_ok_same; reflexivity.
    - apply crashed_names. reflexivity.
    - destruct (w_ctl w); [|apply names_ok_refl]. destruct (w_synced w); [apply names_ok_refl|]. cbn [fst].
      split; intros nm H; cbn in H; [left; exact H|destruct H].
  Qed.

  Definition Fresh (S : list str) (w : world) : Prop :=
    forall nm, In nm S -> ~ In nm (map an_name (w_nodes w)) /\ ~ In nm (dead_names (w_nfeed w)).

  Theorem run_ginv ops : forall w, GInv w -> Forall tame_op ops -> NoDup (flat_map created ops) -> Fresh (flat_map created ops) w ->
    GInv (run po lab w ops).
  Proof.
    induction ops as [|o ops IH]; intros w I H Hnd Hf; [exact I|]. inversion H; subst.
    unfold run. cbn [fold_left]. cbn [flat_map] in Hnd, Hf. apply IH.
    - apply step_ginv; [exact I|exact H2|]. intros nm Hin. apply (Hf nm). apply in_or_app. left. exact Hin.
    - exact H3.
    - apply NoDup_app_r in Hnd. exact Hnd.
    - intros nm Hin. destruct (step_names w o H2) as [A B]. split.
      + intros Hx. destruct (A nm Hx) as [Hx'|Hx']; [apply (proj1 (Hf nm (in_or_app _ _ _ (or_intror Hin)))); exact Hx'|].
        (* nm is created now AND later: excluded by NoDup *)
        clear - Hnd Hin Hx'. induction (created o) as [|c l IHl]; [destruct Hx'|]. cbn in Hnd. inversion Hnd; subst.
        destruct Hx' as [->|Hx']; [apply H1; apply in_or_app; right; exact Hin|exact (IHl H2 Hx')].
      + intros Hx. destruct (B nm Hx) as [Hx'|Hx'].
        * apply (proj2 (Hf nm (in_or_app _ _ _ (or_intror Hin)))); exact Hx'.
        * apply (proj1 (Hf nm (in_or_app _ _ _ (or_intror Hin)))); exact Hx'.
  Qed.

  Lemma construct_ginv w s1 s2 outs dp :
    GInv w -> bare w -> w_nfeed w = [] -> (forall s, s1 = Some s -> wf_cidr s) -> (forall s, s2 = Some s -> wf_cidr s) -> wf_dp dp ->
    GInv (fst (step po lab w (Construct s1 s2 outs dp))).
  Proof.
    intros I [Hc Hn] Hfe H1 H2 Hdp. pose proof (step_winv po lab w (Construct s1 s2 outs dp) (g_w w I) (conj H1 (conj H2 Hdp))) as W'.
    assert (Hgood : Forall good_obj (with_default dp (w_ccs w))) by (apply with_default_good; [exact Hdp|exact (wi_ccs w (g_w w I))]).
    cbn [step] in *. rewrite Hc in *.
    destruct (construct po lab (with_default dp (w_ccs w)) outs s1 s2 (map node_view (w_nodes w))) as [[m fx] pan] eqn:Ec. cbn [fst] in *.
    assert (Hnp : forall nm cs o, ~ In (FxPatch nm cs o) fx).
    { intros nm cs o Hin. unfold construct in Ec. destruct (bootstrap_ccs [] (with_default dp (w_ccs w)) outs) as [m1 fx1] eqn:Eb.
      match type of Ec with context [occupy_nodes po lab ?m3 ?ns] => destruct (occupy_nodes po lab m3 ns) as [m4 p4] end.
      inversion Ec; subst. pose proof (bootstrap_no_patch _ _ _ _ _ Eb _ Hin) as Hp. discriminate Hp. }
    assert (IB : forall w1, GInv w1 -> GInv (apply_effects w1 fx)).
    { intros w1 I1. apply (apply_effects_ginv fx w1 [] [] I1); [constructor|eapply construct_fx_good; eassumption| | |].
      - intros nm' cs' o' Hin'. destruct (Hnp _ _ _ Hin').
      - intros n2 d _ _ x [].
      - intros _ m0 _ x []. }
    apply IB.
    assert (M : forall m0, (if pan then None else Some m) = Some m0 -> MapInv m0).
    { intros m0 E. destruct pan; [discriminate|]. inversion E; subst.
      eapply construct_inv; [exact Hgood| |exact H1|exact H2|exact Ec].
      rewrite Forall_forall. intros n Hin. apply in_map_iff in Hin. destruct Hin as (a & <- & Ha). apply wf_node_view. eapply in_anodes_wf; [exact (g_w w I)|exact Ha]. }
    assert (Hnoh : forall nm c, ~ holder (mkWorld (w_nodes w) (w_ccs w) (w_rv w) [] [] [] [] empty_q empty_q (if pan then None else Some m) false [] [] (s1, s2) (w_delseen w)) nm c).
    { intros nm c [(a & Ha & _ & (cn & Hcn))|(x & cn & [] & _)]. cbn in Ha. rewrite (Hn a Ha) in Hcn. destruct Hcn. }
    pose proof I as I0. gsplit I; try assumption.
    - pose proof (g_w w I0) as Ww. destruct Ww as [a1 b1 c1 d1 e1 f1 g1 h1 i1 j1].
      constructor; cbn; [assumption|assumption|constructor|constructor|constructor|constructor|intros; contradiction|intros; contradiction|exact M|apply svc_list_wf; assumption].
    - intros e [].
    - intros n [].
    - intros wk key n [].
    - intros x [].
    - apply NoDup_nil.
    - intros n1 c1 n2 c2 Hh. destruct (Hnoh _ _ Hh).
    - intros m0 E0 nm c Hh. destruct (Hnoh _ _ Hh).
  Qed.

  Lemma run_bare_feed ops : forall w, bare w -> w_nfeed w = [] -> w_synced w = false -> Forall user_op ops ->
    w_nfeed (run po lab w ops) = [] /\ w_synced (run po lab w ops) = false.
  Proof.
    induction ops as [|o ops IH]; intros w B Hf Hs H; [split; assumption|]. inversion H; subst.
    unfold run. cbn [fold_left]. apply IH; [apply step_bare; assumption| | |exact H3].
    - destruct o; cbn [step user_op] in *; try contradiction;
        repeat match goal with |- context [match ?x with _ => _ end] => destruct x end; cbn; unfold push_nev, push_cev; rewrite ?Hs; cbn; try exact Hf.
    - destruct o; cbn [step user_op] in *; try contradiction;
        repeat match goal with |- context [match ?x with _ => _ end] => destruct x end; cbn; exact Hs.
  Qed.

  (* C01 over whole histories of one incarnation, node deletion included *)
  Theorem no_overlap_with_node_deletion pre s1 s2 outs dp ops :
    Forall user_op pre -> (forall s, s1 = Some s -> wf_cidr s) -> (forall s, s2 = Some s -> wf_cidr s) -> wf_dp dp -> Forall tame_op ops ->
    NoDup (flat_map created (pre ++ ops)) ->
    let w := run po lab init_world (pre ++ Construct s1 s2 outs dp :: ops) in
    forall n1 c1 n2 c2, holder w n1 c1 -> holder w n2 c2 -> n1 <> n2 -> overlapb c1 c2 = false.
  Proof.
    intros Hpre H1 H2 Hdp Hops Hnd w. apply g_disj. subst w. unfold run. rewrite fold_left_app. cbn [fold_left].
    set (w0 := fold_left (fun w o => fst (step po lab w o)) pre init_world).
    assert (Hpre_t : Forall tame_op pre) by (eapply Forall_impl; [|exact Hpre]; intros o; destruct o; cbn; tauto).
    rewrite flat_map_app in Hnd.
    assert (I0 : GInv w0).
    { apply (run_ginv pre init_world ginv_init Hpre_t); [apply NoDup_app_l in Hnd; exact Hnd|intros nm _; split; intros []]. }
    assert (B0 : bare w0) by (apply run_bare; [split; [reflexivity|intros a []]|exact Hpre]).
    destruct (run_bare_feed pre init_world ltac:(split; [reflexivity|intros a []]) eq_refl eq_refl Hpre) as [Hf0 Hs0]. fold w0 in Hf0, Hs0.
    apply run_ginv; [apply construct_ginv; assumption|exact Hops|apply NoDup_app_r in Hnd; exact Hnd|].
    (* names created after the start are fresh in the world right after construction *)
    intros nm Hin. split.
    - assert (Hn : w_nodes (fst (step po lab w0 (Construct s1 s2 outs dp))) = w_nodes w0 \/ True) by (right; exact Logic.I).
      intros Hx. cbn [step] in Hx. destruct B0 as [Hc0 _]. rewrite Hc0 in Hx.
      destruct (construct po lab (with_default dp (w_ccs w0)) outs s1 s2 (map node_view (w_nodes w0))) as [[m fx] pan]. cbn [fst] in Hx.
      destruct (apply_effects_names fx (mkWorld (w_nodes w0) (w_ccs w0) (w_rv w0) [] [] [] [] empty_q empty_q (if pan then None else Some m) false [] [] (s1, s2) (w_delseen w0))) as [A _].
      rewrite A in Hx. cbn in Hx.
      (* nm is an API name of w0, i.e. created in pre -- and created again in ops: excluded *)
      assert (Hcr : forall ops0 w1, (forall x, In x (map an_name (w_nodes w1)) -> False) -> Forall tame_op ops0 ->
                forall x, In x (map an_name (w_nodes (fold_left (fun w o => fst (step po lab w o)) ops0 w1))) -> In x (flat_map created ops0)).
      { induction ops0 as [|o1 ops1 IHo]; intros w1 Hw1 Ht x Hxx; cbn [fold_left] in Hxx; [destruct (Hw1 x Hxx)|].
        inversion Ht; subst. cbn [flat_map].
        assert (G : forall ops2 w2 acc, (forall y, In y (map an_name (w_nodes w2)) -> In y acc) -> Forall tame_op ops2 ->
                   forall y, In y (map an_name (w_nodes (fold_left (fun w o => fst (step po lab w o)) ops2 w2))) -> In y (acc ++ flat_map created ops2)).
        { clear. induction ops2 as [|o2 ops2 IH2]; intros w2 acc Hacc Ht y Hy; cbn [fold_left] in Hy; [rewrite app_nil_r; apply Hacc; exact Hy|].
          inversion Ht; subst. cbn [flat_map]. rewrite app_assoc. apply (IH2 (fst (step po lab w2 o2)) (acc ++ created o2)); [|exact H2|exact Hy].
          intros z Hz. destruct (step_names w2 o2 H1) as [A _]. destruct (A z Hz) as [Hz'|Hz']; apply in_or_app; [left; apply Hacc; exact Hz'|right; exact Hz']. }
        apply (G ops1 (fst (step po lab w1 o1)) (created o1)); [|exact H4|exact Hxx].
        intros y Hy. destruct (step_names w1 o1 H3) as [A1 _]. destruct (A1 y Hy) as [Hy'|Hy']; [destruct (Hw1 y Hy')|exact Hy']. }
      pose proof (Hcr pre init_world ltac:(intros x []) Hpre_t nm Hx) as Hinpre.
      clear - Hnd Hinpre Hin. induction (flat_map created pre) as [|c l IHl]; [destruct Hinpre|]. cbn in Hnd. inversion Hnd; subst.
      destruct Hinpre as [->|Hp]; [apply H1; apply in_or_app; right; exact Hin|exact (IHl H2 Hp)].
    - intros Hx. cbn [step] in Hx. destruct B0 as [Hc0 _]. rewrite Hc0 in Hx.
      destruct (construct po lab (with_default dp (w_ccs w0)) outs s1 s2 (map node_view (w_nodes w0))) as [[m fx] pan]. cbn [fst] in Hx.
      destruct (apply_effects_names fx (mkWorld (w_nodes w0) (w_ccs w0) (w_rv w0) [] [] [] [] empty_q empty_q (if pan then None else Some m) false [] [] (s1, s2) (w_delseen w0))) as [_ B].
      rewrite B in Hx. destruct Hx.
  Qed.
End Hist2.
