(* Serial.v -- mutual exclusion makes critical sections atomic (C15, the part a theorem can carry).
   Threads are lists of items: local work (touches no shared state) or a critical section, a list
   of updates of the shared state performed while holding one non-re-entrant lock, taken before the
   first and released after the last (the discipline C16 establishes for the allocator).
   Fine-grained semantics: any interleaving of single updates, acquisitions and releases.
   Atomic semantics: a critical section is one step (this is what Sys.v's ops are).
   Theorem: every fine-grained execution reaches, whenever the lock is free, exactly the shared
   state of the atomic execution that runs the sections in the order in which the lock was acquired. *)
From Coq Require Import List Arith Lia.
Import ListNotations.

Section Serial.
  Variable S : Type.

  Inductive item := Local | Section_ (fs : list (S -> S)).
  Definition thread := list item.

  Definition apply (fs : list (S -> S)) (s : S) : S := fold_left (fun acc f => f acc) fs s.

  Fixpoint set_nth {A} (n : nat) (x : A) (l : list A) : list A :=
    match l, n with
    | [], _ => []
    | _ :: t, O => x :: t
    | h :: t, Datatypes.S n' => h :: set_nth n' x t
    end.

  (* ---- fine-grained machine ---- *)
  Record fstate := mkF { f_sh : S; f_holder : option (nat * list (S -> S)); f_progs : list thread }.

  Definition fstep (st : fstate) (t : nat) : fstate :=
    match f_holder st with
    | Some (h, f :: rest) => if Nat.eqb h t then mkF (f (f_sh st)) (Some (h, rest)) (f_progs st) else
        (* another thread: only local work can proceed *)
        match nth_error (f_progs st) t with
        | Some (Local :: p) => mkF (f_sh st) (f_holder st) (set_nth t p (f_progs st))
        | _ => st
        end
    | Some (h, []) => if Nat.eqb h t then mkF (f_sh st) None (f_progs st) else
        match nth_error (f_progs st) t with
        | Some (Local :: p) => mkF (f_sh st) (f_holder st) (set_nth t p (f_progs st))
        | _ => st
        end
    | None =>
        match nth_error (f_progs st) t with
        | Some (Local :: p) => mkF (f_sh st) None (set_nth t p (f_progs st))
        | Some (Section_ fs :: p) => mkF (f_sh st) (Some (t, fs)) (set_nth t p (f_progs st))   (* acquire *)
        | _ => st
        end
    end.

  Definition frun (st : fstate) (sched : list nat) : fstate := fold_left fstep sched st.

  (* ---- atomic machine ---- *)
  Record astate := mkA { a_sh : S; a_progs : list thread }.

  Definition astep (st : astate) (t : nat) : astate :=
    match nth_error (a_progs st) t with
    | Some (Local :: p) => mkA (a_sh st) (set_nth t p (a_progs st))
    | Some (Section_ fs :: p) => mkA (apply fs (a_sh st)) (set_nth t p (a_progs st))
    | _ => st
    end.

  Definition arun (st : astate) (sched : list nat) : astate := fold_left astep sched st.

  (* the atomic state is the fine state with the open section (if any) run to its end *)
  Definition related (f : fstate) (a : astate) : Prop :=
    a_progs a = f_progs f /\
    a_sh a = match f_holder f with Some (_, rest) => apply rest (f_sh f) | None => f_sh f end.

  Lemma fstep_simulated f a t : related f a -> exists sched', related (fstep f t) (arun a sched').
  Proof.
    destruct f as [fsh fh fp]. destruct a as [ash ap]. unfold related. cbn [a_progs a_sh f_progs f_holder f_sh].
    intros [Hp Hs]. subst ap.
    (* what a thread other than the holder (or any thread when the lock is free and its next item is local) does *)
    assert (Hlocal : forall p, nth_error fp t = Some (Local :: p) ->
              exists sched', a_progs (arun (mkA ash fp) sched') = set_nth t p fp /\ a_sh (arun (mkA ash fp) sched') = ash).
    { intros p En. exists [t]. cbn. unfold astep. cbn [a_progs a_sh]. rewrite En. split; reflexivity. }
    unfold fstep. cbn [f_holder f_progs f_sh].
    destruct fh as [[h [|g rest]]|].
    - destruct (Nat.eqb h t).
      + exists []. cbn. split; [reflexivity|exact Hs].
      + destruct (nth_error fp t) as [[|[|fs] p]|] eqn:En; try (exists []; cbn; split; [reflexivity|exact Hs]).
        destruct (Hlocal p eq_refl) as (s' & H1 & H2). exists s'. cbn [f_progs f_holder f_sh]. rewrite H1, H2. split; [reflexivity|exact Hs].
    - destruct (Nat.eqb h t).
      + exists []. cbn. split; [reflexivity|exact Hs].
      + destruct (nth_error fp t) as [[|[|fs] p]|] eqn:En; try (exists []; cbn; split; [reflexivity|exact Hs]).
        destruct (Hlocal p eq_refl) as (s' & H1 & H2). exists s'. cbn [f_progs f_holder f_sh]. rewrite H1, H2. split; [reflexivity|exact Hs].
    - destruct (nth_error fp t) as [[|[|fs] p]|] eqn:En; try (exists []; cbn; split; [reflexivity|exact Hs]).
      + destruct (Hlocal p eq_refl) as (s' & H1 & H2). exists s'. cbn [f_progs f_holder f_sh]. rewrite H1, H2. split; [reflexivity|exact Hs].
      + exists [t]. cbn. unfold astep. cbn [a_progs a_sh]. rewrite En. cbn. split; [reflexivity|]. rewrite Hs. reflexivity.
  Qed.

  Lemma arun_app a s1 s2 : arun a (s1 ++ s2) = arun (arun a s1) s2.
  Proof. unfold arun. apply fold_left_app. Qed.

  Theorem fine_simulated sched : forall f a, related f a -> exists sched', related (frun f sched) (arun a sched').
  Proof.
    induction sched as [|t sched IH]; intros f a R; [exists []; exact R|].
    destruct (fstep_simulated f a t R) as (s1 & R1). destruct (IH _ _ R1) as (s2 & R2).
    exists (s1 ++ s2). rewrite arun_app. exact R2.
  Qed.

  (* every interleaving, observed when the lock is free, shows the shared state of some one-at-a-time
     execution of the same threads, and the same remaining programs *)
  Theorem lock_serializable s0 progs sched :
    let f := frun (mkF s0 None progs) sched in
    f_holder f = None ->
    exists sched', let a := arun (mkA s0 progs) sched' in a_sh a = f_sh f /\ a_progs a = f_progs f.
  Proof.
    intros f Hfree. destruct (fine_simulated sched (mkF s0 None progs) (mkA s0 progs)) as (s' & [Hp Hs]); [split; reflexivity|].
    exists s'. fold f in Hp, Hs. rewrite Hfree in Hs. split; assumption.
  Qed.
End Serial.
