(* Pool.v -- one MultiCIDRSet (multi_cidr_set.go): geometry, used map, counter, cursor and
   ghost copies of the exported metrics.  Definitions only; mirrors the Go control flow. *)
From NIPAM Require Export Geom.
Open Scope N_scope.

Record pool := mkPool {
  pg : geom;
  pmax : N;                    (* MaxCIDRs *)
  used : list cidr;            (* keys of AllocatedCIDRMap (keyed by the printed block) *)
  cnt : N;                     (* allocatedCIDRs *)
  cur : N;                     (* nextCandidate *)
  m_alloc : N;                 (* ghost: cidrs_allocations_total *)
  m_rel : N;                   (* ghost: cidrs_releases_total *)
  m_usage : option (N * N);    (* ghost: usage gauge as (numerator, denominator); None = never set *)
  m_max : N                    (* ghost: max_cidrs gauge *)
}.

Definition mem_cidr (c : cidr) (l : list cidr) : bool := existsb (cidr_eqb c) l.
Definition remove_cidr (c : cidr) (l : list cidr) : list cidr := filter (fun x => negb (cidr_eqb c x)) l.

Inductive newres := NewOk (p : pool) | NewErr.

(* NewMultiCIDRSet, multi_cidr_set.go:115.  hb = perNodeHostBits (any Go int).
   Rejected: IPv6 with more than 16 index bits (original code) and, since the repair of D3,
   host bits that are negative or exceed the host part of the range. *)
Definition new_pool (f : fam) (base clen : N) (hb : Z) : newres :=
  let W := Z.of_N (width f) in
  let n := (W - hb)%Z in
  if (match f with V6 => true | V4 => false end && (16 <? n - Z.of_N clen)%Z)%bool then NewErr
  else if ((hb <? 0) || (n <? Z.of_N clen))%Z%bool then NewErr
  else
    let g := mkGeom f base clen (Z.to_N n) in
    NewOk (mkPool g (gmax g) [] 0 0 0 0 None (gmax g)).

(* iterate f over indices b, b+1, ..., b+n-1 *)
Definition iter_range {S : Type} (b n : N) (f : N -> S -> S) (s : S) : S :=
  snd (N.iter n (fun st => (N.succ (fst st), f (fst st) (snd st))) (b, s)).

Definition occupy_one (i : N) (p : pool) : pool :=
  let blk := go_index_to_block (pg p) i in
  if mem_cidr blk (used p) then p
  else mkPool (pg p) (pmax p) (blk :: used p) (cnt p + 1) (cur p) (m_alloc p + 1) (m_rel p) (m_usage p) (m_max p).

Definition release_one (i : N) (p : pool) : pool :=
  let blk := go_index_to_block (pg p) i in
  if mem_cidr blk (used p) then
    mkPool (pg p) (pmax p) (remove_cidr blk (used p)) (cnt p - 1) (cur p) (m_alloc p) (m_rel p + 1) (m_usage p) (m_max p)
  else p.

Definition set_usage (p : pool) : pool :=
  mkPool (pg p) (pmax p) (used p) (cnt p) (cur p) (m_alloc p) (m_rel p) (Some (cnt p, pmax p)) (m_max p).

(* number of loop iterations of `for i := begin; i <= end; i++` (end = MaxCIDRs-1 = -1 when MaxCIDRs = 0) *)
Definition span (p : pool) (b e : N) : N := if pmax p =? 0 then 0 else N.succ e - b.

(* Occupy / Release, multi_cidr_set.go:272-325: None = error, nothing changed *)
Definition occupy (p : pool) (c : cidr) : option pool :=
  match go_begin_end (pg p) c with
  | None => None
  | Some (b, e) => Some (set_usage (iter_range b (span p b e) occupy_one p))
  end.

Definition release (p : pool) (c : cidr) : option pool :=
  match go_begin_end (pg p) c with
  | None => None
  | Some (b, e) => Some (set_usage (iter_range b (span p b e) release_one p))
  end.

(* NextCandidate, multi_cidr_set.go:197-224 *)
Inductive nextres :=
| Cand (blk : cidr) (skipped : N) (p' : pool)
| Exhausted (evaluated : N).

Definition next_step (p : pool) (st : (N * N) + nextres) : (N * N) + nextres :=
  match st with
  | inr r => inr r
  | inl (cand, i) =>
      let blk := go_index_to_block (pg p) cand in
      if mem_cidr blk (used p) then inl ((cand + 1) mod pmax p, N.succ i)
      else inr (Cand blk i (mkPool (pg p) (pmax p) (used p) (cnt p) ((cand + 1) mod pmax p)
                                   (m_alloc p) (m_rel p) (m_usage p) (m_max p)))
  end.

Definition next_candidate (p : pool) : nextres :=
  if cnt p =? pmax p then Exhausted 0
  else
    match N.iter (pmax p) (next_step p) (inl (cur p, 0)) with
    | inr r => r
    | inl _ => Exhausted (pmax p)
    end.

(* ---- operations of a pool script (what the harness drives) ---- *)
Inductive pop :=
| POcc (c : cidr)
| PRel (c : cidr)
| PNext.

Definition pstep (p : pool) (o : pop) : pool :=
  match o with
  | POcc c => match occupy p c with Some p' => p' | None => p end
  | PRel c => match release p c with Some p' => p' | None => p end
  | PNext => match next_candidate p with Cand _ _ p' => p' | Exhausted _ => p end
  end.

Definition prun (p : pool) (ops : list pop) : pool := fold_left pstep ops p.
