(* Default_proofs.v -- the default ClusterCIDR (createDefaultClusterCIDR): what the flags become, that a listed object of
   that name suppresses the addition (a restart adds no second one), and that ClusterCIDR names are unique among the API
   objects of every history, the controller's own Create included. *)
From NIPAM Require Import Sys Alloc_proofs Prio_proofs Inv_proofs Sys_proofs World_proofs Coh_proofs.
From Coq Require Import Lia.
Open Scope N_scope.

(* ---------- the object built from the flags ---------- *)
Lemma default_obj_shape dp :
  o_name (default_cc_obj dp) = default_name /\ o_selkey (default_cc_obj dp) = Some default_key /\ o_fins (default_cc_obj dp) = [] /\
  o_deleting (default_cc_obj dp) = false /\ o_rv (default_cc_obj dp) = 0 /\ o_gen (default_cc_obj dp) = 0.
Proof. unfold default_cc_obj. cbn. repeat split. Qed.

(* one IPv4 range: perNodeHostBits = 32 - mask size, but at least 4 *)
Lemma default_single_v4 c mask : cf c = V4 ->
  default_cc_obj [(c, mask)] =
  mkCCObj default_name (FOk c) FEmpty (if (4 <? 32 - mask)%Z then (32 - mask)%Z else 4%Z) (Some default_key) [] false 0 0 0.
Proof. intros H. unfold default_cc_obj, dflt_one, min_hb. cbn [length Nat.eqb fold_left]. rewrite H. cbn. reflexivity. Qed.

Lemma default_single_v6 c mask : cf c = V6 ->
  default_cc_obj [(c, mask)] =
  mkCCObj default_name FEmpty (FOk c) (if (4 <? 128 - mask)%Z then (128 - mask)%Z else 4%Z) (Some default_key) [] false 0 0 0.
Proof. intros H. unfold default_cc_obj, dflt_one, min_hb. cbn [length Nat.eqb fold_left]. rewrite H. cbn. reflexivity. Qed.

(* two ranges, one per family, in either order: both ranges, and the smaller of the two host-bit counts when it is the IPv4
   one and at least 4; else the IPv6 one when it is between 4 and 32; else 4 *)
Definition dual_hb (m4 m6 : Z) : Z :=
  if ((4 <=? 32 - m4) && (32 - m4 <=? 128 - m6))%Z%bool then (32 - m4)%Z
  else if ((4 <=? 128 - m6) && (128 - m6 <=? 32))%Z%bool then (128 - m6)%Z else 4%Z.

Lemma default_dual c4 m4 c6 m6 : cf c4 = V4 -> cf c6 = V6 ->
  default_cc_obj [(c4, m4); (c6, m6)] = mkCCObj default_name (FOk c4) (FOk c6) (dual_hb m4 m6) (Some default_key) [] false 0 0 0 /\
  default_cc_obj [(c6, m6); (c4, m4)] = mkCCObj default_name (FOk c4) (FOk c6) (dual_hb m4 m6) (Some default_key) [] false 0 0 0.
Proof.
  intros H4 H6. unfold default_cc_obj, dflt_one, dual_hb, min_hb. cbn [length Nat.eqb fold_left]. rewrite H4, H6. cbn [negb andb da_v4 da_v6 da_hb da_h4 da_h6].
  split; reflexivity.
Qed.

(* ---------- added at most once ---------- *)
Lemma with_default_listed dp ccs o : In o ccs -> o_name o = default_name -> with_default dp ccs = ccs.
Proof.
  intros Hin Hn. unfold with_default. destruct dp; [reflexivity|].
  assert (E : existsb (fun o0 => str_eqb (o_name o0) default_name) ccs = true).
  { apply existsb_exists. exists o. split; [exact Hin|]. rewrite Hn. apply str_eqb_refl. }
  rewrite E. reflexivity.
Qed.

Lemma with_default_adds dp ccs : dp <> [] -> (forall o, In o ccs -> o_name o <> default_name) ->
  with_default dp ccs = ccs ++ [default_cc_obj dp].
Proof.
  intros Hd Hn. unfold with_default. destruct dp; [contradiction|].
  assert (E : existsb (fun o0 => str_eqb (o_name o0) default_name) ccs = false).
  { apply Bool.not_true_iff_false. intros H. apply existsb_exists in H. destruct H as (o & Ho & He). apply str_eqb_eq in He. exact (Hn o Ho He). }
  rewrite E. reflexivity.
Qed.

(* a restart that finds the default ClusterCIDR (or anything of that name) listed adds nothing *)
Theorem with_default_idem dp ccs : with_default dp (with_default dp ccs) = with_default dp ccs.
Proof.
  destruct dp as [|cm dp']; [reflexivity|].
  destruct (existsb (fun o => str_eqb (o_name o) default_name) ccs) eqn:E.
  - assert (H : with_default (cm :: dp') ccs = ccs) by (unfold with_default; rewrite E; reflexivity). rewrite H. exact H.
  - assert (H : with_default (cm :: dp') ccs = ccs ++ [default_cc_obj (cm :: dp')]) by (unfold with_default; rewrite E; reflexivity).
    rewrite H. eapply (with_default_listed _ _ (default_cc_obj (cm :: dp'))); [apply in_or_app; right; left; reflexivity|apply default_obj_shape].
Qed.

(* ---------- ClusterCIDR names are unique among the API objects ---------- *)
Definition CN (w : world) : Prop := NoDup (map o_name (w_ccs w)).

Lemma find_cc_none_notin name l : find_cc name l = None -> ~ In name (map o_name l).
Proof.
  induction l as [|h t IH]; cbn; [tauto|]. destruct (str_eqb (o_name h) name) eqn:E; [discriminate|].
  intros H [Hh|Ht]; [subst; rewrite str_eqb_refl in E; discriminate|exact (IH H Ht)].
Qed.

Lemma put_cc_names a l x : find_cc (o_name a) l = Some x -> map o_name (put_cc a l) = map o_name l.
Proof.
  intros H. unfold put_cc. rewrite H. clear H x. induction l as [|h t IH]; [reflexivity|]. cbn.
  destruct (str_eqb (o_name h) (o_name a)) eqn:E; [apply str_eqb_eq in E; rewrite E|]; rewrite IH; reflexivity.
Qed.

Lemma NoDup_snoc {A} (l : list A) x : NoDup l -> ~ In x l -> NoDup (l ++ [x]).
Proof.
  induction l as [|h t IH]; intros H Hx; cbn; [constructor; [tauto|constructor]|].
  inversion H; subst. constructor.
  - intros Hin. apply in_app_or in Hin. destruct Hin as [Hin|[->|[]]]; [contradiction|apply Hx; left; reflexivity].
  - apply IH; [assumption|intros Hin; apply Hx; right; exact Hin].
Qed.

Lemma del_cc_nodup name l : NoDup (map o_name l) -> NoDup (map o_name (del_cc name l)).
Proof.
  unfold del_cc. induction l as [|h t IH]; cbn; [auto|]. intros H. inversion H; subst.
  destruct (negb (str_eqb (o_name h) name)); cbn; [|apply IH; assumption].
  constructor; [|apply IH; assumption]. intros Hin. apply H2. apply in_map_iff in Hin. destruct Hin as (x & E & Hx).
  apply filter_In in Hx. rewrite <- E. apply in_map. apply Hx.
Qed.

Lemma put_cc_nodup a l : NoDup (map o_name l) -> NoDup (map o_name (put_cc a l)).
Proof.
  intros H. destruct (find_cc (o_name a) l) as [x|] eqn:E.
  - rewrite (put_cc_names a l x E). exact H.
  - unfold put_cc. rewrite E. rewrite map_app. cbn. apply NoDup_snoc; [exact H|apply find_cc_none_notin; exact E].
Qed.

Lemma cn_same w w' : CN w -> w_ccs w' = w_ccs w -> CN w'.
Proof. unfold CN. intros H ->. exact H. Qed.

Lemma apply_patch_ccs w nm cs o : w_ccs (apply_patch w nm cs o) = w_ccs w.
Proof. unfold apply_patch. destruct o; try reflexivity; destruct (find_anode nm (w_nodes w)) as [a|]; try reflexivity; destruct (an_cidrs a); reflexivity. Qed.

Lemma apply_update_cc_cn w o out : CN w -> CN (apply_update_cc w o out).
Proof.
  intros C. unfold apply_update_cc. destruct out; try exact C;
    (destruct (find_cc (o_name o) (w_ccs w)) as [cur|] eqn:Ec; [|exact C]; destruct (negb (o_rv cur =? o_rv o)); [exact C|]);
    (match goal with |- context [if ?b then _ else _] => destruct b end; unfold CN; cbn [set_api w_ccs]; [apply del_cc_nodup|apply put_cc_nodup]; exact C).
Qed.

Lemma apply_create_cc_cn w o out : CN w -> CN (apply_create_cc w o out).
Proof.
  intros C. unfold apply_create_cc. destruct out; try exact C;
    (destruct (find_cc (o_name o) (w_ccs w)) as [cur|] eqn:Ec; [exact C|]);
    (unfold CN; cbn [set_api w_ccs]; rewrite map_app; cbn; apply NoDup_snoc; [exact C|apply find_cc_none_notin; exact Ec]).
Qed.

Lemma apply_effects_cn fx : forall w, CN w -> CN (apply_effects w fx).
Proof.
  induction fx as [|e fx IH]; intros w C; [exact C|]. destruct e as [nd cs po|? ?|? ?|o' out|o' out]; cbn [apply_effects]; try (apply IH; exact C).
  - apply IH. apply (cn_same w); [exact C|apply apply_patch_ccs].
  - apply IH. apply apply_update_cc_cn. exact C.
  - apply IH. apply apply_create_cc_cn. exact C.
Qed.

Lemma after_call_cn {A} w (r : res A) m' : CN w -> CN (after_call w r m').
Proof. intros C. unfold after_call. destruct r; apply (cn_same w); try reflexivity; exact C. Qed.

Section CNStep.
  Variable po : parse_oracle.
  Variable lab : label_oracle.

  Lemma run_node_sync_cn w cached key outs : CN w -> CN (fst (run_node_sync po lab w cached key outs)).
  Proof.
    intros C. unfold run_node_sync. destruct (w_ctl w) as [m|]; [|exact C].
    destruct (sync_node po lab (svc_list (w_svc w)) (can_patch w key) (api_same w key) (held_cidrs (w_ncache w)) m cached (find_node key (w_ncache w)) outs) as [[m' r] fx].
    cbn [fst]. apply apply_effects_cn. apply after_call_cn. exact C.
  Qed.
  Lemma run_cc_sync_cn w key cached out : CN w -> CN (fst (run_cc_sync w key cached out)).
  Proof.
    intros C. unfold run_cc_sync. destruct (w_ctl w) as [m|]; [|exact C].
    match goal with |- context [sync_cc m key cached ?o] => destruct (sync_cc m key cached o) as [[m' r] fx] end.
    cbn [fst]. apply apply_effects_cn. pose proof (after_call_cn w r m' C) as A.
    destruct cached as [o|]; [|exact A]. match goal with |- context [if ?b then _ else _] => destruct b end; [|exact A].
    apply (cn_same (after_call w r m')); try reflexivity; exact A.
  Qed.
  Lemma handle_nevent_cn w e : CN w -> CN (fst (handle_nevent w e)).
  Proof.
    intros C. unfold handle_nevent. destruct e as [n|n|n]; cbn [set_caches w_ctl w_svc].
    - destruct (w_ctl w); cbn [fst]; apply (cn_same w); try reflexivity; exact C.
    - destruct (w_ctl w); cbn [fst]; apply (cn_same w); try reflexivity; exact C.
    - destruct (w_ctl w) as [m|]; [|cbn [fst]; apply (cn_same w); try reflexivity; exact C].
      destruct (release_cidr (svc_list (w_svc w)) m n) as [m' r]. destruct r; cbn [fst]; apply (cn_same w); try reflexivity; exact C.
  Qed.
  Lemma deliver_all_n_cn es : forall w acc, CN w -> CN (fst (deliver_all_n w es acc)).
  Proof.
    induction es as [|e es IH]; intros w acc C; cbn [deliver_all_n]; [exact C|].
    pose proof (handle_nevent_cn w e C) as C1. destruct (handle_nevent w e) as [w1 ob]. cbn [fst] in *.
    destruct (ob_res ob =? 3); [exact C1|apply IH; exact C1].
  Qed.
  Lemma handle_cevent_cn w e : CN w -> CN (fst (handle_cevent w e)).
  Proof.
    intros C. unfold handle_cevent. destruct e; cbn [set_caches w_ctl w_ncache w_ccache w_nfeed w_cfeed]; destruct (w_ctl w); cbn [fst]; apply (cn_same w); try reflexivity; exact C.
  Qed.
  Lemma deliver_all_c_cn es : forall w, CN w -> CN (deliver_all_c w es).
  Proof.
    induction es as [|e es IH]; intros w C; cbn [deliver_all_c]; [exact C|]. apply IH. apply handle_cevent_cn. exact C.
  Qed.

  (* in every step of every history *)
  Theorem step_cn w o : CN w -> CN (fst (step po lab w o)).
  Proof.
    intros C. destruct o; cbn [step] in *.
    - destruct (find_anode name (w_nodes w)); [exact C|]. apply (cn_same w); [exact C|reflexivity].
    - destruct (find_anode name (w_nodes w)); [|exact C]. apply (cn_same w); [exact C|reflexivity].
    - destruct (find_anode name (w_nodes w)); [|exact C]. apply (cn_same w); [exact C|reflexivity].
    - destruct (find_anode name (w_nodes w)); [|exact C]. apply (cn_same w); [exact C|reflexivity].
    - (* UCreateCC *)
      destruct (find_cc (o_name o) (w_ccs w)) eqn:Ec; [exact C|]. cbn [fst]. unfold CN. cbn [set_api w_ccs]. rewrite map_app. cbn.
      apply NoDup_snoc; [exact C|apply find_cc_none_notin; exact Ec].
    - (* UDeleteCC *)
      destruct (find_cc name (w_ccs w)) as [c|] eqn:Ec; [|exact C].
      destruct (o_fins c); [cbn [fst]; unfold CN; cbn [set_api w_ccs]; apply del_cc_nodup; exact C|].
      destruct (o_deleting c); [exact C|]. cbn [fst]. unfold CN. cbn [set_api w_ccs]. apply put_cc_nodup. exact C.
    - (* USetCCFinalizers *)
      destruct (find_cc name (w_ccs w)) as [c|] eqn:Ec; [|exact C].
      match goal with |- context [if ?b then _ else _] => destruct b end; cbn [fst]; unfold CN; cbn [set_api w_ccs]; [apply del_cc_nodup|apply put_cc_nodup]; exact C.
    - destruct (w_nfeed w) as [|e rest]; [exact C|]. apply handle_nevent_cn. apply (cn_same w); try reflexivity; exact C.
    - destruct (w_nfeed w) as [|[n|n|n] rest]; try exact C. apply handle_nevent_cn. apply (cn_same w); try reflexivity; exact C.
    - destruct (w_cfeed w) as [|e rest]; [exact C|]. apply handle_cevent_cn. apply (cn_same w); try reflexivity; exact C.
    - destruct (w_ctl w); [|exact C]. apply (cn_same w); try reflexivity; exact C.
    - destruct (w_ctl w); [|exact C]. apply (cn_same w); try reflexivity; exact C.
    - destruct (w_synced w); [|exact C]. apply deliver_all_n_cn. apply (cn_same w); try reflexivity; exact C.
    - destruct (w_synced w); [|exact C]. cbn [fst]. apply deliver_all_c_cn. apply (cn_same w); try reflexivity; exact C.
    - apply (cn_same w); try reflexivity; exact C.
    - destruct (find (fun x => fst x =? w0) (w_nfetch w)) as [[wk [key cached]]|]; [|exact C].
      apply run_node_sync_cn. apply (cn_same w); try reflexivity; exact C.
    - apply (cn_same w); try reflexivity; exact C.
    - destruct (find (fun x => fst x =? w0) (w_cfetch w)) as [[wk [key cached]]|]; [|exact C].
      apply run_cc_sync_cn. apply (cn_same w); try reflexivity; exact C.
    - destruct (w_ctl w) as [m|] eqn:Em; [|exact C]. destruct (q_ready (w_nq w)) as [|key rest]; [exact C|].
      match goal with |- context [run_node_sync po lab ?w1 ?c ?k ?o] =>
        assert (C2 : CN (fst (run_node_sync po lab w1 c k o)));
          [|destruct (run_node_sync po lab w1 c k o) as [w2 ob2]] end.
      { apply run_node_sync_cn. apply (cn_same w); try reflexivity; exact C. }
      cbn [fst] in C2. destruct (ob_res ob2 =? 2); cbn [fst]; [apply (cn_same w2); try reflexivity; exact C2|exact C2].
    - destruct (w_ctl w) as [m|] eqn:Em; [|exact C]. destruct (q_ready (w_cq w)) as [|key rest]; [exact C|].
      match goal with |- context [run_cc_sync ?w1 ?k ?c ?o] =>
        assert (C2 : CN (fst (run_cc_sync w1 k c o)));
          [|destruct (run_cc_sync w1 k c o) as [w2 ob2]] end.
      { apply run_cc_sync_cn. apply (cn_same w); try reflexivity; exact C. }
      cbn [fst] in C2. destruct (ob_res ob2 =? 2); cbn [fst]; [apply (cn_same w2); try reflexivity; exact C2|exact C2].
    - apply (cn_same w); try reflexivity; exact C.
    - apply (cn_same w); try reflexivity; exact C.
    - destruct (w_ctl w); [exact C|].
      destruct (construct po lab (with_default dp (w_ccs w)) outs svc1 svc2 (map node_view (w_nodes w))) as [[m fx] pan]. cbn [fst].
      apply apply_effects_cn. apply (cn_same w); try reflexivity; exact C.
    - destruct (w_ctl w); [|exact C]. destruct (w_synced w); [exact C|]. cbn [fst]. apply (cn_same w); try reflexivity; exact C.
  Qed.

  Theorem run_cn ops : forall w, CN w -> CN (run po lab w ops).
  Proof.
    induction ops as [|o ops IH]; intros w C; [exact C|]. unfold run. cbn [fold_left]. apply IH. apply step_cn. exact C.
  Qed.

  Corollary clustercidr_names_unique_in_every_history ops : NoDup (map o_name (w_ccs (run po lab init_world ops))).
  Proof. apply run_cn. unfold CN. cbn. constructor. Qed.
End CNStep.
