(* Lbl.v -- the part of k8s.io/apimachinery/pkg/labels (v0.28.3, selector.go) that the controller's map key goes through:
   NewRequirement's validation, Requirement.String / internalSelector.String (printing), the Lexer, the Parser, labels.Parse;
   and the controller's nodeSelectorKey built from them.  Definitions only (proofs: Lbl_proofs.v).
   Strings are byte lists ([Str.v]); the lexer is written over the remaining input, the parser over the remaining tokens.
   What is library behaviour here is tied to the real library on every run by the correspondence check of C17 (mode "lbl":
   arbitrary strings through labels.Parse, selectors through nodeSelectorKey). *)
From NIPAM Require Export Sel.
Open Scope N_scope.

(* ------------------------------------------------------------------ character classes *)
Definition is_ws (c : N) : bool := (c =? 32) || (c =? 9) || (c =? 13) || (c =? 10).
(* '=' '!' '(' ')' ',' '>' '<' *)
Definition is_special (c : N) : bool := (c =? 61) || (c =? 33) || (c =? 40) || (c =? 41) || (c =? 44) || (c =? 62) || (c =? 60).
Definition is_upper (c : N) : bool := (65 <=? c) && (c <=? 90).
Definition is_lower (c : N) : bool := (97 <=? c) && (c <=? 122).
Definition is_digit (c : N) : bool := (48 <=? c) && (c <=? 57).
Definition is_alnum (c : N) : bool := is_upper c || is_lower c || is_digit c.
Definition is_namech (c : N) : bool := is_alnum c || (c =? 45) || (c =? 95) || (c =? 46).      (* - _ . *)
Definition is_dnsch (c : N) : bool := is_lower c || is_digit c || (c =? 45).                    (* a-z 0-9 - *)
Definition is_nil {A} (l : list A) : bool := match l with [] => true | _ => false end.
Definition is_some {A} (o : option A) : bool := match o with Some _ => true | None => false end.

(* ------------------------------------------------------------------ validation (util/validation) *)
(* strings.Split(s, string(d)): at least one part *)
Fixpoint split_on (d : N) (s : str) : list str :=
  match s with
  | [] => [[]]
  | c :: r => if c =? d then [] :: split_on d r
              else match split_on d r with p :: ps => (c :: p) :: ps | [] => [[c]] end
  end.

(* qualifiedNameFmt: an alphanumeric, or alphanumerics around any number of alphanumerics, '-', '_', '.' *)
Definition name_re (s : str) : bool :=
  match s with [] => false | c :: _ => is_alnum c && is_alnum (last s 0) && forallb is_namech s end.
(* dns1123LabelFmt: lower-case alphanumerics around any number of lower-case alphanumerics and '-' *)
Definition dns_label_re (s : str) : bool :=
  match s with [] => false | c :: _ => (is_lower c || is_digit c) && (is_lower (last s 0) || is_digit (last s 0)) && forallb is_dnsch s end.
(* IsDNS1123Subdomain *)
Definition dns_subdomain (s : str) : bool := (N.of_nat (length s) <=? 253) && forallb dns_label_re (split_on 46 s).
(* IsQualifiedName (validateLabelKey) *)
Definition valid_key (k : str) : bool :=
  match split_on 47 k with
  | [name] => (N.of_nat (length name) <=? 63) && name_re name
  | [prefix; name] => negb (is_nil prefix) && dns_subdomain prefix && (N.of_nat (length name) <=? 63) && name_re name
  | _ => false
  end.
(* IsValidLabelValue (validateLabelValue) *)
Definition valid_value (v : str) : bool := (N.of_nat (length v) <=? 63) && (is_nil v || name_re v).

(* labels.NewRequirement accepts (key, op, values) -- for the six operators a NodeSelector can carry *)
Definition new_req_ok (r : req) : bool :=
  valid_key (rkey r) && forallb valid_value (rvals r) &&
  match rop r with
  | OpIn | OpNotIn => negb (is_nil (rvals r))
  | OpExists | OpDoesNotExist => is_nil (rvals r)
  | OpGt | OpLt => match rvals r with [v] => is_some (parse_int64 v) | _ => false end
  end.

(* ------------------------------------------------------------------ printing *)
Fixpoint join (sep : str) (l : list str) : str :=
  match l with
  | [] => []
  | x :: r => match r with [] => x | _ => x ++ sep ++ join sep r end
  end.

(* sort.Strings: any sorting algorithm gives this list (equal strings are indistinguishable) *)
Fixpoint insert_str (x : str) (l : list str) : list str :=
  match l with
  | [] => [x]
  | y :: r => if str_ltb y x then y :: insert_str x r else x :: y :: r
  end.
Definition sort_strs (l : list str) : list str := fold_right insert_str [] l.

Definition kw_in : str := [105; 110].
Definition kw_notin : str := [110; 111; 116; 105; 110].

(* Requirement.String *)
Definition vals_string (vs : list str) : str := match vs with [v] => v | _ => join [44] (sort_strs vs) end.
Definition req_string (r : req) : str :=
  match rop r with
  | OpExists => rkey r
  | OpDoesNotExist => 33 :: rkey r
  | OpIn => rkey r ++ 32 :: kw_in ++ 32 :: 40 :: vals_string (rvals r) ++ [41]
  | OpNotIn => rkey r ++ 32 :: kw_notin ++ 32 :: 40 :: vals_string (rvals r) ++ [41]
  | OpGt => rkey r ++ 62 :: vals_string (rvals r)
  | OpLt => rkey r ++ 60 :: vals_string (rvals r)
  end.

(* internalSelector.Add sorts by key (sort.Sort(ByKey)): the stable order is what Go's insertion sort gives for up to 12
   requirements; the theorems hold for any permutation *)
Fixpoint insert_req (x : req) (l : list req) : list req :=
  match l with
  | [] => [x]
  | y :: r => if str_ltb (rkey y) (rkey x) then y :: insert_req x r else x :: y :: r
  end.
Definition sort_reqs (l : list req) : list req := fold_right insert_req [] l.

(* internalSelector.String on requirements already in the selector's order *)
Definition sel_string_of (rs : list req) : str := join [44] (map req_string rs).
Definition sel_string (rs : list req) : str := sel_string_of (sort_reqs rs).

(* ------------------------------------------------------------------ the lexer *)
Inductive tok := TEnd | TClosed | TComma | TBang | TDEq | TEq | TGt | TId (s : str) | TIn | TLt | TNe | TNotIn | TOpen.

(* string2token on an identifier buffer *)
Definition idtok (b : str) : tok := if str_eqb b kw_in then TIn else if str_eqb b kw_notin then TNotIn else TId b.
(* string2token on one special symbol *)
Definition symtok (c : N) : tok :=
  if c =? 41 then TClosed else if c =? 44 then TComma else if c =? 33 then TBang else if c =? 61 then TEq
  else if c =? 62 then TGt else if c =? 60 then TLt else TOpen.
Definition flush (cur : option str) : list tok := match cur with Some b => [idtok b] | None => [] end.

(* Parser.scan: every token up to and including EndOfStringToken.  [cur] is the identifier being scanned (scanIDOrKeyword's
   buffer).  The byte 0 is what Lexer.read returns at the end of the input, so a NUL byte in the input ends an identifier or
   an operator (and is consumed), and ends the whole scan where a token would start. *)
Fixpoint lex (cur : option str) (s : str) : list tok :=
  match s with
  | [] => flush cur ++ [TEnd]
  | c :: r =>
    if c =? 0 then match cur with Some b => idtok b :: lex None r | None => [TEnd] end
    else if is_ws c then flush cur ++ lex None r
    else if is_special c then
      flush cur ++
      match r with
      | d :: r' =>
          if (d =? 61) && ((c =? 33) || (c =? 61)) then
            (if c =? 33 then TNe else TDEq) ::
            match r' with
            | e :: r'' => if e =? 0 then lex None r'' else lex None r'
            | [] => lex None r'
            end
          else if d =? 0 then symtok c :: lex None r'
          else symtok c :: lex None r
      | [] => symtok c :: lex None r
      end
    else lex (Some (match cur with Some b => b ++ [c] | None => [c] end)) r
  end.

(* ------------------------------------------------------------------ the parser *)
Inductive pop := PIn | PNotIn | PEq | PDEq | PNe | PExists | PDNE | PGt | PLt.
Record preq := mkPReq { pkey : str; pop_ : pop; pvals : list str }.

(* lookahead / consume in the context Values: 'in' and 'notin' are identifiers *)
Definition as_val (t : tok) : tok := match t with TIn => TId kw_in | TNotIn => TId kw_notin | _ => t end.
Definition hdv (ts : list tok) : tok := match ts with t :: _ => as_val t | [] => TEnd end.

(* sets.String.List(): sorted, without duplicates *)
Fixpoint dedup_sorted (l : list str) : list str :=
  match l with
  | [] => []
  | x :: r => match r with y :: _ => if str_eqb x y then dedup_sorted r else x :: dedup_sorted r | [] => [x] end
  end.
Definition norm_set (l : list str) : list str := dedup_sorted (sort_strs l).

(* parseIdentifiersList; [s] is the set built so far (as a list) *)
Fixpoint parse_idlist (s : list str) (ts : list tok) : option (list str * list tok) :=
  match ts with
  | [] => None
  | t :: r =>
    match as_val t with
    | TId lit =>
        match hdv r with
        | TComma => parse_idlist (lit :: s) r
        | TClosed => Some (lit :: s, r)
        | _ => None
        end
    | TComma =>
        let s1 := match s with [] => [[]] | _ => s end in
        match hdv r with
        | TClosed => Some ([] :: s1, r)
        | TComma => match r with _ :: r' => parse_idlist ([] :: s1) r' | [] => None end
        | _ => parse_idlist s1 r
        end
    | _ => None
    end
  end.

(* parseValues *)
Definition parse_values (ts : list tok) : option (list str * list tok) :=
  match ts with
  | [] => None
  | t :: r =>
    match as_val t with
    | TOpen =>
        match hdv r with
        | TId _ | TComma =>
            match parse_idlist [] r with
            | Some (s, t2 :: r3) => match as_val t2 with TClosed => Some (s, r3) | _ => None end
            | _ => None
            end
        | TClosed => match r with _ :: r2 => Some ([[]], r2) | [] => None end
        | _ => None
        end
    | _ => None
    end
  end.

(* parseExactValue *)
Definition parse_exact (ts : list tok) : option (list str * list tok) :=
  match hdv ts with
  | TEnd | TComma => Some ([[]], ts)
  | _ => match ts with
         | t :: r => match as_val t with TId lit => Some ([lit], r) | _ => None end
         | [] => None
         end
  end.

(* NewRequirement as the parser calls it (all nine operators) *)
Definition new_preq_ok (key : str) (op : pop) (vals : list str) : bool :=
  valid_key key && forallb valid_value vals &&
  match op with
  | PIn | PNotIn => negb (is_nil vals)
  | PEq | PDEq | PNe => match vals with [_] => true | _ => false end
  | PExists | PDNE => is_nil vals
  | PGt | PLt => match vals with [v] => is_some (parse_int64 v) | _ => false end
  end.

(* parseOperator (context KeyAndOperator: the raw token) *)
Definition op_of_tok (t : tok) : option pop :=
  match t with
  | TIn => Some PIn | TEq => Some PEq | TDEq => Some PDEq | TGt => Some PGt | TLt => Some PLt
  | TNotIn => Some PNotIn | TNe => Some PNe
  | _ => None
  end.

(* parseRequirement *)
Definition parse_req (ts : list tok) : option (preq * list tok) :=
  match ts with
  | [] => None
  | t0 :: r0 =>
    let '(dne, t, r) := match as_val t0 with
                        | TBang => (true, hdv r0, tl r0)
                        | t => (false, t, r0)
                        end in
    match t with
    | TId key =>
        if negb (valid_key key) then None
        else if dne then Some (mkPReq key PDNE [], r)
        else match hdv r with
             | TEnd | TComma => Some (mkPReq key PExists [], r)
             | _ =>
                 match r with
                 | [] => None
                 | t1 :: r1 =>
                     match op_of_tok t1 with
                     | None => None
                     | Some op =>
                         match (match op with PIn | PNotIn => parse_values r1 | _ => parse_exact r1 end) with
                         | None => None
                         | Some (s, r2) =>
                             let vals := norm_set s in
                             if new_preq_ok key op vals then Some (mkPReq key op vals, r2) else None
                         end
                     end
                 end
             end
    | _ => None
    end
  end.

(* Parser.parse; every round consumes at least two tokens, [fuel] bounds the rounds *)
Fixpoint parse_loop (fuel : nat) (ts : list tok) (acc : list preq) : option (list preq) :=
  match fuel with
  | O => None
  | S f =>
    match hdv ts with
    | TId _ | TBang =>
        match parse_req ts with
        | None => None
        | Some (r, ts1) =>
            match ts1 with
            | [] => None
            | t :: ts2 =>
                match as_val t with
                | TEnd => Some (rev (r :: acc))
                | TComma => match hdv ts2 with
                            | TId _ | TBang => parse_loop f ts2 (r :: acc)
                            | _ => None
                            end
                | _ => None
                end
            end
        end
    | TEnd => Some (rev acc)
    | _ => None
    end
  end.

Fixpoint insert_preq (x : preq) (l : list preq) : list preq :=
  match l with
  | [] => [x]
  | y :: r => if str_ltb (pkey y) (pkey x) then y :: insert_preq x r else x :: y :: r
  end.
Definition sort_preqs (l : list preq) : list preq := fold_right insert_preq [] l.

Definition parse_toks (ts : list tok) : option (list preq) := parse_loop (S (length ts)) ts [].
(* labels.Parse: None = error *)
Definition parse (s : str) : option (list preq) :=
  match parse_toks (lex None s) with Some ps => Some (sort_preqs ps) | None => None end.

(* the requirement as matchCIDRLabels evaluates it: '=' and '==' match like In, '!=' like NotIn (Requirement.Matches) *)
Definition to_req (p : preq) : req :=
  mkReq (pkey p)
        (match pop_ p with
         | PIn | PEq | PDEq => OpIn | PNotIn | PNe => OpNotIn | PExists => OpExists | PDNE => OpDoesNotExist
         | PGt => OpGt | PLt => OpLt end)
        (pvals p).
Definition sel_parse (s : str) : option (list req) := option_map (map to_req) (parse s).

(* ------------------------------------------------------------------ the controller's map key *)
(* nodeSelectorKey on the requirements of the (or the default) selector: conversion (NewRequirement per requirement),
   printing, and -- since b13dc0f -- one parse of the printed form *)
Definition selector_key (rs : list req) : option str :=
  if forallb new_req_ok rs then
    let k := sel_string rs in
    match parse k with Some _ => Some k | None => None end
  else None.

(* matchCIDRLabels on a map key *)
Definition match_key (ls : labels) (k : str) : option (bool * N) :=
  match sel_parse k with Some rs => Some (match_reqs ls rs) | None => None end.

(* the shape D23 is about: In / NotIn over an odd number (three or more) of values that are all the empty string *)
Definition bad_req (r : req) : bool :=
  match rop r with
  | OpIn | OpNotIn => forallb is_nil (rvals r) && (3 <=? length (rvals r))%nat && Nat.odd (length (rvals r))
  | _ => false
  end.
