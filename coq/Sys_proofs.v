(* Sys_proofs.v -- theorems over single steps and whole histories of the closed loop. *)
From NIPAM Require Import Sys Alloc_proofs Prio_proofs.
From Coq Require Import Lia.
Open Scope N_scope.

Lemma create_no_patch m o t b out m' r fx : create_cluster_cidr m o t b out = (m', r, fx) -> forall e, In e fx -> is_patch e = false.
Proof.
  intros H e He. pose proof (create_writes_only_own_finalizer _ _ _ _ _ _ _ _ H e He) as Hs. destruct e; try reflexivity; destruct Hs.
Qed.

Lemma sync_cc_no_patch m key cached out m' r fx : sync_cc m key cached out = (m', r, fx) -> forall e, In e fx -> is_patch e = false.
Proof.
  unfold sync_cc. intros H e He. destruct cached as [o|]; [|inversion H; subst; destruct He].
  destruct (o_deleting o).
  - pose proof (delete_writes_only_own_finalizer _ _ _ _ _ _ H e He) as Hs. destruct e; try reflexivity; destruct Hs.
  - unfold reconcile_create in H. destruct (need_finalizer o || negb (is_mapped_obj m o))%bool.
    + eapply create_no_patch; eassumption.
    + inversion H; subst. destruct He.
Qed.

Lemma bootstrap_no_patch os : forall m outs m' fx, bootstrap_ccs m os outs = (m', fx) -> forall e, In e fx -> is_patch e = false.
Proof.
  induction os as [|o os IH]; intros m outs m' fx H e He; cbn in H; [inversion H; subst; destruct He|].
  destruct (reconcile_bootstrap m o (match outs with x :: _ => x | [] => UOk end)) as [[m1 r1] fx1] eqn:E1.
  destruct (bootstrap_ccs m1 os (tl outs)) as [m2 fx2] eqn:E2. inversion H; subst.
  apply in_app_or in He. destruct He as [He|He]; [eapply create_no_patch; eassumption|eapply IH; eassumption].
Qed.

(* the Create of the default ClusterCIDR touches the ClusterCIDR objects, the resource version and the ClusterCIDR feed only *)
Lemma apply_create_cc_frame w o out :
  w_nodes (apply_create_cc w o out) = w_nodes w /\ w_ncache (apply_create_cc w o out) = w_ncache w /\
  w_ccache (apply_create_cc w o out) = w_ccache w /\ w_ctl (apply_create_cc w o out) = w_ctl w /\
  w_nq (apply_create_cc w o out) = w_nq w /\ w_cq (apply_create_cc w o out) = w_cq w /\
  w_nfeed (apply_create_cc w o out) = w_nfeed w /\ w_synced (apply_create_cc w o out) = w_synced w /\
  w_nfetch (apply_create_cc w o out) = w_nfetch w /\ w_cfetch (apply_create_cc w o out) = w_cfetch w /\
  w_svc (apply_create_cc w o out) = w_svc w /\ w_delseen (apply_create_cc w o out) = w_delseen w.
Proof. unfold apply_create_cc. destruct out; try (repeat split; reflexivity); destruct (find_cc (o_name o) (w_ccs w)); repeat split; reflexivity. Qed.

Section World.
  Variable po : parse_oracle.
  Variable lab : label_oracle.

  (* the node sync that a step runs, if any: (object read by syncNode, key) *)
  Definition cached_cidr_of (w : world) : list cidr := held_cidrs (w_ncache w).

  Lemma run_node_sync_patches w cached key outs w' ob :
    run_node_sync po lab w cached key outs = (w', ob) ->
    forall nm cs o, In (FxPatch nm cs o) (ob_fx ob) ->
      all_unheld (cached_cidr_of w) cs /\
      (exists n, find_node key (w_ncache w) = Some n /\ n_cidrs n = []) /\
      (exists node, cached = Some node /\ nm = n_name node).
  Proof.
    unfold run_node_sync. intros H nm cs o He.
    destruct (w_ctl w) as [m|]; [|inversion H; subst; destruct He].
    destruct (sync_node po lab (svc_list (w_svc w)) (can_patch w key) (api_same w key) (held_cidrs (w_ncache w)) m cached (find_node key (w_ncache w)) outs)
      as [[m' r] fx] eqn:Es.
    inversion H; subst. cbn [ob_fx] in He.
    destruct (sync_node_patches _ _ _ _ _ _ _ _ _ _ _ _ _ Es _ _ _ He) as ((node & Hc & Hn & _) & Hre & Hun).
    split; [exact Hun|]. split; [exact Hre|]. exists node. split; assumption.
  Qed.

  Lemma run_cc_sync_no_patch w key cached out w' ob :
    run_cc_sync w key cached out = (w', ob) -> forall e, In e (ob_fx ob) -> is_patch e = false.
  Proof.
    unfold run_cc_sync. intros H e He. destruct (w_ctl w) as [m|]; [|inversion H; subst; destruct He].
    match type of H with context [sync_cc m key cached ?o] => destruct (sync_cc m key cached o) as [[m' r] fx] eqn:Es end.
    inversion H; subst. cbn [ob_fx] in He. eapply sync_cc_no_patch; eassumption.
  Qed.

  (* informer notifications are handled without any API write *)
  Lemma handle_nevent_fx w e : ob_fx (snd (handle_nevent w e)) = [].
  Proof.
    unfold handle_nevent. destruct e as [n|n|n]; cbn [snd ob_fx]; try reflexivity.
    match goal with |- context [w_ctl ?x] => destruct (w_ctl x) as [m|] end; [|reflexivity].
    destruct (release_cidr (svc_list (w_svc w)) m n) as [m' r]. destruct r; reflexivity.
  Qed.

  Lemma deliver_all_n_fx es : forall w acc, ob_fx (snd (deliver_all_n w es acc)) = [].
  Proof.
    induction es as [|e es IH]; intros w acc; cbn [deliver_all_n]; [reflexivity|].
    destruct (handle_nevent w e) as [w1 ob]. destruct (ob_res ob =? 3); [reflexivity|apply IH].
  Qed.

  Lemma relist_nodes_fx w w' ob :
    (if w_synced w then deliver_all_n (set_caches w (w_ncache w) (w_ccache w) [] (w_cfeed w)) (relist_nevents w) 0 else (w, no_obs)) = (w', ob) ->
    ob_fx ob = [].
  Proof.
    intros H. destruct (w_synced w); [|inversion H; reflexivity].
    pose proof (deliver_all_n_fx (relist_nevents w) (set_caches w (w_ncache w) (w_ccache w) [] (w_cfeed w)) 0) as Hf.
    rewrite H in Hf. exact Hf.
  Qed.

  (* C01, the part about nodes the feed has shown: in every step of every history, every PATCH carries
     CIDRs none of which overlaps a pod CIDR of any node in the node cache at that instant; and the
     PATCH goes to a node that the cache shows without pod CIDRs *)
  Theorem step_patch_avoids_cached_nodes w o w' ob :
    step po lab w o = (w', ob) ->
    forall nm cs out, In (FxPatch nm cs out) (ob_fx ob) ->
      forall c nd c' canon, In c cs -> In nd (w_ncache w) -> In (PGood c' canon) (n_cidrs nd) -> overlapb c c' = false.
  Proof.
    intros H nm cs out He c nd c' canon Hc Hnd Hc'.
    assert (Hgoal : all_unheld (cached_cidr_of w) cs -> overlapb c c' = false).
    { intros Hun. unfold all_unheld in Hun. rewrite Forall_forall in Hun. specialize (Hun c Hc).
      apply (in_use_by_node_false _ _ Hun). unfold cached_cidr_of, held_cidrs.
      apply in_flat_map. exists nd. split; [exact Hnd|]. apply in_flat_map. exists (PGood c' canon). split; [exact Hc'|left; reflexivity]. }
    destruct o; cbn [step] in H;
      try (repeat match type of H with
                  | context [match ?x with _ => _ end] => destruct x
                  end; inversion H; subst; destruct He; fail).
    - (* DeliverNode *)
      destruct (w_nfeed w) as [|e rest]; [inversion H; subst; destruct He|].
      unfold handle_nevent in H. destruct e;
        repeat match type of H with
               | context [match ?x with _ => _ end] => destruct x
               | context [let '(_, _) := ?x in _] => destruct x
               end; inversion H; subst; destruct He.
    - (* DeliverNodeTombstone *)
      destruct (w_nfeed w) as [|[n|n|n] rest]; try (inversion H; subst; destruct He; fail).
      unfold handle_nevent in H.
      repeat match type of H with
             | context [match ?x with _ => _ end] => destruct x
             | context [let '(_, _) := ?x in _] => destruct x
             end; inversion H; subst; destruct He.
    - (* DeliverCC *)
      destruct (w_cfeed w) as [|e rest]; [inversion H; subst; destruct He|].
      unfold handle_cevent in H. destruct e;
        repeat match type of H with
               | context [match ?x with _ => _ end] => destruct x
               end; inversion H; subst; destruct He.
    - (* RelistNodes *)
      rewrite (relist_nodes_fx _ _ _ H) in He. destruct He.
    - (* RunNode *)
      destruct (find (fun x => fst x =? w0) (w_nfetch w)) as [[wk [key cached]]|]; [|inversion H; subst; destruct He].
      apply Hgoal.
      match type of H with run_node_sync _ _ ?w1 _ _ _ = _ =>
        destruct (run_node_sync_patches w1 _ _ _ _ _ H _ _ _ He) as (Hun & _) end. exact Hun.
    - (* RunCC *)
      destruct (find (fun x => fst x =? w0) (w_cfetch w)) as [[wk [key cached]]|]; [|inversion H; subst; destruct He].
      pose proof (run_cc_sync_no_patch _ _ _ _ _ _ H _ He) as Hp. discriminate Hp.
    - (* ProcNode *)
      destruct (w_ctl w) as [m|]; [|inversion H; subst; destruct He].
      destruct (q_ready (w_nq w)) as [|key rest]; [inversion H; subst; destruct He|].
      match type of H with context [run_node_sync po lab ?w1 ?c ?k ?o] =>
        destruct (run_node_sync po lab w1 c k o) as [w2 ob2] eqn:Er end.
      assert (He2 : In (FxPatch nm cs out) (ob_fx ob2)).
      { destruct (ob_res ob2 =? 2); inversion H; subst; exact He. }
      apply Hgoal. destruct (run_node_sync_patches _ _ _ _ _ _ Er _ _ _ He2) as (Hun & _). exact Hun.
    - (* ProcCC *)
      destruct (w_ctl w) as [m|]; [|inversion H; subst; destruct He].
      destruct (q_ready (w_cq w)) as [|key rest]; [inversion H; subst; destruct He|].
      match type of H with context [run_cc_sync ?w1 ?k ?c ?o] =>
        destruct (run_cc_sync w1 k c o) as [w2 ob2] eqn:Er end.
      assert (He2 : In (FxPatch nm cs out) (ob_fx ob2)).
      { destruct (ob_res ob2 =? 2); inversion H; subst; exact He. }
      pose proof (run_cc_sync_no_patch _ _ _ _ _ _ Er _ He2) as Hp. discriminate Hp.
    - (* Construct *)
      destruct (w_ctl w) as [m|]; [inversion H; subst; destruct He|].
      unfold construct in H.
      destruct (bootstrap_ccs [] (with_default dp (w_ccs w)) outs) as [m1 fx] eqn:Eb.
      match type of H with context [occupy_nodes po lab ?m3 ?ns] => destruct (occupy_nodes po lab m3 ns) as [m4 pan] end.
      inversion H; subst. cbn [ob_fx] in He.
      pose proof (bootstrap_no_patch _ _ _ _ _ Eb _ He) as Hp. discriminate Hp.
  Qed.

  (* every element of a trace is one step from a reachable world *)
  Inductive reachable (w0 : world) : world -> Prop :=
  | reach_init : reachable w0 w0
  | reach_step w o : reachable w0 w -> reachable w0 (fst (step po lab w o)).

  Lemma trace_steps ops : forall w0 w o ob w',
    reachable w0 w -> In (o, ob, w') (trace po lab w ops) ->
    exists wb, reachable w0 wb /\ step po lab wb o = (w', ob).
  Proof.
    induction ops as [|o1 ops IH]; intros w0 w o ob w' Hr Hin; cbn in Hin; [destruct Hin|].
    destruct (step po lab w o1) as [w1 ob1] eqn:Es. destruct Hin as [Hin|Hin].
    - inversion Hin; subst. exists w. split; [exact Hr|exact Es].
    - apply (IH w0 w1); [|exact Hin]. replace w1 with (fst (step po lab w o1)) by (rewrite Es; reflexivity). apply reach_step. exact Hr.
  Qed.

  (* C01 over whole histories, from any starting world *)
  Theorem history_patches_avoid_cached_nodes w0 ops o ob w' :
    In (o, ob, w') (trace po lab w0 ops) ->
    exists wb, reachable w0 wb /\ step po lab wb o = (w', ob) /\
      forall nm cs out, In (FxPatch nm cs out) (ob_fx ob) ->
        forall c nd c' canon, In c cs -> In nd (w_ncache wb) -> In (PGood c' canon) (n_cidrs nd) -> overlapb c c' = false.
  Proof.
    intros Hin. destruct (trace_steps ops w0 w0 o ob w' (reach_init w0) Hin) as (wb & Hr & Hs).
    exists wb. split; [exact Hr|]. split; [exact Hs|]. intros nm cs out He. eapply step_patch_avoids_cached_nodes; eassumption.
  Qed.

  (* ---- C08: a PATCH goes only to a node that the cache shows, at that very instant, without pod CIDRs ---- *)
  Lemma find_node_name key l n : find_node key l = Some n -> n_name n = key.
  Proof.
    induction l as [|x l IH]; cbn; [discriminate|]. destruct (str_eqb (n_name x) key) eqn:E.
    - intros H. inversion H; subst. apply str_eqb_eq. exact E.
    - exact IH.
  Qed.

  (* what a worker fetched under a key is an object of that name *)
  Definition fetch_ok (w : world) : Prop :=
    forall wk key n, In (wk, (key, Some n)) (w_nfetch w) -> n_name n = key.

  Lemma fetch_ok_init : fetch_ok init_world.
  Proof. intros wk key n []. Qed.

  Theorem step_patch_only_unassigned w o w' ob :
    fetch_ok w -> step po lab w o = (w', ob) ->
    forall nm cs out, In (FxPatch nm cs out) (ob_fx ob) ->
      exists n, find_node nm (w_ncache w) = Some n /\ n_cidrs n = [].
  Proof.
    intros Hf H nm cs out He.
    destruct o; cbn [step] in H;
      try (repeat match type of H with
                  | context [match ?x with _ => _ end] => destruct x
                  end; inversion H; subst; destruct He; fail).
    - destruct (w_nfeed w) as [|e rest]; [inversion H; subst; destruct He|].
      unfold handle_nevent in H. destruct e;
        repeat match type of H with
               | context [match ?x with _ => _ end] => destruct x
               | context [let '(_, _) := ?x in _] => destruct x
               end; inversion H; subst; destruct He.
    - destruct (w_nfeed w) as [|[n|n|n] rest]; try (inversion H; subst; destruct He; fail).
      unfold handle_nevent in H.
      repeat match type of H with
             | context [match ?x with _ => _ end] => destruct x
             | context [let '(_, _) := ?x in _] => destruct x
             end; inversion H; subst; destruct He.
    - destruct (w_cfeed w) as [|e rest]; [inversion H; subst; destruct He|].
      unfold handle_cevent in H. destruct e;
        repeat match type of H with
               | context [match ?x with _ => _ end] => destruct x
               end; inversion H; subst; destruct He.
    - (* RelistNodes *)
      rewrite (relist_nodes_fx _ _ _ H) in He. destruct He.
    - (* RunNode *)
      destruct (find (fun x => fst x =? w0) (w_nfetch w)) as [[wk [key cached]]|] eqn:Ef; [|inversion H; subst; destruct He].
      match type of H with run_node_sync _ _ ?w1 _ _ _ = _ =>
        destruct (run_node_sync_patches w1 _ _ _ _ _ H _ _ _ He) as (_ & (n & Hn & Hc) & (node & Hcd & Hnm)) end.
      cbn [set_fetch w_ncache] in Hn. subst cached.
      apply find_some in Ef. destruct Ef as [Ein _]. specialize (Hf _ _ _ Ein). subst nm. rewrite Hf.
      exists n. split; assumption.
    - destruct (find (fun x => fst x =? w0) (w_cfetch w)) as [[wk [key cached]]|]; [|inversion H; subst; destruct He].
      pose proof (run_cc_sync_no_patch _ _ _ _ _ _ H _ He) as Hp. discriminate Hp.
    - (* ProcNode *)
      destruct (w_ctl w) as [m|]; [|inversion H; subst; destruct He].
      destruct (q_ready (w_nq w)) as [|key rest]; [inversion H; subst; destruct He|].
      match type of H with context [run_node_sync po lab ?w1 ?c ?k ?o] =>
        destruct (run_node_sync po lab w1 c k o) as [w2 ob2] eqn:Er end.
      assert (He2 : In (FxPatch nm cs out) (ob_fx ob2)).
      { destruct (ob_res ob2 =? 2); inversion H; subst; exact He. }
      destruct (run_node_sync_patches _ _ _ _ _ _ Er _ _ _ He2) as (_ & (n & Hn & Hc) & (node & Hcd & Hnm)).
      cbn [set_queues w_ncache] in Hn, Hcd. apply find_node_name in Hcd. subst nm. rewrite Hcd.
      exists n. split; assumption.
    - destruct (w_ctl w) as [m|]; [|inversion H; subst; destruct He].
      destruct (q_ready (w_cq w)) as [|key rest]; [inversion H; subst; destruct He|].
      match type of H with context [run_cc_sync ?w1 ?k ?c ?o] =>
        destruct (run_cc_sync w1 k c o) as [w2 ob2] eqn:Er end.
      assert (He2 : In (FxPatch nm cs out) (ob_fx ob2)).
      { destruct (ob_res ob2 =? 2); inversion H; subst; exact He. }
      pose proof (run_cc_sync_no_patch _ _ _ _ _ _ Er _ He2) as Hp. discriminate Hp.
    - destruct (w_ctl w) as [m|]; [inversion H; subst; destruct He|].
      unfold construct in H.
      destruct (bootstrap_ccs [] (with_default dp (w_ccs w)) outs) as [m1 fx] eqn:Eb.
      match type of H with context [occupy_nodes po lab ?m3 ?ns] => destruct (occupy_nodes po lab m3 ns) as [m4 pan] end.
      inversion H; subst. cbn [ob_fx] in He.
      pose proof (bootstrap_no_patch _ _ _ _ _ Eb _ He) as Hp. discriminate Hp.
  Qed.

  (* fetch_ok is an invariant of every history *)
  Lemma apply_patch_nfetch w n cs o : w_nfetch (apply_patch w n cs o) = w_nfetch w.
  Proof. unfold apply_patch. destruct o; try reflexivity; destruct (find_anode n (w_nodes w)) as [a|]; try reflexivity; destruct (an_cidrs a); reflexivity. Qed.
  Lemma apply_update_cc_nfetch w o out : w_nfetch (apply_update_cc w o out) = w_nfetch w.
  Proof.
    unfold apply_update_cc. destruct out; try reflexivity; destruct (find_cc (o_name o) (w_ccs w)) as [c|]; try reflexivity;
      destruct (negb (o_rv c =? o_rv o)); try reflexivity;
      match goal with |- context [if ?b then _ else _] => destruct b end; reflexivity.
  Qed.
  Lemma apply_create_cc_nfetch w o out : w_nfetch (apply_create_cc w o out) = w_nfetch w.
  Proof. unfold apply_create_cc. destruct out; try reflexivity; destruct (find_cc (o_name o) (w_ccs w)); reflexivity. Qed.
  Lemma apply_effects_nfetch fx : forall w, w_nfetch (apply_effects w fx) = w_nfetch w.
  Proof.
    induction fx as [|e fx IH]; intros w; [reflexivity|]. destruct e; cbn [apply_effects]; rewrite IH;
      [apply apply_patch_nfetch|reflexivity|reflexivity|apply apply_update_cc_nfetch|apply apply_create_cc_nfetch].
  Qed.

  Definition fetch_sub (w w' : world) : Prop := forall x, In x (w_nfetch w') -> In x (w_nfetch w).

  Lemma after_call_nfetch {A} w (r : res A) m' : fetch_sub w (after_call w r m').
  Proof. intros x. unfold after_call. destruct r; cbn; tauto. Qed.

  Lemma run_node_sync_fetch w cached key outs : fetch_sub w (fst (run_node_sync po lab w cached key outs)).
  Proof.
    unfold run_node_sync. destruct (w_ctl w) as [m|]; [|intros x H; exact H].
    destruct (sync_node _ _ _ _ _ _ _ _ _) as [[m' r] fx]. cbn [fst]. intros x. rewrite apply_effects_nfetch. apply after_call_nfetch.
  Qed.

  Lemma run_cc_sync_fetch w key cached out : fetch_sub w (fst (run_cc_sync w key cached out)).
  Proof.
    unfold run_cc_sync. destruct (w_ctl w) as [m|]; [|intros x H; exact H].
    match goal with |- context [sync_cc m key cached ?o] => destruct (sync_cc m key cached o) as [[m' r] fx] end.
    cbn [fst]. intros x. rewrite apply_effects_nfetch.
    destruct cached as [o|]; [destruct (o_deleting o && negb (has_str (o_name o) (w_delseen (after_call w r m'))))%bool|]; cbn; apply after_call_nfetch.
  Qed.

  Lemma handle_nevent_fetch w e : fetch_sub w (fst (handle_nevent w e)).
  Proof.
    unfold handle_nevent. destruct e as [n|n|n].
    - cbn. destruct (w_ctl w); cbn; intros x H; exact H.
    - cbn. destruct (w_ctl w); cbn; intros x H; exact H.
    - cbn [set_caches w_ctl]. destruct (w_ctl w) as [m|]; [|intros x H; exact H].
      destruct (release_cidr (svc_list (w_svc w)) m n) as [m' r]. destruct r; cbn; intros x H; try exact H; destruct H.
  Qed.

  Lemma handle_cevent_fetch w e : fetch_sub w (fst (handle_cevent w e)).
  Proof. unfold handle_cevent. destruct e; cbn; destruct (w_ctl w); cbn; intros x H; exact H. Qed.

  Lemma deliver_all_n_fetch es : forall w acc, fetch_sub w (fst (deliver_all_n w es acc)).
  Proof.
    induction es as [|e es IH]; intros w acc; cbn [deliver_all_n]; [intros x H; exact H|].
    pose proof (handle_nevent_fetch w e) as He. destruct (handle_nevent w e) as [w1 ob]. cbn [fst] in He.
    destruct (ob_res ob =? 3); [exact He|]. intros x Hx. apply He. eapply IH. exact Hx.
  Qed.

  Lemma deliver_all_c_fetch es : forall w, fetch_sub w (deliver_all_c w es).
  Proof.
    induction es as [|e es IH]; intros w; cbn [deliver_all_c]; [intros x H; exact H|].
    intros x Hx. apply (handle_cevent_fetch w e). eapply IH. exact Hx.
  Qed.

  Lemma step_fetch_ok w o : fetch_ok w -> fetch_ok (fst (step po lab w o)).
  Proof.
    intros Hf.
    assert (Hsub : forall w', fetch_sub w w' -> fetch_ok w').
    { intros w' Hs wk key n Hin. apply (Hf wk key n). apply Hs. exact Hin. }
    destruct o; cbn [step].
    all: try (apply Hsub; intros x Hx; revert Hx;
              repeat match goal with
                     | |- context [match ?x with _ => _ end] => destruct x
                     end; cbn; tauto).
    - (* DeliverNode *)
      destruct (w_nfeed w) as [|e rest]; [exact Hf|]. apply Hsub. intros x Hx. apply handle_nevent_fetch in Hx. exact Hx.
    - destruct (w_nfeed w) as [|[n|n|n] rest]; try exact Hf. apply Hsub. intros x Hx. apply handle_nevent_fetch in Hx. exact Hx.
    - destruct (w_cfeed w) as [|e rest]; [exact Hf|]. apply Hsub. unfold handle_cevent. destruct e; cbn; destruct (w_ctl w); cbn; intros x H; exact H.
    - (* RelistNodes *)
      destruct (w_synced w); [|exact Hf]. apply Hsub. intros x Hx. apply deliver_all_n_fetch in Hx. exact Hx.
    - (* RelistCCs *)
      destruct (w_synced w); [|exact Hf]. apply Hsub. intros x Hx. cbn [fst] in Hx. apply deliver_all_c_fetch in Hx. exact Hx.
    - (* FetchNode *)
      cbn. intros wk key0 n [Hin|Hin].
      + inversion Hin; subst. eapply find_node_name. eassumption.
      + apply filter_In in Hin. destruct Hin as [Hin _]. eapply Hf. exact Hin.
    - (* RunNode *)
      destruct (find (fun x => fst x =? w0) (w_nfetch w)) as [[wk [key cached]]|]; [|exact Hf].
      apply Hsub. intros x Hx. apply run_node_sync_fetch in Hx. cbn in Hx. apply filter_In in Hx. apply Hx.
    - (* RunCC *)
      destruct (find (fun x => fst x =? w0) (w_cfetch w)) as [[wk [key cached]]|]; [|exact Hf].
      apply Hsub. intros x Hx. apply run_cc_sync_fetch in Hx. exact Hx.
    - (* ProcNode *)
      destruct (w_ctl w) as [m|]; [|exact Hf]. destruct (q_ready (w_nq w)) as [|key rest]; [exact Hf|].
      match goal with |- context [run_node_sync po lab ?w1 ?c ?k ?o] =>
        pose proof (run_node_sync_fetch w1 c k o) as Hs; destruct (run_node_sync po lab w1 c k o) as [w2 ob2] end.
      apply Hsub. intros x Hx. apply Hs. destruct (ob_res ob2 =? 2); exact Hx.
    - (* ProcCC *)
      destruct (w_ctl w) as [m|]; [|exact Hf]. destruct (q_ready (w_cq w)) as [|key rest]; [exact Hf|].
      match goal with |- context [run_cc_sync ?w1 ?k ?c ?o] =>
        pose proof (run_cc_sync_fetch w1 k c o) as Hs; destruct (run_cc_sync w1 k c o) as [w2 ob2] end.
      apply Hsub. intros x Hx. apply Hs. destruct (ob_res ob2 =? 2); exact Hx.
    - (* Construct *)
      destruct (w_ctl w) as [m|]; [exact Hf|].
      destruct (construct po lab (with_default dp (w_ccs w)) outs svc1 svc2 (map node_view (w_nodes w))) as [[m fx] pan].
      cbn [fst]. intros wk key n Hin. rewrite apply_effects_nfetch in Hin. destruct Hin.
  Qed.

  Lemma reachable_fetch_ok w : reachable init_world w -> fetch_ok w.
  Proof. induction 1; [apply fetch_ok_init|apply step_fetch_ok; assumption]. Qed.

  (* C08 over whole histories from the initial world *)
  Theorem history_patch_only_unassigned ops o ob w' :
    In (o, ob, w') (trace po lab init_world ops) ->
    exists wb, reachable init_world wb /\ step po lab wb o = (w', ob) /\
      forall nm cs out, In (FxPatch nm cs out) (ob_fx ob) ->
        exists n, find_node nm (w_ncache wb) = Some n /\ n_cidrs n = [].
  Proof.
    intros Hin. destruct (trace_steps ops init_world init_world o ob w' (reach_init _) Hin) as (wb & Hr & Hs).
    exists wb. split; [exact Hr|]. split; [exact Hs|]. intros nm cs out He.
    eapply step_patch_only_unassigned; [apply reachable_fetch_ok; exact Hr|exact Hs|exact He].
  Qed.

  (* ---- C20 (model side): work items never write the informer caches ---- *)
  Definition same_caches (w w' : world) : Prop :=
    (w_ncache w' = w_ncache w /\ w_ccache w' = w_ccache w) \/ (w_ctl w' = None /\ w_ncache w' = [] /\ w_ccache w' = []).

  Lemma apply_patch_caches w n cs o : w_ncache (apply_patch w n cs o) = w_ncache w /\ w_ccache (apply_patch w n cs o) = w_ccache w /\ w_ctl (apply_patch w n cs o) = w_ctl w.
  Proof. unfold apply_patch. destruct o; try (repeat split; reflexivity); destruct (find_anode n (w_nodes w)) as [a|]; try (repeat split; reflexivity); destruct (an_cidrs a); repeat split; reflexivity. Qed.
  Lemma apply_update_cc_caches w o out : w_ncache (apply_update_cc w o out) = w_ncache w /\ w_ccache (apply_update_cc w o out) = w_ccache w /\ w_ctl (apply_update_cc w o out) = w_ctl w.
  Proof.
    unfold apply_update_cc. destruct out; try (repeat split; reflexivity); destruct (find_cc (o_name o) (w_ccs w)) as [c|]; try (repeat split; reflexivity);
      destruct (negb (o_rv c =? o_rv o)); try (repeat split; reflexivity);
      match goal with |- context [if ?b then _ else _] => destruct b end; repeat split; reflexivity.
  Qed.
  Lemma apply_effects_caches fx : forall w, w_ncache (apply_effects w fx) = w_ncache w /\ w_ccache (apply_effects w fx) = w_ccache w /\ w_ctl (apply_effects w fx) = w_ctl w.
  Proof.
    induction fx as [|e fx IH]; intros w; [repeat split; reflexivity|]. destruct e as [nd cs o|r ob|nd ok|o' outcome|o' outcome]; cbn [apply_effects].
    - destruct (IH (apply_patch w nd cs o)) as (A & B & C). destruct (apply_patch_caches w nd cs o) as (A' & B' & C'). repeat split; congruence.
    - apply IH.
    - apply IH.
    - destruct (IH (apply_update_cc w o' outcome)) as (A & B & C). destruct (apply_update_cc_caches w o' outcome) as (A' & B' & C'). repeat split; congruence.
    - destruct (IH (apply_create_cc w o' outcome)) as (A & B & C). destruct (apply_create_cc_frame w o' outcome) as (_ & A' & B' & C' & _). repeat split; congruence.
  Qed.

  Lemma after_call_caches {A} w (r : res A) m' : same_caches w (after_call w r m').
  Proof. unfold after_call, same_caches. destruct r; cbn; tauto. Qed.

  Lemma same_caches_effects w w1 fx : same_caches w w1 -> same_caches w (apply_effects w1 fx).
  Proof.
    destruct (apply_effects_caches fx w1) as (A & B & C). unfold same_caches. rewrite A, B, C. tauto.
  Qed.

  Theorem node_work_item_keeps_caches w cached key outs : same_caches w (fst (run_node_sync po lab w cached key outs)).
  Proof.
    unfold run_node_sync. destruct (w_ctl w) as [m|]; [|left; split; reflexivity].
    destruct (sync_node _ _ _ _ _ _ _ _ _) as [[m' r] fx]. cbn [fst]. apply same_caches_effects. apply after_call_caches.
  Qed.

  Theorem cc_work_item_keeps_caches w key cached out : same_caches w (fst (run_cc_sync w key cached out)).
  Proof.
    unfold run_cc_sync. destruct (w_ctl w) as [m|]; [|left; split; reflexivity].
    match goal with |- context [sync_cc m key cached ?o] => destruct (sync_cc m key cached o) as [[m' r] fx] end.
    cbn [fst]. apply same_caches_effects.
    pose proof (after_call_caches w r m') as H.
    destruct cached as [o|]; [destruct (o_deleting o && negb (has_str (o_name o) (w_delseen (after_call w r m'))))%bool|]; cbn; exact H.
  Qed.

  (* ---- C11: a work item that failed is queued again ---- *)
  Lemma apply_effects_queues fx : forall w, w_nq (apply_effects w fx) = w_nq w /\ w_cq (apply_effects w fx) = w_cq w.
  Proof.
    induction fx as [|e fx IH]; intros w; [split; reflexivity|]. destruct e as [nd cs o|r ob|nd ok|o' outcome|o' outcome]; cbn [apply_effects]; [|apply IH|apply IH| |].
    - destruct (IH (apply_patch w nd cs o)) as (A & B). rewrite A, B. unfold apply_patch.
      destruct o; try (split; reflexivity); destruct (find_anode nd (w_nodes w)) as [a|]; try (split; reflexivity); destruct (an_cidrs a); split; reflexivity.
    - destruct (IH (apply_update_cc w o' outcome)) as (A & B). rewrite A, B. unfold apply_update_cc.
      destruct outcome; try (split; reflexivity); destruct (find_cc (o_name o') (w_ccs w)) as [c|]; try (split; reflexivity);
        destruct (negb (o_rv c =? o_rv o')); try (split; reflexivity);
        match goal with |- context [if ?b then _ else _] => destruct b end; split; reflexivity.
    - destruct (IH (apply_create_cc w o' outcome)) as (A & B). rewrite A, B.
      destruct (apply_create_cc_frame w o' outcome) as (_ & _ & _ & _ & Q1 & Q2 & _). split; assumption.
  Qed.

  Lemma q_add_retry_in k q : In k (q_retry (q_add_retry k q)).
  Proof.
    unfold q_add_retry. destruct (has_str k (q_retry q)) eqn:E; cbn.
    - unfold has_str in E. apply existsb_exists in E. destruct E as (x & Hx & He). apply str_eqb_eq in He. subst. exact Hx.
    - apply in_or_app. right. left. reflexivity.
  Qed.

  Theorem failed_node_item_requeued w outs w' ob key rest :
    w_ctl w <> None -> q_ready (w_nq w) = key :: rest ->
    step po lab w (ProcNode outs) = (w', ob) -> ob_res ob = 2 ->
    In key (q_retry (w_nq w')) /\ ob_requeued ob = true.
  Proof.
    intros Hc Hq H Hr. cbn [step] in H. destruct (w_ctl w) as [m|]; [|congruence]. rewrite Hq in H.
    match type of H with context [run_node_sync po lab ?w1 ?c ?k ?o] => destruct (run_node_sync po lab w1 c k o) as [w2 ob2] end.
    destruct (ob_res ob2 =? 2) eqn:E.
    - inversion H; subst. cbn. split; [apply q_add_retry_in|reflexivity].
    - inversion H; subst. apply N.eqb_neq in E. congruence.
  Qed.

  Theorem failed_cc_item_requeued w out w' ob key rest :
    w_ctl w <> None -> q_ready (w_cq w) = key :: rest ->
    step po lab w (ProcCC out) = (w', ob) -> ob_res ob = 2 ->
    In key (q_retry (w_cq w')) /\ ob_requeued ob = true.
  Proof.
    intros Hc Hq H Hr. cbn [step] in H. destruct (w_ctl w) as [m|]; [|congruence]. rewrite Hq in H.
    match type of H with context [run_cc_sync ?w1 ?k ?c ?o] => destruct (run_cc_sync w1 k c o) as [w2 ob2] end.
    destruct (ob_res ob2 =? 2) eqn:E.
    - inversion H; subst. cbn. split; [apply q_add_retry_in|reflexivity].
    - inversion H; subst. apply N.eqb_neq in E. congruence.
  Qed.

  (* C03: the state a new incarnation starts from is a function of the API objects (and the configured
     service ranges and the outcomes of its own start-up writes) only: nothing of the previous
     incarnation's memory, caches, queues or fetched items enters *)
  Theorem construct_from_api_only w w2 s1 s2 outs dp :
    w_ctl w = None -> w_ctl w2 = None -> w_nodes w = w_nodes w2 -> w_ccs w = w_ccs w2 -> w_rv w = w_rv w2 ->
    w_delseen w = w_delseen w2 ->
    step po lab w (Construct s1 s2 outs dp) = step po lab w2 (Construct s1 s2 outs dp).
  Proof.
    intros H1 H2 Hn Hc Hr Hd. cbn [step]. rewrite H1, H2, Hn, Hc, Hr, Hd. reflexivity.
  Qed.

  (* a crash forgets everything but the API objects *)
  Theorem crash_keeps_api w : 
    let w' := fst (step po lab w Crash) in
    w_nodes w' = w_nodes w /\ w_ccs w' = w_ccs w /\ w_ctl w' = None /\ w_ncache w' = [] /\ w_ccache w' = [] /\
    w_nq w' = empty_q /\ w_cq w' = empty_q /\ w_nfetch w' = [] /\ w_cfetch w' = [].
  Proof. cbn. repeat split. Qed.
End World.
