(* SvcCheck.v -- the wiring the C09 history theorem and the model's ghost flag cc_start rest on, as facts extracted from
   the Go source by /verif/translator (gen/Facts_svc.v) and checked here.  The facts are about call-graph reachability and
   about the ORDER of primitive operations in the code of the constructor and of ReleaseCIDR with all callees inlined, so they
   do not depend on how that code is cut into helper functions:
   - an entry is mapped "at bootstrap" (createClusterCIDR with bootstrap = true, or with a non-constant flag) only on call
     paths that start in the constructor: no entry point of the running controller reaches such a call;
   - in the constructor, every such mapping precedes the first marking of a service range (occupyServiceCIDR), every marking
     precedes the occupation of the listed nodes (occupyCIDRs), and the ranges that are marked are recorded in the field
     serviceCIDRs (one store before each marking): every entry the model flags cc_start has been filtered, as [construct]
     says, and [svc_list (w_svc w)] is what the field holds;
   - the field serviceCIDRs is written on no path from an entry point;
   - blocks are taken out of use only through multiCIDRRangeAllocator.Release, and every call of it is reached only through
     the functions in which the model has a release (ReleaseCIDR: release_all; prioritizedCIDRs: prioritized_try;
     updateCIDRsAllocation: release_in);
   - ReleaseCIDR marks the service ranges again after releasing and before it drops the association. *)
From Coq Require Import String List Arith Bool Lia.
Import ListNotations.
Open Scope string_scope.
Open Scope nat_scope.

Record svc_facts := {
  sf_boot_roots : list string;            (* roots (entry points, constructor) that reach a bootstrap mapping *)
  sf_release_escape : list string;        (* callers of allocator.Release reachable without passing through the three release sites *)
  sf_pool_release_escape : list string;   (* callers of MultiCIDRSet.Release reachable without passing through allocator.Release *)
  sf_svc_field_escape : list string;      (* writers of serviceCIDRs reachable from an entry point *)
  sf_ctor_trace : list string;            (* boot | bootdyn | append | mark | occupy, in source order, callees inlined *)
  sf_release_trace : list string          (* release | mark | assocdel *)
}.

Fixpoint slist_eqb (a b : list string) : bool :=
  match a, b with
  | [], [] => true
  | x :: a', y :: b' => String.eqb x y && slist_eqb a' b'
  | _, _ => false
  end.
Definition smem (x : string) (l : list string) : bool := existsb (String.eqb x) l.
Definition is_nil (l : list string) : bool := match l with [] => true | _ => false end.

Fixpoint first_idx (x : string) (l : list string) (i : nat) : option nat :=
  match l with
  | [] => None
  | y :: l' => if String.eqb x y then Some i else first_idx x l' (S i)
  end.
Fixpoint last_idx (x : string) (l : list string) (i : nat) : option nat :=
  match l with
  | [] => None
  | y :: l' => match last_idx x l' (S i) with
               | Some j => Some j
               | None => if String.eqb x y then Some i else None
               end
  end.
Definition lt_opt (a b : option nat) : bool := match a, b with Some x, Some y => x <? y | _, _ => false end.

(* every marking is preceded by its own store to the field: at every prefix #append >= #mark, and equal at the end *)
Fixpoint recorded (l : list string) (pending : nat) : bool :=
  match l with
  | [] => pending =? 0
  | e :: l' => if String.eqb e "append" then recorded l' (S pending)
               else if String.eqb e "mark" then match pending with O => false | S p => recorded l' p end
               else recorded l' pending
  end.

Definition svc_wiring_ok (s : svc_facts) : bool :=
  slist_eqb (sf_boot_roots s) ["NewMultiCIDRRangeAllocator"] &&
  is_nil (sf_release_escape s) && is_nil (sf_pool_release_escape s) && is_nil (sf_svc_field_escape s) &&
  negb (smem "bootdyn" (sf_ctor_trace s)) &&
  lt_opt (last_idx "boot" (sf_ctor_trace s) 0) (first_idx "mark" (sf_ctor_trace s) 0) &&
  lt_opt (last_idx "mark" (sf_ctor_trace s) 0) (first_idx "occupy" (sf_ctor_trace s) 0) &&
  recorded (sf_ctor_trace s) 0 &&
  lt_opt (last_idx "release" (sf_release_trace s) 0) (first_idx "mark" (sf_release_trace s) 0) &&
  lt_opt (first_idx "mark" (sf_release_trace s) 0) (last_idx "assocdel" (sf_release_trace s) 0).

Lemma slist_eqb_eq a b : slist_eqb a b = true -> a = b.
Proof.
  revert b. induction a as [|x a IH]; intros [|y b]; cbn; try discriminate; [reflexivity|].
  intros H. apply andb_true_iff in H. destruct H as [H1 H2]. apply String.eqb_eq in H1. subst. f_equal. apply IH. exact H2.
Qed.

Lemma first_idx_spec x l : forall i j, first_idx x l i = Some j -> i <= j /\ nth_error l (j - i) = Some x /\ forall k, k < j - i -> nth_error l k <> Some x.
Proof.
  induction l as [|y l IH]; intros i j H; cbn in H; [discriminate|]. destruct (String.eqb x y) eqn:E.
  - inversion H; subst. apply String.eqb_eq in E. subst. rewrite Nat.sub_diag. split; [apply le_n|split; [reflexivity|intros k Hk; inversion Hk]].
  - destruct (IH (S i) j H) as (A & B & C). assert (Hji : j - i = S (j - S i)) by lia.
    split; [lia|]. rewrite Hji. split; [exact B|].
    intros [|k] Hk; cbn; [intros F; inversion F; subst; rewrite String.eqb_refl in E; discriminate|apply C; lia].
Qed.

Lemma last_idx_spec x l : forall i j, last_idx x l i = Some j -> i <= j /\ nth_error l (j - i) = Some x /\ forall k, j - i < k -> nth_error l k <> Some x.
Proof.
  induction l as [|y l IH]; intros i j H; cbn in H; [discriminate|]. destruct (last_idx x l (S i)) as [j'|] eqn:El.
  - inversion H; subst j'. destruct (IH (S i) j El) as (A & B & C).
    assert (Hji : j - i = S (j - S i)) by lia.
    split; [lia|]. rewrite Hji. split; [exact B|].
    intros [|k] Hk; [inversion Hk|]. cbn. apply C. lia.
  - destruct (String.eqb x y) eqn:E; [|discriminate]. inversion H; subst. apply String.eqb_eq in E. subst. rewrite Nat.sub_diag.
    split; [apply le_n|split; [reflexivity|]]. intros [|k] Hk; [inversion Hk|]. cbn.
    (* nothing later: last_idx found none *)
    match type of El with last_idx _ _ ?n = None => remember n as n0 eqn:Hn0; clear Hn0 end.
    clear - El. revert k n0 El. induction l as [|z l IHl]; intros k n El; [destruct k; discriminate|].
    cbn in El. destruct (last_idx y l (S n)) eqn:E2; [discriminate|]. destruct (String.eqb y z) eqn:E3; [discriminate|].
    destruct k; cbn; [intros F; inversion F; subst; rewrite String.eqb_refl in E3; discriminate|eapply IHl; exact E2].
Qed.

(* what the order checks mean: every occurrence of a precedes every occurrence of b, and both occur *)
Definition all_before (a b : string) (l : list string) : Prop :=
  (exists i, nth_error l i = Some a) /\ (exists j, nth_error l j = Some b) /\
  forall i j, nth_error l i = Some a -> nth_error l j = Some b -> i < j.

Lemma lt_opt_all_before a b l : lt_opt (last_idx a l 0) (first_idx b l 0) = true -> all_before a b l.
Proof.
  unfold lt_opt. destruct (last_idx a l 0) as [x|] eqn:Ea; [|discriminate]. destruct (first_idx b l 0) as [y|] eqn:Eb; [|discriminate].
  intros H. apply Nat.ltb_lt in H. destruct (last_idx_spec _ _ _ _ Ea) as (_ & A1 & A2). destruct (first_idx_spec _ _ _ _ Eb) as (_ & B1 & B2).
  rewrite Nat.sub_0_r in *. split; [exists x; exact A1|]. split; [exists y; exact B1|].
  intros i j Hi Hj. destruct (Nat.lt_ge_cases x i) as [Hxi|Hxi]; [exfalso; exact (A2 i Hxi Hi)|].
  destruct (Nat.lt_ge_cases j y) as [Hjy|Hjy]; [exfalso; exact (B2 j Hjy Hj)|].
  lia.
Qed.

Theorem svc_wiring_ok_spec s : svc_wiring_ok s = true ->
  sf_boot_roots s = ["NewMultiCIDRRangeAllocator"] /\ sf_release_escape s = [] /\ sf_pool_release_escape s = [] /\ sf_svc_field_escape s = [] /\
  ~ In "bootdyn" (sf_ctor_trace s) /\
  all_before "boot" "mark" (sf_ctor_trace s) /\ all_before "mark" "occupy" (sf_ctor_trace s) /\ recorded (sf_ctor_trace s) 0 = true /\
  all_before "release" "mark" (sf_release_trace s) /\
  (exists i j, nth_error (sf_release_trace s) i = Some "mark" /\ nth_error (sf_release_trace s) j = Some "assocdel" /\ i < j).
Proof.
  unfold svc_wiring_ok. intros H. repeat (apply andb_true_iff in H; destruct H as [H ?]).
  assert (Hnil : forall l, is_nil l = true -> l = []) by (intros [|x l] E; [reflexivity|discriminate E]).
  split; [apply slist_eqb_eq; assumption|]. split; [apply Hnil; assumption|]. split; [apply Hnil; assumption|]. split; [apply Hnil; assumption|].
  split.
  { intros Hin. match goal with Hn : negb (smem "bootdyn" _) = true |- _ => apply negb_true_iff in Hn; unfold smem in Hn;
      assert (Hex : existsb (String.eqb "bootdyn") (sf_ctor_trace s) = true) by (apply existsb_exists; exists "bootdyn"; split; [exact Hin|apply String.eqb_refl]);
      rewrite Hn in Hex; discriminate Hex end. }
  split; [apply lt_opt_all_before; assumption|]. split; [apply lt_opt_all_before; assumption|]. split; [assumption|].
  split; [apply lt_opt_all_before; assumption|].
  match goal with Hl : lt_opt (first_idx "mark" (sf_release_trace s) 0) (last_idx "assocdel" (sf_release_trace s) 0) = true |- _ =>
    unfold lt_opt in Hl; destruct (first_idx "mark" (sf_release_trace s) 0) as [x|] eqn:Ea; [|discriminate Hl];
    destruct (last_idx "assocdel" (sf_release_trace s) 0) as [y|] eqn:Eb; [|discriminate Hl]; apply Nat.ltb_lt in Hl;
    destruct (first_idx_spec _ _ _ _ Ea) as (_ & A1 & _); destruct (last_idx_spec _ _ _ _ Eb) as (_ & B1 & _); rewrite Nat.sub_0_r in *;
    exists x, y; split; [exact A1|split; [exact B1|exact Hl]] end.
Qed.
