(* SvcCheck.v -- the wiring the C09 history theorem and the model's ghost flag cc_start rest on, as facts extracted from
   the Go source by /verif/translator (gen/Facts_svc.v) and checked here:
   - an entry is mapped "at bootstrap" (createClusterCIDR with bootstrap = true) only by reconcileBootstrap, which only the
     constructor calls, and the constructor filters the service ranges out after the last such call and before it occupies
     the listed nodes: every entry the model flags cc_start has been filtered, as [construct] says;
   - the field serviceCIDRs is written by the constructor only, once per filtered range: it is [svc_list (w_svc w)];
   - blocks are taken out of use only through multiCIDRRangeAllocator.Release, which is called from the functions in which
     the model has a release (ReleaseCIDR: release_all; prioritizedCIDRs: prioritized_try; updateCIDRsAllocation:
     release_in) and from nowhere else;
   - ReleaseCIDR occupies the service ranges again after releasing and before it drops the association. *)
From Coq Require Import String List Arith Bool.
Import ListNotations.
Open Scope string_scope.
Open Scope nat_scope.

Record svc_facts := {
  sf_boot_true_callers : list string;
  sf_boot_nonconst_callers : list string;
  sf_bootstrap_callers : list string;
  sf_svc_field_writers : list string;
  sf_release_callers : list string;
  sf_pool_release_callers : list string;
  sf_ctor_last_bootstrap : nat; sf_ctor_first_filter : nat; sf_ctor_last_filter : nat; sf_ctor_first_occupy : nat;
  sf_ctor_filters : nat; sf_ctor_appends : nat;
  sf_rel_release : nat; sf_rel_remark : nat; sf_rel_assoc_delete : nat
}.

Fixpoint slist_eqb (a b : list string) : bool :=
  match a, b with
  | [], [] => true
  | x :: a', y :: b' => String.eqb x y && slist_eqb a' b'
  | _, _ => false
  end.
Definition smem (x : string) (l : list string) : bool := existsb (String.eqb x) l.

Definition release_sites : list string := ["ReleaseCIDR"; "prioritizedCIDRs"; "updateCIDRsAllocation"; "updateCIDRsAllocation$1"].

Definition svc_wiring_ok (s : svc_facts) : bool :=
  slist_eqb (sf_boot_true_callers s) ["reconcileBootstrap"] &&
  slist_eqb (sf_boot_nonconst_callers s) [] &&
  slist_eqb (sf_bootstrap_callers s) ["NewMultiCIDRRangeAllocator"] &&
  slist_eqb (sf_svc_field_writers s) ["NewMultiCIDRRangeAllocator"] &&
  forallb (fun c => smem c release_sites) (sf_release_callers s) &&
  slist_eqb (sf_pool_release_callers s) ["Release"] &&
  (0 <? sf_ctor_last_bootstrap s) && (sf_ctor_last_bootstrap s <? sf_ctor_first_filter s) &&
  (sf_ctor_first_filter s <=? sf_ctor_last_filter s) && (sf_ctor_last_filter s <? sf_ctor_first_occupy s) &&
  (sf_ctor_filters s =? sf_ctor_appends s) &&
  (0 <? sf_rel_release s) && (sf_rel_release s <? sf_rel_remark s) && (sf_rel_remark s <? sf_rel_assoc_delete s).

Lemma slist_eqb_eq a b : slist_eqb a b = true -> a = b.
Proof.
  revert b. induction a as [|x a IH]; intros [|y b]; cbn; try discriminate; [reflexivity|].
  intros H. apply andb_true_iff in H. destruct H as [H1 H2]. apply String.eqb_eq in H1. subst. f_equal. apply IH. exact H2.
Qed.

Theorem svc_wiring_ok_spec s : svc_wiring_ok s = true ->
  sf_boot_true_callers s = ["reconcileBootstrap"] /\ sf_boot_nonconst_callers s = [] /\
  sf_bootstrap_callers s = ["NewMultiCIDRRangeAllocator"] /\ sf_svc_field_writers s = ["NewMultiCIDRRangeAllocator"] /\
  (forall c, In c (sf_release_callers s) -> In c release_sites) /\ sf_pool_release_callers s = ["Release"] /\
  (sf_ctor_last_bootstrap s < sf_ctor_first_filter s)%nat /\ (sf_ctor_last_filter s < sf_ctor_first_occupy s)%nat /\
  sf_ctor_filters s = sf_ctor_appends s /\
  (sf_rel_release s < sf_rel_remark s)%nat /\ (sf_rel_remark s < sf_rel_assoc_delete s)%nat.
Proof.
  unfold svc_wiring_ok. intros H. repeat (apply andb_true_iff in H; destruct H as [H ?]).
  repeat split; try (apply slist_eqb_eq; assumption); try (apply Nat.ltb_lt; assumption); try (apply Nat.eqb_eq; assumption).
  intros c Hc. match goal with Hf : forallb _ _ = true |- _ => rewrite forallb_forall in Hf; specialize (Hf c Hc) end.
  unfold smem in *. match goal with Hf : existsb _ _ = true |- _ => apply existsb_exists in Hf; destruct Hf as (x & Hx & E) end.
  apply String.eqb_eq in E. subst. assumption.
Qed.
