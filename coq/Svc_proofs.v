(* Svc_proofs.v -- C09 over histories: the blocks that overlap a service range of the running incarnation stay used in
   every entry mapped by the constructor (ghost flag cc_start), whatever happens afterwards -- allocation attempts and
   their roll-back, node releases (which re-occupy the service ranges: repair aeef8fa), ClusterCIDR work items --
   and therefore no PATCH ever carries a block of such an entry that overlaps a service range. *)
From NIPAM Require Import Sys Geom_proofs Pool_proofs Prio_proofs Alloc_proofs Inv_proofs Sys_proofs World_proofs Complete_proofs Resv_proofs.
From Coq Require Import Lia.
Open Scope N_scope.

(* ---------- pools ---------- *)
Definition pmarked (svc : cidr) (p : pool) : Prop :=
  forall i, i < maxc (pg p) -> overlap (block (pg p) i) svc -> In (block (pg p) i) (used p).

Lemma pm_occupy svc p c p' : PoolInv p -> clean_geom (pg p) = true -> wf_cidr c -> occupy p c = Some p' -> pmarked svc p -> pmarked svc p'.
Proof.
  intros I Hcl Hw H Hm. pose proof (occupy_spec p c I Hcl Hw) as S. rewrite H in S.
  destruct S as (_ & _ & _ & Hg & _ & _ & Hu). intros i Hi Ho. rewrite Hg in *. apply (Hu i Hi). left. apply Hm; assumption.
Qed.
Lemma pm_occupy_self svc p p' : PoolInv p -> clean_geom (pg p) = true -> wf_cidr svc -> occupy p svc = Some p' -> pmarked svc p'.
Proof.
  intros I Hcl Hw H. destruct (occupy_marks_all_overlapping p svc p' I Hcl Hw H) as (Hg & _ & Hu).
  intros i Hi Ho. rewrite Hg in *. apply Hu; assumption.
Qed.
Lemma pm_release svc p c p' : PoolInv p -> clean_geom (pg p) = true -> wf_cidr c -> release p c = Some p' -> pmarked svc p ->
  (forall i, i < maxc (pg p) -> overlap (block (pg p) i) c -> ~ overlap (block (pg p) i) svc) -> pmarked svc p'.
Proof.
  intros I Hcl Hw H Hm Hdis. pose proof (release_spec p c I Hcl Hw) as S. rewrite H in S.
  destruct S as (_ & _ & _ & Hg & _ & _ & Hu). intros i Hi Ho. rewrite Hg in *. apply (Hu i Hi). split; [apply Hm; assumption|].
  intros Hc. exact (Hdis i Hi Hc Ho).
Qed.
Lemma pm_no_range svc p : PoolInv p -> ~ overlap (grange (pg p)) svc -> pmarked svc p.
Proof. intros I Hn i Hi Ho. exfalso. exact (no_overlap_no_block p svc i I Hi Hn Ho). Qed.

(* ---------- entries ---------- *)
Definition emarked (svcs : list cidr) (e : ccset) : Prop :=
  forall svc, In svc svcs -> forall p, pool_of e (cf svc) = Some p -> pmarked svc p.

(* e' is e with pools that kept their geometry and lost no used block; same ghost flag *)
Definition sgrows (e e' : ccset) : Prop :=
  (cc_start e' = cc_start e /\ cc_name e' = cc_name e /\ (cc_term e = true -> cc_term e' = true)) /\
  forall f p', pool_of e' f = Some p' -> exists p, pool_of e f = Some p /\ pg p' = pg p /\ forall c, In c (used p) -> In c (used p').

Lemma sgrows_refl e : sgrows e e.
Proof. split; [split; [reflexivity|split; [reflexivity|auto]]|]. intros f p H. exists p. split; [exact H|split; [reflexivity|auto]]. Qed.
Lemma sgrows_trans a b c : sgrows a b -> sgrows b c -> sgrows a c.
Proof.
  intros [(A1 & A1' & A1'') A2] [(B1 & B1' & B1'') B2]. split; [split; [congruence|split; [congruence|auto]]|]. intros f p' H. destruct (B2 f p' H) as (p1 & H1 & G1 & U1).
  destruct (A2 f p1 H1) as (p0 & H0 & G0 & U0). exists p0. split; [exact H0|split; [congruence|auto]].
Qed.
Lemma sgrows_marked svcs e e' : sgrows e e' -> (cc_start e = true -> emarked svcs e) -> cc_start e' = true -> emarked svcs e'.
Proof.
  intros [[Hs _] Hp] Hm Hst svc Hsvc p' Hp'. destruct (Hp _ _ Hp') as (p & Hpe & Hg & Hu). rewrite Hs in Hst.
  intros i Hi Ho. rewrite Hg in *. apply Hu. exact (Hm Hst svc Hsvc p Hpe i Hi Ho).
Qed.
Lemma sgrows_with_assoc e a : sgrows e (with_assoc e a).
Proof. split; [split; [reflexivity|split; [reflexivity|auto]]|]. intros f p H. exists p. split; [destruct f; exact H|split; [reflexivity|auto]]. Qed.
Lemma sgrows_add_assoc n e : sgrows e (add_assoc n e).
Proof. apply sgrows_with_assoc. Qed.
Lemma sgrows_del_assoc n e : sgrows e (del_assoc n e).
Proof. apply sgrows_with_assoc. Qed.
Lemma sgrows_with_term e : sgrows e (with_term e true).
Proof. split; [split; [reflexivity|split; [reflexivity|auto]]|]. intros f p H. exists p. split; [destruct f; exact H|split; [reflexivity|auto]]. Qed.
Lemma with_pool_start e f p : cc_start (with_pool e f p) = cc_start e.
Proof. destruct f; reflexivity. Qed.
Lemma with_pool_name e f p : cc_name (with_pool e f p) = cc_name e.
Proof. destruct f; reflexivity. Qed.
Lemma with_pool_term e f p : cc_term (with_pool e f p) = cc_term e.
Proof. destruct f; reflexivity. Qed.
Lemma sgrows_with_pool e f p p' : pool_of e f = Some p -> pg p' = pg p -> (forall c, In c (used p) -> In c (used p')) -> sgrows e (with_pool e f p').
Proof.
  intros Hp Hg Hu. split; [split; [apply with_pool_start|split; [apply with_pool_name|rewrite with_pool_term; auto]]|]. intros f0 q Hq. destruct (fam_eq_dec f f0) as [<-|Hne].
  - rewrite pool_of_with_pool_same in Hq. inversion Hq; subst q. exists p. split; [exact Hp|split; assumption].
  - rewrite pool_of_with_pool_other in Hq by exact Hne. exists q. split; [exact Hq|split; [reflexivity|auto]].
Qed.

Lemma cc_occupy_sgrows e x e' : EntryInv e -> wf_cidr x -> cc_occupy e x = Ok e' -> sgrows e e'.
Proof.
  intros E Hw H. unfold cc_occupy in H. destruct (pool_of e (cf x)) as [p|] eqn:Ep; [|discriminate].
  destruct (occupy p x) as [p'|] eqn:Eo; [|discriminate]. inversion H; subst e'.
  destruct (pool_of_PI e (cf x) p E Ep) as (I & _ & Hcl).
  pose proof (occupy_spec p x I Hcl Hw) as S. rewrite Eo in S. destruct S as (_ & _ & _ & Hg & _).
  apply (sgrows_with_pool e (cf x) p p' Ep Hg). eapply occupy_used_grows; eassumption.
Qed.

Lemma occupy_list_sgrows cs : forall e e' o, EntryInv e -> Forall wf_pcidr cs -> occupy_list e cs = (e', o) -> sgrows e e'.
Proof.
  induction cs as [|pc cs IH]; intros e e' o E Hw H; cbn in H; [inversion H; subst; apply sgrows_refl|].
  inversion Hw as [|pc0 l0 Hw1 Hw2]; subst. destruct pc as [|x canon]; [inversion H; subst; apply sgrows_refl|].
  destruct (cc_occupy e x) as [e1|er|] eqn:Eo; try (inversion H; subst; apply sgrows_refl).
  eapply sgrows_trans; [eapply cc_occupy_sgrows; [exact E|exact Hw1|exact Eo]|].
  eapply IH; [eapply cc_occupy_inv; eassumption|exact Hw2|exact H].
Qed.

(* occupying a service range in an entry marks it there, whatever the entry looked like *)
Lemma occupy_service_sgrows e svc : EntryInv e -> wf_cidr svc -> sgrows e (occupy_service e svc).
Proof.
  intros E Hw. unfold occupy_service. destruct (pool_of e (cf svc)); [|apply sgrows_refl].
  destruct (overlapb _ svc); [|apply sgrows_refl]. destruct (cc_occupy e svc) as [e'|er|] eqn:Eo; try apply sgrows_refl.
  eapply cc_occupy_sgrows; eassumption.
Qed.
Lemma occupy_service_marks e svc : EntryInv e -> wf_cidr svc -> forall p, pool_of (occupy_service e svc) (cf svc) = Some p -> pmarked svc p.
Proof.
  intros E Hw p Hp. unfold occupy_service in Hp. destruct (pool_of e (cf svc)) as [q|] eqn:Eq; [|rewrite Eq in Hp; discriminate].
  destruct (pool_of_PI e (cf svc) q E Eq) as (I & _ & Hcl).
  destruct (overlapb (grange (pg q)) svc) eqn:Eov.
  - unfold cc_occupy in Hp. rewrite Eq in Hp. destruct (occupy q svc) as [q'|] eqn:Eo.
    + rewrite pool_of_with_pool_same in Hp. inversion Hp; subst p. exact (pm_occupy_self svc q q' I Hcl Hw Eo).
    + rewrite Eq in Hp. inversion Hp; subst p. apply pm_no_range; [exact I|].
      pose proof (occupy_spec q svc I Hcl Hw) as S. rewrite Eo in S. exact S.
  - rewrite Eq in Hp. inversion Hp; subst p. apply pm_no_range; [exact I|]. intros Ho.
    apply (overlapb_spec _ _ (grange_wf _ (inv_wf q I)) Hw) in Ho. congruence.
Qed.
Lemma occupy_services_marks svcs : forall e, EntryInv e -> Forall wf_cidr svcs -> (sgrows e (occupy_services e svcs)) /\ emarked svcs (occupy_services e svcs).
Proof.
  unfold occupy_services. induction svcs as [|s svcs IH]; intros e E Hw; cbn [fold_left].
  - split; [apply sgrows_refl|intros svc []].
  - inversion Hw as [|s0 l0 Hs1 Hs2]; subst.
    pose proof (occupy_service_inv e s E Hs1) as E1.
    destruct (IH (occupy_service e s) E1 Hs2) as [G M]. split; [eapply sgrows_trans; [apply occupy_service_sgrows; [exact E|exact Hs1]|exact G]|].
    intros svc [<-|Hin] p Hp; [|exact (M svc Hin p Hp)].
    destruct G as [_ Gp]. destruct (Gp _ _ Hp) as (q & Hq & Hg & Hu).
    pose proof (occupy_service_marks e s E Hs1 q Hq) as Hm. intros i Hi Ho. rewrite Hg in *. apply Hu. exact (Hm i Hi Ho).
Qed.

(* releasing CIDRs whose blocks overlap no service range keeps the marks *)
Definition clear_of (svcs : list cidr) (e : ccset) (x : cidr) : Prop :=
  forall svc, In svc svcs -> cf svc = cf x -> forall p, pool_of e (cf x) = Some p ->
    forall i, i < maxc (pg p) -> overlap (block (pg p) i) x -> ~ overlap (block (pg p) i) svc.

Lemma cc_release_marked svcs e x e' : EntryInv e -> wf_cidr x -> cc_release e x = Ok e' -> clear_of svcs e x -> emarked svcs e ->
  emarked svcs e' /\ (cc_start e' = cc_start e /\ cc_name e' = cc_name e /\ (cc_term e = true -> cc_term e' = true)) /\ forall f p', pool_of e' f = Some p' -> exists p, pool_of e f = Some p /\ pg p' = pg p.
Proof.
  intros E Hw H Hcl Hm. unfold cc_release in H. destruct (pool_of e (cf x)) as [p|] eqn:Ep; [|discriminate].
  destruct (release p x) as [p'|] eqn:Er; [|discriminate]. inversion H; subst e'.
  destruct (pool_of_PI e (cf x) p E Ep) as (I & _ & Hc).
  pose proof (release_spec p x I Hc Hw) as S. rewrite Er in S. destruct S as (_ & _ & _ & Hg & _).
  split; [|split; [split; [apply with_pool_start|split; [apply with_pool_name|rewrite with_pool_term; auto]]|]].
  - intros svc Hsvc q Hq. destruct (fam_eq_dec (cf x) (cf svc)) as [Ef|Hne].
    + rewrite <- Ef in Hq. rewrite pool_of_with_pool_same in Hq. inversion Hq; subst q.
      eapply pm_release; [exact I|exact Hc|exact Hw|exact Er| |].
      * apply (Hm svc Hsvc). rewrite <- Ef. exact Ep.
      * intros i Hi Ho. exact (Hcl svc Hsvc (eq_sym Ef) p Ep i Hi Ho).
    + rewrite pool_of_with_pool_other in Hq by exact Hne. exact (Hm svc Hsvc q Hq).
  - intros f q Hq. destruct (fam_eq_dec (cf x) f) as [<-|Hne].
    + rewrite pool_of_with_pool_same in Hq. inversion Hq; subst q. exists p. split; [exact Ep|exact Hg].
    + rewrite pool_of_with_pool_other in Hq by exact Hne. exists q. split; [exact Hq|reflexivity].
Qed.

(* ---------- maps ---------- *)
Definition SInv (svcs : list cidr) (m : cidrmap) : Prop :=
  forall e, In e (all_entries m) -> cc_start e = true -> emarked svcs e.
Definition rcov (m m' : cidrmap) : Prop :=
  forall e', In e' (all_entries m') -> cc_start e' = false \/ exists e, In e (all_entries m) /\ sgrows e e'.

Lemma rcov_refl m : rcov m m.
Proof. intros e He. right. exists e. split; [exact He|apply sgrows_refl]. Qed.
Lemma rcov_trans a b c : rcov a b -> rcov b c -> rcov a c.
Proof.
  intros H1 H2 e He. destruct (H2 e He) as [Hf|(e1 & He1 & G1)]; [left; exact Hf|].
  destruct (H1 e1 He1) as [Hf|(e0 & He0 & G0)].
  - left. destruct G1 as [[Hs _] _]. congruence.
  - right. exists e0. split; [exact He0|eapply sgrows_trans; eassumption].
Qed.
Lemma rcov_sinv svcs m m' : rcov m m' -> SInv svcs m -> SInv svcs m'.
Proof.
  intros H S e He Hst. destruct (H e He) as [Hf|(e0 & He0 & G)]; [congruence|].
  eapply sgrows_marked; [exact G| |exact Hst]. intros Hs0. exact (S e0 He0 Hs0).
Qed.

Lemma in_set_entry m p c x : In x (all_entries (set_entry m p c)) -> x = c \/ In x (all_entries m).
Proof.
  intros Hx. unfold set_entry in Hx. destruct (find_key (fst p) m) as [l|] eqn:Ef; [|right; exact Hx].
  apply all_entries_set_key in Hx. destruct Hx as [Hx|Hx]; [|right; exact Hx].
  apply in_set_nth in Hx. destruct Hx as [->|Hx]; [left; reflexivity|]. right. eapply find_key_in; eassumption.
Qed.
Lemma get_entry_in m p e : get_entry m p = Some e -> In e (all_entries m).
Proof.
  unfold get_entry. destruct (find_key (fst p) m) as [l|] eqn:Ef; [|discriminate]. intros H.
  eapply find_key_in; [exact Ef|]. eapply nth_error_In. exact H.
Qed.
Lemma rcov_set_entry m p e e' : get_entry m p = Some e -> sgrows e e' -> rcov m (set_entry m p e').
Proof.
  intros Hg G x Hx. apply in_set_entry in Hx. destruct Hx as [->|Hx].
  - right. exists e. split; [eapply get_entry_in; exact Hg|exact G].
  - right. exists x. split; [exact Hx|apply sgrows_refl].
Qed.
Lemma sinv_set_entry svcs m p e' : SInv svcs m -> (cc_start e' = true -> emarked svcs e') -> SInv svcs (set_entry m p e').
Proof. intros S H x Hx Hst. apply in_set_entry in Hx. destruct Hx as [->|Hx]; [exact (H Hst)|exact (S x Hx Hst)]. Qed.

(* ---------- occupation of a node's own CIDRs: pools only grow ---------- *)
Lemma occupy_try_rcov node ps : forall m m' r, MapInv m -> wf_node node -> occupy_try m node ps = (m', r) -> rcov m m'.
Proof.
  induction ps as [|p ps IH]; intros m m' r M Hw H; cbn in H; [inversion H; subst; apply rcov_refl|].
  destruct (get_entry m p) as [c|] eqn:Eg; [|inversion H; subst; apply rcov_refl].
  destruct (negb (can_occupy_all c (n_cidrs node))); [eapply IH; eassumption|].
  destruct (occupy_list c (n_cidrs node)) as [c' o] eqn:Eo.
  pose proof (get_entry_inv _ _ _ M Eg) as Ec.
  pose proof (occupy_list_inv _ _ _ _ Ec Hw Eo) as I'.
  pose proof (occupy_list_sgrows _ _ _ _ Ec Hw Eo) as G.
  destruct o.
  - inversion H; subst. eapply rcov_set_entry; [exact Eg|]. eapply sgrows_trans; [exact G|apply sgrows_add_assoc].
  - eapply rcov_trans; [eapply rcov_set_entry; [exact Eg|exact G]|].
    eapply IH; [apply set_entry_inv; [exact M|exact I']|exact Hw|exact H].
  - inversion H; subst. eapply rcov_set_entry; eassumption.
Qed.
Lemma occupy_cidrs_rcov po lab m node m' r : MapInv m -> wf_node node -> occupy_cidrs po lab m node = (m', r) -> rcov m m'.
Proof.
  unfold occupy_cidrs. intros M Hw H. destruct (n_cidrs node) as [|pc0 pcs]; [inversion H; subst; apply rcov_refl|].
  destruct (ordered_matching po lab m (n_labels node) false) as [[|p1 ps]|e|]; try (inversion H; subst; apply rcov_refl).
  eapply occupy_try_rcov; eassumption.
Qed.
Lemma occupy_nodes_rcov po lab ns : forall m m' pan, MapInv m -> Forall wf_node ns -> occupy_nodes po lab m ns = (m', pan) -> rcov m m'.
Proof.
  induction ns as [|n ns IH]; intros m m' pan M Hw H; cbn in H; [inversion H; subst; apply rcov_refl|].
  inversion Hw as [|n0 l0 Hn Hns]; subst.
  destruct (n_cidrs n) eqn:En; [eapply IH; eassumption|].
  destruct (occupy_cidrs po lab m n) as [m1 r1] eqn:Eo.
  pose proof (occupy_cidrs_rcov _ _ _ _ _ _ M Hn Eo) as R1. pose proof (occupy_cidrs_inv _ _ _ _ _ _ M Hn Eo) as M1.
  destruct r1; try (eapply rcov_trans; [exact R1|eapply IH; eassumption]).
  inversion H; subst. exact R1.
Qed.

(* ---------- the allocation loop ---------- *)
(* a block handed out from the entry at p is, if that entry was mapped at start-up, clear of every service range *)
Definition safe_at (svcs : list cidr) (m : cidrmap) (p : path) (x : cidr) : Prop :=
  forall e, get_entry m p = Some e -> cc_start e = true ->
    clear_of svcs e x /\ forall svc, In svc svcs -> ~ overlap x svc.

Definition alloc_svc (svcs : list cidr) (p : path) (st : alloc_state) : Prop :=
  match st with
  | ARun _ m => MapInv m /\ SInv svcs m
  | ADone m (Ok x) => MapInv m /\ SInv svcs m /\ safe_at svcs m p x
  | ADone m _ => MapInv m /\ SInv svcs m
  end.

Lemma alloc_step_svc svcs held p f st : alloc_svc svcs p st -> alloc_svc svcs p (alloc_step held p f st).
Proof.
  destruct st as [ev m|m r]; [|tauto]. cbn [alloc_svc]. intros [M S]. unfold alloc_step.
  destruct (get_entry m p) as [c|] eqn:Eg; [|split; assumption].
  destruct (pool_of c f) as [pl|] eqn:Ep; [|split; assumption].
  destruct (pmax pl <=? ev); [split; assumption|].
  destruct (next_candidate pl) as [blk sk pl'|] eqn:En; [|split; assumption].
  pose proof (get_entry_inv _ _ _ M Eg) as I.
  pose proof (pool_of_PI _ _ _ I Ep) as Hpi. destruct Hpi as (Ipl & Hgf & Hclean).
  destruct (next_PI f pl blk sk pl' (conj Ipl (conj Hgf Hclean)) En) as (Hp' & Hwb & Hfb).
  pose proof (next_spec pl Ipl) as Sp. rewrite En in Sp. destruct Sp as (i0 & Hi0 & Hblk & Hfree & _ & _ & _ & Hpl' & _ & _).
  assert (Hg' : pg pl' = pg pl) by (rewrite Hpl'; reflexivity).
  assert (Hu' : forall z, In z (used pl) -> In z (used pl')) by (rewrite Hpl'; cbn; auto).
  set (c1 := with_pool c f pl') in *.
  assert (I1 : EntryInv c1) by (apply with_pool_inv; assumption).
  assert (G1 : sgrows c c1) by (apply (sgrows_with_pool c f pl pl' Ep Hg' Hu')).
  assert (M1 : MapInv (set_entry m p c1)) by (apply set_entry_inv; assumption).
  assert (S1 : SInv svcs (set_entry m p c1)) by (eapply rcov_sinv; [eapply rcov_set_entry; [exact Eg|exact G1]|exact S]).
  match goal with |- context [if ?b then _ else _] => destruct b end; [split; assumption|].
  destruct (cc_occupy c1 blk) as [c2|e|] eqn:Eo; cbn [alloc_svc]; try (split; assumption).
  pose proof (get_set_entry_same m p c c1 Eg) as Eg1.
  pose proof (cc_occupy_sgrows c1 blk c2 I1 Hwb Eo) as G2.
  split; [apply set_entry_inv; [exact M1|eapply cc_occupy_inv; eassumption]|].
  split; [eapply rcov_sinv; [eapply rcov_set_entry; [exact Eg1|exact G2]|exact S1]|].
  (* the block is clear of the service ranges *)
  intros e He Hst. rewrite (get_set_entry_same _ p c1 c2 Eg1) in He. inversion He; subst e.
  assert (Hstc : cc_start c = true) by (destruct G1 as [[A _] _]; destruct G2 as [[B _] _]; congruence).
  pose proof (S c (get_entry_in _ _ _ Eg) Hstc) as Hmk.
  assert (Hav : forall svc, In svc svcs -> ~ overlap blk svc).
  { intros svc Hsvc Ho. destruct (fam_eq_dec (cf svc) f) as [Ef|Hne].
    - apply (candidate_avoids_marked pl svc blk sk pl' Ipl); [|exact En|exact Ho]. apply (Hmk svc Hsvc). rewrite Ef. exact Ep.
    - destruct Ho as [Hcf _]. congruence. }
  split; [|exact Hav].
  intros svc Hsvc Hcf q Hq i Hi Ho Hos.
  destruct G2 as [_ G2p]. destruct (G2p _ _ Hq) as (q1 & Hq1 & Hgq & _).
  unfold c1 in Hq1. rewrite Hfb in Hq1. rewrite pool_of_with_pool_same in Hq1. inversion Hq1; subst q1.
  rewrite Hgq, Hg' in *. rewrite Hblk in Ho. apply block_overlap_iff in Ho. subst i.
  apply (Hav svc Hsvc). rewrite Hblk. exact Hos.
Qed.

Lemma allocate_cidr_svc svcs held m p f m' r : MapInv m -> SInv svcs m -> allocate_cidr held m p f = (m', r) ->
  SInv svcs m' /\ match r with Ok x => safe_at svcs m' p x | _ => True end.
Proof.
  unfold allocate_cidr. intros M S H.
  match type of H with context [N.iter ?fuel _ _] =>
    assert (G : alloc_svc svcs p (N.iter fuel (alloc_step held p f) (ARun 0 m)))
      by (apply N.iter_invariant; [intros st; apply alloc_step_svc|split; assumption]);
    destruct (N.iter fuel (alloc_step held p f) (ARun 0 m)) as [ev m2|m2 r2] end.
  - inversion H; subst. destruct G as [_ G]. split; [exact G|exact I].
  - inversion H; subst. destruct r as [x|e|]; cbn [alloc_svc] in G.
    + destruct G as (_ & G1 & G2). split; assumption.
    + destruct G as [_ G]. split; [exact G|exact I].
    + destruct G as [_ G]. split; [exact G|exact I].
Qed.

(* ---------- the entry at a path keeps its geometry and its ghost flag ---------- *)
Definition sgeo (e e' : ccset) : Prop :=
  (cc_start e' = cc_start e /\ cc_name e' = cc_name e /\ (cc_term e = true -> cc_term e' = true)) /\ forall f q', pool_of e' f = Some q' -> exists q, pool_of e f = Some q /\ pg q' = pg q.
Lemma sgeo_refl e : sgeo e e.
Proof. split; [split; [reflexivity|split; [reflexivity|auto]]|]. intros f q H. exists q. split; [exact H|reflexivity]. Qed.
Lemma sgeo_trans a b c : sgeo a b -> sgeo b c -> sgeo a c.
Proof.
  intros [(A1 & A1' & A1'') A2] [(B1 & B1' & B1'') B2]. split; [split; [congruence|split; [congruence|auto]]|]. intros f q H. destruct (B2 f q H) as (q1 & H1 & G1).
  destruct (A2 f q1 H1) as (q0 & H0 & G0). exists q0. split; [exact H0|congruence].
Qed.
Lemma sgrows_sgeo e e' : sgrows e e' -> sgeo e e'.
Proof. intros [A B]. split; [exact A|]. intros f q H. destruct (B f q H) as (q0 & H0 & G & _). exists q0. split; assumption. Qed.

Definition stabm (m m' : cidrmap) : Prop :=
  forall q e', get_entry m' q = Some e' -> exists e, get_entry m q = Some e /\ sgeo e e'.
Lemma stabm_refl m : stabm m m.
Proof. intros q e H. exists e. split; [exact H|apply sgeo_refl]. Qed.
Lemma stabm_trans a b c : stabm a b -> stabm b c -> stabm a c.
Proof.
  intros H1 H2 q e He. destruct (H2 q e He) as (e1 & He1 & G1). destruct (H1 q e1 He1) as (e0 & He0 & G0).
  exists e0. split; [exact He0|eapply sgeo_trans; eassumption].
Qed.

Lemma find_key_set_key_other k k' l m : k' <> k -> find_key k' (set_key k l m) = find_key k' m.
Proof.
  intros Hne. induction m as [|[k0 l0] m IH]; cbn.
  - destruct (str_eqb k' k) eqn:E; [apply str_eqb_eq in E; contradiction|reflexivity].
  - destruct (str_eqb k k0) eqn:Ek; cbn.
    + apply str_eqb_eq in Ek. subst k0. destruct (str_eqb k' k) eqn:E; [apply str_eqb_eq in E; contradiction|reflexivity].
    + destruct (str_eqb k' k0); [reflexivity|exact IH].
Qed.
Lemma nth_error_set_nth_other {A} n n' (x : A) l : n' <> n -> nth_error (set_nth n x l) n' = nth_error l n'.
Proof.
  revert n' l. induction n as [|n IH]; intros [|n'] [|h t] Hne; cbn; try reflexivity; try contradiction.
  apply IH. intros E. apply Hne. rewrite E. reflexivity.
Qed.
Lemma get_set_entry_other m p q c : q <> p -> get_entry (set_entry m p c) q = get_entry m q.
Proof.
  intros Hne. unfold get_entry, set_entry. destruct (find_key (fst p) m) as [l|] eqn:Ef; [|reflexivity].
  destruct p as [k i], q as [k' i']. cbn [fst snd] in *.
  destruct (str_eqb k' k) eqn:E.
  - apply str_eqb_eq in E. subst k'. rewrite find_key_set_key_same, Ef. apply nth_error_set_nth_other. intros Ei. apply Hne. rewrite Ei. reflexivity.
  - rewrite find_key_set_key_other; [reflexivity|]. intros Ek. rewrite Ek, str_eqb_refl in E. discriminate.
Qed.
Lemma path_eq_dec (p q : path) : {p = q} + {p <> q}.
Proof.
  destruct p as [k i], q as [k' i']. destruct (str_eqb k k') eqn:E.
  - apply str_eqb_eq in E. subst k'. destruct (Nat.eq_dec i i') as [->|Hne]; [left; reflexivity|right; intros H; inversion H; contradiction].
  - right. intros H. inversion H; subst. rewrite str_eqb_refl in E. discriminate.
Qed.
Lemma stabm_set_entry m p e e' : get_entry m p = Some e -> sgeo e e' -> stabm m (set_entry m p e').
Proof.
  intros Hg G q x Hx. destruct (path_eq_dec q p) as [->|Hne].
  - rewrite (get_set_entry_same m p e e' Hg) in Hx. inversion Hx; subst x. exists e. split; assumption.
  - rewrite get_set_entry_other in Hx by exact Hne. exists x. split; [exact Hx|apply sgeo_refl].
Qed.

Lemma clear_of_sgeo svcs e e' x : sgeo e e' -> clear_of svcs e x -> clear_of svcs e' x.
Proof.
  intros [_ G] H svc Hsvc Hcf q' Hq' i Hi Ho. destruct (G _ _ Hq') as (q & Hq & Hg). rewrite Hg in *. exact (H svc Hsvc Hcf q Hq i Hi Ho).
Qed.
Lemma safe_at_stab svcs m m' p x : stabm m m' -> safe_at svcs m p x -> safe_at svcs m' p x.
Proof.
  intros St H e' He' Hst. destruct (St p e' He') as (e & He & G). destruct G as [Gs Gp].
  destruct (H e He ltac:(destruct Gs; congruence)) as [Hc Ha]. split; [|exact Ha]. eapply clear_of_sgeo; [split; [exact Gs|exact Gp]|exact Hc].
Qed.

Lemma occupy_try_stab node ps : forall m m' r, MapInv m -> wf_node node -> occupy_try m node ps = (m', r) -> stabm m m'.
Proof.
  induction ps as [|p ps IH]; intros m m' r M Hw H; cbn in H; [inversion H; subst; apply stabm_refl|].
  destruct (get_entry m p) as [c|] eqn:Eg; [|inversion H; subst; apply stabm_refl].
  destruct (negb (can_occupy_all c (n_cidrs node))); [eapply IH; eassumption|].
  destruct (occupy_list c (n_cidrs node)) as [c' o] eqn:Eo.
  pose proof (get_entry_inv _ _ _ M Eg) as Ec.
  pose proof (occupy_list_inv _ _ _ _ Ec Hw Eo) as I'.
  pose proof (occupy_list_sgrows _ _ _ _ Ec Hw Eo) as G.
  destruct o.
  - inversion H; subst. eapply stabm_set_entry; [exact Eg|]. apply sgrows_sgeo. eapply sgrows_trans; [exact G|apply sgrows_add_assoc].
  - eapply stabm_trans; [eapply stabm_set_entry; [exact Eg|apply sgrows_sgeo; exact G]|].
    eapply IH; [apply set_entry_inv; [exact M|exact I']|exact Hw|exact H].
  - inversion H; subst. eapply stabm_set_entry; [exact Eg|apply sgrows_sgeo; exact G].
Qed.
Lemma occupy_cidrs_stab po lab m node m' r : MapInv m -> wf_node node -> occupy_cidrs po lab m node = (m', r) -> stabm m m'.
Proof.
  unfold occupy_cidrs. intros M Hw H. destruct (n_cidrs node) as [|pc0 pcs]; [inversion H; subst; apply stabm_refl|].
  destruct (ordered_matching po lab m (n_labels node) false) as [[|p1 ps]|e|]; try (inversion H; subst; apply stabm_refl).
  eapply occupy_try_stab; eassumption.
Qed.

Definition alloc_stab (m0 : cidrmap) (st : alloc_state) : Prop :=
  match st with ARun _ m | ADone m _ => MapInv m /\ stabm m0 m end.

Lemma alloc_step_stab m0 held p f st : alloc_stab m0 st -> alloc_stab m0 (alloc_step held p f st).
Proof.
  destruct st as [ev m|m r]; [|tauto]. cbn [alloc_stab]. intros [M S]. unfold alloc_step.
  destruct (get_entry m p) as [c|] eqn:Eg; [|split; assumption].
  destruct (pool_of c f) as [pl|] eqn:Ep; [|split; assumption].
  destruct (pmax pl <=? ev); [split; assumption|].
  destruct (next_candidate pl) as [blk sk pl'|] eqn:En; [|split; assumption].
  pose proof (get_entry_inv _ _ _ M Eg) as I.
  pose proof (pool_of_PI _ _ _ I Ep) as Hpi. destruct Hpi as (Ipl & Hgf & Hclean).
  destruct (next_PI f pl blk sk pl' (conj Ipl (conj Hgf Hclean)) En) as (Hp' & Hwb & Hfb).
  pose proof (next_spec pl Ipl) as Sp. rewrite En in Sp. destruct Sp as (i0 & Hi0 & Hblk & Hfree & _ & _ & _ & Hpl' & _ & _).
  assert (Hg' : pg pl' = pg pl) by (rewrite Hpl'; reflexivity).
  assert (Hu' : forall z, In z (used pl) -> In z (used pl')) by (rewrite Hpl'; cbn; auto).
  set (c1 := with_pool c f pl') in *.
  assert (I1 : EntryInv c1) by (apply with_pool_inv; assumption).
  assert (G1 : sgrows c c1) by (apply (sgrows_with_pool c f pl pl' Ep Hg' Hu')).
  assert (M1 : MapInv (set_entry m p c1)) by (apply set_entry_inv; assumption).
  assert (S1 : stabm m0 (set_entry m p c1)) by (eapply stabm_trans; [exact S|eapply stabm_set_entry; [exact Eg|apply sgrows_sgeo; exact G1]]).
  match goal with |- context [if ?b then _ else _] => destruct b end; [split; assumption|].
  destruct (cc_occupy c1 blk) as [c2|e|] eqn:Eo; cbn [alloc_stab]; try (split; assumption).
  pose proof (get_set_entry_same m p c c1 Eg) as Eg1.
  split; [apply set_entry_inv; [exact M1|eapply cc_occupy_inv; eassumption]|].
  eapply stabm_trans; [exact S1|]. eapply stabm_set_entry; [exact Eg1|]. apply sgrows_sgeo. eapply cc_occupy_sgrows; eassumption.
Qed.
Lemma allocate_cidr_stab held m p f m' r : MapInv m -> allocate_cidr held m p f = (m', r) -> stabm m m'.
Proof.
  unfold allocate_cidr. intros M H.
  match type of H with context [N.iter ?fuel _ _] =>
    assert (G : alloc_stab m (N.iter fuel (alloc_step held p f) (ARun 0 m)))
      by (apply N.iter_invariant; [intros st; apply alloc_step_stab|split; [exact M|apply stabm_refl]]);
    destruct (N.iter fuel (alloc_step held p f) (ARun 0 m)) as [ev m2|m2 r2] end; inversion H; subst; apply G.
Qed.

(* giving blocks back *)
Lemma release_list_marked svcs xs : forall c c', EntryInv c -> Forall wf_cidr xs -> release_list c xs = Ok c' ->
  (forall x, In x xs -> clear_of svcs c x) -> emarked svcs c -> emarked svcs c' /\ sgeo c c' /\ EntryInv c'.
Proof.
  induction xs as [|x xs IH]; intros c c' E Hw H Hcl Hm; cbn in H.
  - inversion H; subst. split; [exact Hm|split; [apply sgeo_refl|exact E]].
  - inversion Hw as [|x0 l0 Hw1 Hw2]; subst. destruct (cc_release c x) as [c1|er|] eqn:Er; try discriminate.
    destruct (cc_release_marked svcs c x c1 E Hw1 Er (Hcl x (or_introl eq_refl)) Hm) as (Hm1 & Hs1 & Hg1).
    assert (G1 : sgeo c c1) by (split; assumption).
    destruct (IH c1 c' (cc_release_inv _ _ _ E Hw1 Er) Hw2 H) as (A & B & C).
    + intros y Hy. eapply clear_of_sgeo; [exact G1|]. apply Hcl. right. exact Hy.
    + exact Hm1.
    + split; [exact A|split; [eapply sgeo_trans; eassumption|exact C]].
Qed.

Definition safe_list (svcs : list cidr) (m : cidrmap) (p : path) (cs : list cidr) : Prop := forall x, In x cs -> safe_at svcs m p x.

Lemma release_in_svc svcs m p cs m' r : MapInv m -> SInv svcs m -> Forall wf_cidr cs -> safe_list svcs m p cs ->
  release_in m p cs = (m', r) -> SInv svcs m' /\ stabm m m'.
Proof.
  intros M S Hw Hsafe H. unfold release_in in H. destruct (get_entry m p) as [c|] eqn:Eg; [|inversion H; subst; split; [exact S|apply stabm_refl]].
  destruct (release_list c cs) as [c'|e|] eqn:Er; inversion H; subst; try (split; [exact S|apply stabm_refl]).
  pose proof (get_entry_inv _ _ _ M Eg) as Ec.
  destruct (bool_dec (cc_start c) true) as [Hst|Hst].
  - destruct (release_list_marked svcs cs c c' Ec Hw Er) as (A & B & _).
    + intros x Hx. exact (proj1 (Hsafe x Hx c Eg Hst)).
    + exact (S c (get_entry_in _ _ _ Eg) Hst).
    + split; [apply sinv_set_entry; [exact S|intros _; exact A]|eapply stabm_set_entry; eassumption].
  - (* not a start-up entry: nothing to keep *)
    assert (G : sgeo c c').
    { clear - Ec Hw Er. revert c Ec Er. induction cs as [|x xs IH]; intros c Ec Er; cbn in Er; [inversion Er; subst; apply sgeo_refl|].
      inversion Hw as [|x0 l0 Hw1 Hw2]; subst. destruct (cc_release c x) as [c1|er|] eqn:E1; try discriminate.
      eapply sgeo_trans; [|eapply IH; [exact Hw2|eapply cc_release_inv; eassumption|exact Er]].
      unfold cc_release in E1. destruct (pool_of c (cf x)) as [q|] eqn:Eq; [|discriminate]. destruct (release q x) as [q'|] eqn:Erl; [|discriminate].
      inversion E1; subst c1. destruct (pool_of_PI c (cf x) q Ec Eq) as (I & _ & Hc).
      pose proof (release_spec q x I Hc Hw1) as Sp. rewrite Erl in Sp. destruct Sp as (_ & _ & _ & Hg & _).
      split; [split; [apply with_pool_start|split; [apply with_pool_name|rewrite with_pool_term; auto]]|]. intros f q2 Hq2. destruct (fam_eq_dec (cf x) f) as [<-|Hne].
      - rewrite pool_of_with_pool_same in Hq2. inversion Hq2; subst q2. exists q. split; [exact Eq|exact Hg].
      - rewrite pool_of_with_pool_other in Hq2 by exact Hne. exists q2. split; [exact Hq2|reflexivity]. }
    split; [apply sinv_set_entry; [exact S|]|eapply stabm_set_entry; eassumption].
    intros Hst'. destruct G as [[Gs _] _]. rewrite Gs in Hst'. contradiction.
Qed.

(* ---------- prioritizedCIDRs ---------- *)
Lemma prioritized_try_svc svcs held ps : forall m m' r, MapInv m -> SInv svcs m -> prioritized_try held m ps = (m', r) ->
  SInv svcs m' /\ stabm m m' /\ match r with Ok (cs, p) => safe_list svcs m' p cs | _ => True end.
Proof.
  induction ps as [|p0 ps IH]; intros m m' r M S H; cbn in H; [inversion H; subst; split; [exact S|split; [apply stabm_refl|exact I]]|].
  destruct (get_entry m p0) as [c|] eqn:Eg; [|inversion H; subst; split; [exact S|split; [apply stabm_refl|exact I]]].
  assert (Hrec : forall mk, MapInv mk -> SInv svcs mk -> stabm m mk -> prioritized_try held mk ps = (m', r) ->
            SInv svcs m' /\ stabm m m' /\ match r with Ok (cs, p) => safe_list svcs m' p cs | _ => True end).
  { intros mk Mk Sk Stk Hk. destruct (IH mk m' r Mk Sk Hk) as (A & B & C). split; [exact A|split; [eapply stabm_trans; eassumption|exact C]]. }
  destruct (cc_v4 c) as [p4|].
  - destruct (allocate_cidr held m p0 V4) as [m1 r4] eqn:E4. pose proof (allocate_cidr_inv _ _ _ _ _ _ M E4) as M1.
    destruct (allocate_cidr_svc svcs _ _ _ _ _ _ M S E4) as [S1 Hs4]. pose proof (allocate_cidr_stab _ _ _ _ _ _ M E4) as St1.
    destruct r4 as [x4|e4|]; [|apply (Hrec m1); assumption|inversion H; subst; split; [exact S1|split; [exact St1|exact I]]].
    destruct (allocate_cidr_wf _ _ _ _ _ _ M E4) as [Hw4 _].
    destruct (cc_v6 c) as [p6|].
    + destruct (allocate_cidr held m1 p0 V6) as [m2 r6] eqn:E6. pose proof (allocate_cidr_inv _ _ _ _ _ _ M1 E6) as M2.
      destruct (allocate_cidr_svc svcs _ _ _ _ _ _ M1 S1 E6) as [S2 Hs6]. pose proof (allocate_cidr_stab _ _ _ _ _ _ M1 E6) as St2.
      assert (Hs4' : safe_at svcs m2 p0 x4) by (eapply safe_at_stab; eassumption).
      destruct r6 as [x6|e6|].
      * inversion H; subst. split; [exact S2|]. split; [eapply stabm_trans; eassumption|].
        intros x [<-|[<-|[]]]; assumption.
      * assert (G3 : forall m3, m3 = match get_entry m2 p0 with
                                     | Some c' => match cc_release c' x4 with Ok c'' => set_entry m2 p0 c'' | _ => m2 end
                                     | None => m2 end -> MapInv m3 /\ SInv svcs m3 /\ stabm m2 m3).
        { intros m3 ->. destruct (get_entry m2 p0) as [c'|] eqn:Eg2; [|split; [exact M2|split; [exact S2|apply stabm_refl]]].
          destruct (cc_release c' x4) as [c''|e|] eqn:Er; try (split; [exact M2|split; [exact S2|apply stabm_refl]]).
          pose proof (get_entry_inv _ _ _ M2 Eg2) as Ec'.
          split; [apply set_entry_inv; [exact M2|eapply cc_release_inv; eassumption]|].
          assert (Hrl : release_list c' [x4] = Ok c'') by (cbn; rewrite Er; reflexivity).
          assert (Hri : release_in m2 p0 [x4] = (set_entry m2 p0 c'', Ok tt)) by (unfold release_in; rewrite Eg2, Hrl; reflexivity).
          apply (release_in_svc svcs m2 p0 [x4] (set_entry m2 p0 c'') (Ok tt) M2 S2); [constructor; [exact Hw4|constructor]| |exact Hri].
          intros x [<-|[]]. exact Hs4'. }
        destruct (G3 _ eq_refl) as (M3 & S3 & St3).
        eapply Hrec; [exact M3|exact S3| |exact H]. eapply stabm_trans; [eapply stabm_trans; [exact St1|exact St2]|exact St3].
      * inversion H; subst. split; [exact S2|split; [eapply stabm_trans; eassumption|exact I]].
    + inversion H; subst. split; [exact S1|]. split; [exact St1|]. intros x [<-|[]]. exact Hs4.
  - destruct (cc_v6 c) as [p6|].
    + destruct (allocate_cidr held m p0 V6) as [m2 r6] eqn:E6. pose proof (allocate_cidr_inv _ _ _ _ _ _ M E6) as M2.
      destruct (allocate_cidr_svc svcs _ _ _ _ _ _ M S E6) as [S2 Hs6]. pose proof (allocate_cidr_stab _ _ _ _ _ _ M E6) as St2.
      destruct r6 as [x6|e6|].
      * inversion H; subst. split; [exact S2|]. split; [exact St2|]. intros x [<-|[]]. exact Hs6.
      * apply (Hrec m2); assumption.
      * inversion H; subst. split; [exact S2|split; [exact St2|exact I]].
    + inversion H; subst. split; [exact S|]. split; [apply stabm_refl|]. intros x [].
Qed.

(* ---------- updateCIDRsAllocation ---------- *)
Definition svc_ok (svcs : list cidr) (m m' : cidrmap) : Prop := SInv svcs m' /\ stabm m m'.

Lemma update_cidrs_allocation_svc svcs canp apisame m name cs p reread outs m' r fx :
  MapInv m -> SInv svcs m -> Forall wf_cidr cs -> safe_list svcs m p cs ->
  update_cidrs_allocation canp apisame m name cs p reread outs = (m', r, fx) -> svc_ok svcs m m'.
Proof.
  unfold update_cidrs_allocation. intros M S Hw Hsafe H.
  assert (Hsame : svc_ok svcs m m) by (split; [exact S|apply stabm_refl]).
  assert (Hadd : forall c, get_entry m p = Some c -> svc_ok svcs m (set_entry m p (add_assoc name c))).
  { intros c Eg. split; [eapply rcov_sinv; [eapply rcov_set_entry; [exact Eg|apply sgrows_add_assoc]|exact S]|].
    eapply stabm_set_entry; [exact Eg|apply sgrows_sgeo; apply sgrows_add_assoc]. }
  destruct reread as [n|].
  2:{ destruct (release_in m p cs) as [m1 r1] eqn:E. inversion H; subst. exact (release_in_svc svcs m p cs _ _ M S Hw Hsafe E). }
  destruct ((length (n_cidrs n) =? length cs)%nat && same_cidrs (n_cidrs n) cs)%bool.
  { destruct (get_entry m p) as [c|] eqn:Eg; inversion H; subst; [apply Hadd; reflexivity|exact Hsame]. }
  destruct (n_cidrs n).
  2:{ destruct (release_in m p cs) as [m1 r1] eqn:E. inversion H; subst. exact (release_in_svc svcs m p cs _ _ M S Hw Hsafe E). }
  destruct (patch_loop (canp cs) name cs outs 3) as [ok fxp].
  destruct ok.
  { destruct (get_entry m p) as [c|] eqn:Eg; inversion H; subst; [apply Hadd; reflexivity|exact Hsame]. }
  repeat match type of H with
         | context [if ?b then _ else _] => destruct b
         | context [match nth_error ?l ?k with _ => _ end] => destruct (nth_error l k) as [[]|]
         | context [match get_entry m p with _ => _ end] => let Eg := fresh "Eg" in destruct (get_entry m p) as [?c|] eqn:Eg
         | context [let '(_, _) := release_in m p cs in _] => let E := fresh "E" in destruct (release_in m p cs) as [?m1 ?r1] eqn:E
         end; inversion H; subst; try exact Hsame; try (apply Hadd; reflexivity);
    try (match goal with E : release_in m p cs = _ |- _ => exact (release_in_svc svcs m p cs _ _ M S Hw Hsafe E) end).
Qed.

(* ---------- releasing a node: the service ranges are occupied again after every released pod CIDR ---------- *)
Lemma cc_release_sgeo c x c' : EntryInv c -> wf_cidr x -> cc_release c x = Ok c' -> sgeo c c'.
Proof.
  intros Ec Hw E1. unfold cc_release in E1. destruct (pool_of c (cf x)) as [q|] eqn:Eq; [|discriminate]. destruct (release q x) as [q'|] eqn:Erl; [|discriminate].
  inversion E1; subst c'. destruct (pool_of_PI c (cf x) q Ec Eq) as (I & _ & Hc).
  pose proof (release_spec q x I Hc Hw) as Sp. rewrite Erl in Sp. destruct Sp as (_ & _ & _ & Hg & _).
  split; [split; [apply with_pool_start|split; [apply with_pool_name|rewrite with_pool_term; auto]]|]. intros f q2 Hq2. destruct (fam_eq_dec (cf x) f) as [<-|Hne].
  - rewrite pool_of_with_pool_same in Hq2. inversion Hq2; subst q2. exists q. split; [exact Eq|exact Hg].
  - rewrite pool_of_with_pool_other in Hq2 by exact Hne. exists q2. split; [exact Hq2|reflexivity].
Qed.

Lemma release_pcidrs_marked svcs cs : Forall wf_cidr svcs -> forall c c' r, EntryInv c -> Forall wf_pcidr cs ->
  release_pcidrs svcs c cs = (c', r) -> emarked svcs c -> emarked svcs c' /\ sgeo c c'.
Proof.
  intros Hs. induction cs as [|pc cs IH]; intros c c' r Ec Hw H Hm; cbn in H; [inversion H; subst; split; [exact Hm|apply sgeo_refl]|].
  inversion Hw as [|pc0 l0 Hw1 Hw2]; subst. destruct pc as [|x cn]; [inversion H; subst; split; [exact Hm|apply sgeo_refl]|].
  destruct (cc_release c x) as [c1|er|] eqn:Er; try (inversion H; subst; split; [exact Hm|apply sgeo_refl]).
  pose proof (cc_release_inv _ _ _ Ec Hw1 Er) as E1.
  destruct (occupy_services_marks svcs c1 E1 Hs) as [G1 M1].
  destruct (IH (occupy_services c1 svcs) c' r (occupy_services_inv svcs c1 E1 Hs) Hw2 H M1) as [A B].
  split; [exact A|]. eapply sgeo_trans; [eapply cc_release_sgeo; eassumption|]. eapply sgeo_trans; [apply sgrows_sgeo; exact G1|exact B].
Qed.

Lemma release_pcidrs_sgeo svcs cs : Forall wf_cidr svcs -> forall c c' r, EntryInv c -> Forall wf_pcidr cs ->
  release_pcidrs svcs c cs = (c', r) -> sgeo c c'.
Proof.
  intros Hs. induction cs as [|pc cs IH]; intros c c' r Ec Hw Erp; cbn in Erp; [inversion Erp; subst; apply sgeo_refl|].
  inversion Hw as [|pc0 l0 Hw1 Hw2]; subst. destruct pc as [|x cn]; [inversion Erp; subst; apply sgeo_refl|].
  destruct (cc_release c x) as [c1|er|] eqn:Er; try (inversion Erp; subst; apply sgeo_refl).
  pose proof (cc_release_inv _ _ _ Ec Hw1 Er) as E1.
  eapply sgeo_trans; [eapply cc_release_sgeo; eassumption|]. eapply sgeo_trans; [apply sgrows_sgeo; apply (proj1 (occupy_services_marks svcs c1 E1 Hs))|].
  eapply IH; [apply occupy_services_inv; assumption|exact Hw2|exact Erp].
Qed.

Lemma release_all_svc svcs node : Forall wf_cidr svcs -> wf_node node ->
  forall ps m0 m2 r2, MapInv m0 -> SInv svcs m0 -> release_all svcs m0 node ps = (m2, r2) -> SInv svcs m2 /\ stabm m0 m2.
Proof.
  intros Hs Hw. induction ps as [|p ps IH]; intros m0 m2 r2 M0 S0 H; cbn in H; [inversion H; subst; split; [exact S0|apply stabm_refl]|].
  destruct (get_entry m0 p) as [c|] eqn:Eg; [|inversion H; subst; split; [exact S0|apply stabm_refl]].
  pose proof (get_entry_inv _ _ _ M0 Eg) as Ec.
  destruct (release_pcidrs svcs c (n_cidrs node)) as [c' rr] eqn:Erp.
  pose proof (release_pcidrs_inv svcs _ Hs _ _ _ Ec Hw Erp) as Ec'.
  pose proof (release_pcidrs_sgeo svcs _ Hs _ _ _ Ec Hw Erp) as Hgeo.
  assert (Hc' : cc_start c' = true -> emarked svcs c' ).
  { intros Hst. destruct (bool_dec (cc_start c) true) as [Hsc|Hsc].
    - exact (proj1 (release_pcidrs_marked svcs _ Hs _ _ _ Ec Hw Erp (S0 c (get_entry_in _ _ _ Eg) Hsc))).
    - exfalso. destruct Hgeo as [[Gs _] _]. congruence. }
  destruct rr as [[]|e|].
  - destruct (IH (set_entry m0 p (del_assoc (n_name node) c')) m2 r2) as [A B].
    + apply set_entry_inv; [exact M0|]. apply del_assoc_inv. exact Ec'.
    + apply sinv_set_entry; [exact S0|]. intros Hst. eapply sgrows_marked; [apply (sgrows_del_assoc (n_name node) c')|exact Hc'|exact Hst].
    + exact H.
    + split; [exact A|]. eapply stabm_trans; [|exact B]. eapply stabm_set_entry; [exact Eg|]. eapply sgeo_trans; [exact Hgeo|apply sgrows_sgeo; apply sgrows_del_assoc].
  - inversion H; subst. split; [apply sinv_set_entry; assumption|eapply stabm_set_entry; eassumption].
  - inversion H; subst. split; [apply sinv_set_entry; assumption|eapply stabm_set_entry; eassumption].
Qed.

Lemma release_cidr_svc svcs m node m' r : MapInv m -> SInv svcs m -> Forall wf_cidr svcs -> wf_node node ->
  release_cidr svcs m node = (m', r) -> SInv svcs m' /\ stabm m m'.
Proof.
  intros M S Hs Hw H. unfold release_cidr in H. destruct (n_cidrs node) eqn:En; [inversion H; subst; split; [exact S|apply stabm_refl]|].
  destruct (assoc_paths m (n_name node)) as [|p0 ps]; [inversion H; subst; split; [exact S|apply stabm_refl]|].
  eapply release_all_svc; eassumption.
Qed.

(* a successful work item that wrote pod CIDRs has associated the node with the entry the blocks were taken from *)
Lemma update_ok_assoc canp apisame m name cs p reread outs m' fx :
  update_cidrs_allocation canp apisame m name cs p reread outs = (m', Ok tt, fx) ->
  (exists o, In (FxPatch name cs o) fx) ->
  exists c, get_entry m p = Some c /\ m' = set_entry m p (add_assoc name c).
Proof.
  unfold update_cidrs_allocation. intros H Hp.
  destruct reread as [n|].
  2:{ destruct (release_in m p cs) as [m1 r1]. inversion H. }
  destruct ((length (n_cidrs n) =? length cs)%nat && same_cidrs (n_cidrs n) cs)%bool.
  { destruct (get_entry m p) as [c|] eqn:Eg; inversion H; subst. destruct Hp as (o & []). }
  destruct (n_cidrs n).
  2:{ destruct (release_in m p cs) as [m1 r1]. inversion H; subst. destruct Hp as (o & []). }
  destruct (patch_loop (canp cs) name cs outs 3) as [ok fxp].
  destruct ok.
  { destruct (get_entry m p) as [c|] eqn:Eg; inversion H; subst. exists c. split; reflexivity. }
  repeat match type of H with
         | context [if ?b then _ else _] => destruct b
         | context [match nth_error ?l ?k with _ => _ end] => destruct (nth_error l k) as [[]|]
         | context [match get_entry m p with _ => _ end] => let Eg := fresh "Eg" in destruct (get_entry m p) as [?c|] eqn:Eg
         | context [let '(_, _) := release_in m p cs in _] => let E := fresh "E" in destruct (release_in m p cs) as [?m1 ?r1] eqn:E
         end; try (inversion H; subst; eexists; split; reflexivity); try (inversion H; fail);
    try (match goal with r1 : res unit |- _ => destruct r1 as [[]|?|]; inversion H end).
Qed.

(* ---------- the node work item ---------- *)
Definition patch_source (svcs : list cidr) (m m' : cidrmap) (r : res unit) (nm : str) (cs : list cidr) : Prop :=
  exists p e, get_entry m p = Some e /\
    (cc_start e = true -> forall x, In x cs -> forall svc, In svc svcs -> ~ overlap x svc) /\
    (r = Ok tt -> exists e', get_entry m' p = Some e' /\ cc_start e' = cc_start e /\ has_str nm (cc_assoc e') = true /\
                   forall x, In x cs -> exists pl, pool_of e' (cf x) = Some pl /\ In x (used pl)).

Theorem sync_node_svc po lab svcs canp apisame held m cached reread outs m' r fx :
  MapInv m -> SInv svcs m -> Forall wf_cidr svcs -> (forall n, cached = Some n -> wf_node n) ->
  sync_node po lab svcs canp apisame held m cached reread outs = (m', r, fx) ->
  SInv svcs m' /\ stabm m m' /\ forall nm cs o, In (FxPatch nm cs o) fx -> patch_source svcs m m' r nm cs.
Proof.
  intros M S Hs Hc H. unfold sync_node in H. destruct cached as [node|]; [|inversion H; subst; split; [exact S|split; [apply stabm_refl|intros nm cs o []]]].
  specialize (Hc node eq_refl).
  destruct (n_deleting node).
  { destruct (release_cidr svcs m node) as [m1 r1] eqn:Er. inversion H; subst.
    destruct (release_cidr_svc svcs m node _ _ M S Hs Hc Er) as [A B]. split; [exact A|split; [exact B|intros nm cs o []]]. }
  unfold allocate_or_occupy in H. destruct (n_cidrs node) as [|c0 cs0] eqn:En.
  2:{ destruct reread.
      - destruct (occupy_cidrs po lab m node) as [m1 r1] eqn:Eo. inversion H; subst.
        split; [eapply rcov_sinv; [eapply occupy_cidrs_rcov; eassumption|exact S]|split; [eapply occupy_cidrs_stab; eassumption|intros nm cs o []]].
      - inversion H; subst. split; [exact S|split; [apply stabm_refl|intros nm cs o []]]. }
  destruct (prioritized_cidrs po lab held m node) as [m1 rp] eqn:Ep.
  assert (Hpt : SInv svcs m1 /\ stabm m m1 /\ MapInv m1 /\
                match rp with Ok (cs, p) => safe_list svcs m1 p cs /\ keys_at m1 p cs /\ Forall wf_cidr cs | _ => True end).
  { unfold prioritized_cidrs in Ep. destruct (ordered_matching po lab m (n_labels node) true) as [ps|e|].
    - destruct (prioritized_try_svc svcs _ _ _ _ _ M S Ep) as (A & B & C).
      destruct (prioritized_try_inv _ _ _ _ _ M Ep) as [M1 W1].
      pose proof (prioritized_try_result _ _ _ _ _ M Ep) as R1.
      split; [exact A|split; [exact B|split; [exact M1|]]]. destruct rp as [[cs p]|e|]; try exact I.
      destruct R1 as (_ & _ & K). split; [exact C|split; [exact K|exact W1]].
    - inversion Ep; subst. split; [exact S|split; [apply stabm_refl|split; [exact M|exact I]]].
    - inversion Ep; subst. split; [exact S|split; [apply stabm_refl|split; [exact M|exact I]]]. }
  destruct Hpt as (S1 & St1 & M1 & Hrp).
  destruct rp as [[cs p]|e|].
  - destruct Hrp as (Hsafe & Hkeys & Hwcs). destruct cs as [|c1 cs1].
    + inversion H; subst. split; [exact S1|]. split; [exact St1|]. intros nm cs o [Ho|[]]. discriminate Ho.
    + destruct (update_cidrs_allocation_svc svcs _ _ _ _ _ _ _ _ _ _ _ M1 S1 Hwcs Hsafe H) as [S' St'].
      split; [exact S'|]. split; [eapply stabm_trans; eassumption|]. intros nm cs o Hin.
      destruct (update_patches_only_unassigned _ _ _ _ _ _ _ _ _ _ _ H _ Hin eq_refl) as [_ (o' & Ho')]. inversion Ho'; subst nm cs o'.
      destruct Hkeys as (e1 & Hg1 & Hk1). destruct (St1 p e1 Hg1) as (e0 & Hg0 & [[Gs Gn] Gp]).
      exists p, e0. split; [exact Hg0|]. split.
      * intros Hst x Hx svc Hsvc. exact (proj2 (Hsafe x Hx e1 Hg1 ltac:(congruence)) svc Hsvc).
      * intros Hr. subst r. destruct (update_ok_assoc _ _ _ _ _ _ _ _ _ _ H (ex_intro _ o Hin)) as (c & Hgc & Hm').
        rewrite Hg1 in Hgc. inversion Hgc; subst c. exists (add_assoc (n_name node) e1).
        split; [rewrite Hm'; eapply get_set_entry_same; exact Hg1|]. split; [cbn; exact Gs|]. split; [apply add_assoc_has|].
        intros x Hx. destruct (Hk1 x Hx) as (pl & Hp & Hu). exists pl. split; [destruct (cf x); exact Hp|exact Hu].
  - inversion H; subst. split; [exact S1|]. split; [exact St1|]. intros nm cs o [Ho|[]]. discriminate Ho.
  - inversion H; subst. split; [exact S1|split; [exact St1|intros nm cs o []]].
Qed.

(* ---------- ClusterCIDR work items: entries are kept, marked terminating, removed, or new and not flagged ---------- *)
Definition origin (m m' : cidrmap) : Prop :=
  forall x, In x (all_entries m') -> In x (all_entries m) \/ (exists c, In c (all_entries m) /\ x = with_term c true) \/ cc_start x = false.
Lemma origin_refl m : origin m m.
Proof. intros x Hx. left. exact Hx. Qed.
Lemma origin_rcov m m' : origin m m' -> rcov m m'.
Proof.
  intros H x Hx. destruct (H x Hx) as [Hin|[(c & Hc & ->)|Hf]].
  - right. exists x. split; [exact Hin|apply sgrows_refl].
  - right. exists c. split; [exact Hc|apply sgrows_with_term].
  - left. exact Hf.
Qed.

Lemma delete_cluster_cidr_origin m o m' r : delete_cluster_cidr m o = (m', r) -> origin m m'.
Proof.
  unfold delete_cluster_cidr. intros H. destruct (o_selkey o) as [k|]; [|inversion H; subst; apply origin_refl].
  destruct (find_key k m) as [l|] eqn:Ef; [|inversion H; subst; apply origin_refl].
  destruct (find_name (o_name o) l 0) as [[i c]|] eqn:En; [|inversion H; subst; apply origin_refl].
  destruct (find_name_spec _ _ _ _ _ En) as (_ & Hn & _). rewrite Nat.sub_0_r in Hn.
  assert (Hc : In c (all_entries m)) by (eapply find_key_in; [exact Ef|eapply nth_error_In; exact Hn]).
  assert (O1 : origin m (set_entry m (k, i) (with_term c true))).
  { intros x Hx. apply in_set_entry in Hx. destruct Hx as [->|Hx]; [right; left; exists c; split; [exact Hc|reflexivity]|left; exact Hx]. }
  destruct (cc_assoc c); [|inversion H; subst; exact O1].
  destruct l as [|c0 [|c1 l']]; [cbn in En; discriminate|..]; inversion H; subst; clear H.
  - intros x Hx. apply all_entries_del_key in Hx. apply O1. exact Hx.
  - intros x Hx. apply all_entries_set_key in Hx. destruct Hx as [Hx|Hx]; [|apply O1; exact Hx].
    apply in_remove_nth in Hx. apply in_set_nth in Hx. destruct Hx as [->|Hx]; [right; left; exists c; split; [exact Hc|reflexivity]|].
    left. eapply find_key_in; eassumption.
Qed.

Lemma remove_deleted_origin m name : origin m (remove_deleted m name).
Proof.
  intros x Hx. unfold remove_deleted, all_entries in Hx. apply in_flat_map in Hx. destruct Hx as ([k l] & Hkl & Hx).
  apply in_flat_map in Hkl. destruct Hkl as ([k0 l0] & Hin0 & Hkl).
  assert (Hl0 : forall y, In y l0 -> In y (all_entries m)).
  { intros y Hy. unfold all_entries. apply in_flat_map. exists (k0, l0). split; assumption. }
  cbn [fst snd] in Hkl.
  assert (Hrd : forall y, In y (remove_deleted_in name l0) -> In y (all_entries m) \/ (exists c, In c (all_entries m) /\ y = with_term c true) \/ cc_start y = false).
  { intros y Hy. unfold remove_deleted_in in Hy. destruct (find_name name l0 0) as [[i c]|] eqn:En; [|left; apply Hl0; exact Hy].
    destruct (find_name_spec _ _ _ _ _ En) as (_ & Hn & _). rewrite Nat.sub_0_r in Hn.
    destruct (cc_assoc c).
    - apply in_remove_nth in Hy. left. apply Hl0. exact Hy.
    - apply in_set_nth in Hy. destruct Hy as [->|Hy]; [right; left; exists c; split; [apply Hl0; eapply nth_error_In; exact Hn|reflexivity]|left; apply Hl0; exact Hy]. }
  destruct (remove_deleted_in name l0) as [|y ys] eqn:Er; [destruct Hkl|].
  destruct Hkl as [E|[]]. inversion E; subst. apply Hrd. exact Hx.
Qed.

Lemma create_set_start o term st c : create_set o term st = Ok c -> cc_start c = st.
Proof.
  unfold create_set. destruct (mk_pool V4 (o_v4 o) (o_hb o)); try discriminate. destruct (mk_pool V6 (o_v6 o) (o_hb o)); try discriminate.
  intros H. inversion H; subst. reflexivity.
Qed.
Lemma in_map_set m k c x : In x (all_entries (map_set m k c)) -> x = c \/ In x (all_entries m).
Proof.
  unfold map_set. destruct (find_key k m) as [l|] eqn:Ef.
  - intros Hx. apply all_entries_set_key in Hx. destruct Hx as [Hx|Hx]; [|right; exact Hx].
    apply in_app_or in Hx. destruct Hx as [Hx|[<-|[]]]; [right; eapply find_key_in; eassumption|left; reflexivity].
  - rewrite all_entries_app. intros Hx. apply in_app_or in Hx. destruct Hx as [Hx|Hx]; [right; exact Hx|].
    unfold all_entries in Hx. cbn in Hx. destruct Hx as [<-|[]]. left. reflexivity.
Qed.
Lemma create_cluster_cidr_origin m o term out m' r fx : create_cluster_cidr m o term false out = (m', r, fx) -> origin m m'.
Proof.
  unfold create_cluster_cidr. intros H.
  destruct (o_selkey o) as [k|]; [|inversion H; subst; apply origin_refl].
  destruct (create_set o term false) as [c|e|] eqn:Ec; try (inversion H; subst; apply origin_refl).
  assert (Hm : origin m (if is_mapped m k (o_name o) then m else map_set m k c)).
  { destruct (is_mapped m k (o_name o)); [apply origin_refl|]. intros x Hx. apply in_map_set in Hx.
    destruct Hx as [->|Hx]; [right; right; eapply create_set_start; exact Ec|left; exact Hx]. }
  destruct (cc_v4 c), (cc_v6 c); try (inversion H; subst; apply origin_refl);
    (destruct (need_finalizer o); [destruct out|]); inversion H; subst; first [exact Hm|apply origin_refl].
Qed.

Theorem sync_cc_svc svcs m key cached out m' r fx : sync_cc m key cached out = (m', r, fx) -> SInv svcs m -> SInv svcs m'.
Proof.
  intros H. apply rcov_sinv. apply origin_rcov. unfold sync_cc in H. destruct cached as [o|]; [|inversion H; subst; apply remove_deleted_origin].
  destruct (o_deleting o).
  - unfold reconcile_delete in H. destruct (delete_cluster_cidr m o) as [m1 r1] eqn:Ed.
    pose proof (delete_cluster_cidr_origin _ _ _ _ Ed) as Hc.
    destruct r1 as [[]|e|]; [destruct (has_str finalizer (o_fins o))|..]; inversion H; subst; exact Hc.
  - unfold reconcile_create in H. destruct (need_finalizer o || negb (is_mapped_obj m o))%bool; [|inversion H; subst; apply origin_refl].
    eapply create_cluster_cidr_origin; exact H.
Qed.

(* ---------- construction: every mapped entry has the service ranges occupied ---------- *)
Definition AllMarked (svcs : list cidr) (m : cidrmap) : Prop := forall e, In e (all_entries m) -> emarked svcs e.

Lemma filter_service_marks m svc svcs0 : MapInv m -> wf_cidr svc -> AllMarked svcs0 m -> AllMarked (svcs0 ++ [svc]) (filter_service m svc).
Proof.
  intros M Hw A x Hx. unfold filter_service, all_entries in Hx. apply in_flat_map in Hx. destruct Hx as ([k l] & Hkl & Hx).
  apply in_map_iff in Hkl. destruct Hkl as ([k0 l0] & E & Hin). cbn [fst snd] in E. injection E as Ek El. subst k l. cbn [snd] in Hx.
  apply in_map_iff in Hx. destruct Hx as (c & <- & Hc).
  assert (Hce : In c (all_entries m)) by (unfold all_entries; apply in_flat_map; exists (k0, l0); split; assumption).
  pose proof (M c Hce) as Ec.
  intros s Hs p Hp. apply in_app_or in Hs. destruct Hs as [Hs|[<-|[]]].
  - destruct (occupy_service_sgrows c svc Ec Hw) as [_ G]. destruct (G _ _ Hp) as (q & Hq & Hg & Hu).
    intros i Hi Ho. rewrite Hg in *. apply Hu. exact (A c Hce s Hs q Hq i Hi Ho).
  - exact (occupy_service_marks c svc Ec Hw p Hp).
Qed.

Theorem construct_svc po lab ccs outs s1 s2 nodes m fx pan :
  Forall good_obj ccs -> Forall wf_node nodes ->
  (forall s, s1 = Some s -> wf_cidr s) -> (forall s, s2 = Some s -> wf_cidr s) ->
  construct po lab ccs outs s1 s2 nodes = (m, fx, pan) -> SInv (svc_list (s1, s2)) m.
Proof.
  unfold construct. intros G Hn H1 H2 H.
  destruct (bootstrap_ccs [] ccs outs) as [m1 fx1] eqn:Eb.
  assert (M0 : MapInv []) by (intros c Hc; cbn in Hc; destruct Hc).
  assert (M1 : MapInv m1) by (eapply bootstrap_ccs_inv; [exact M0|exact G|exact Eb]).
  assert (A1 : AllMarked [] m1) by (intros e _ s []).
  set (m2 := match s1 with Some s => filter_service m1 s | None => m1 end) in *.
  assert (M2 : MapInv m2) by (unfold m2; destruct s1; [apply filter_service_inv; [exact M1|apply H1; reflexivity]|exact M1]).
  assert (A2 : AllMarked (match s1 with Some c => [c] | None => [] end) m2).
  { unfold m2. destruct s1 as [s|]; [|exact A1]. apply (filter_service_marks m1 s [] M1 (H1 s eq_refl) A1). }
  set (m3 := match s2 with Some s => filter_service m2 s | None => m2 end) in *.
  assert (M3 : MapInv m3) by (unfold m3; destruct s2; [apply filter_service_inv; [exact M2|apply H2; reflexivity]|exact M2]).
  assert (A3 : AllMarked (svc_list (s1, s2)) m3).
  { unfold m3, svc_list. cbn [fst snd]. destruct s2 as [s|]; [|rewrite app_nil_r; exact A2]. apply (filter_service_marks m2 s _ M2 (H2 s eq_refl) A2). }
  destruct (occupy_nodes po lab m3 nodes) as [m4 p4] eqn:Eo. inversion H; subst.
  eapply rcov_sinv; [eapply occupy_nodes_rcov; eassumption|]. intros e He _. exact (A3 e He).
Qed.

(* ---------- the closed loop ---------- *)
Definition WS (w : world) : Prop := forall m, w_ctl w = Some m -> SInv (svc_list (w_svc w)) m.

Lemma ws_same w w' : WS w -> w_ctl w' = w_ctl w -> w_svc w' = w_svc w -> WS w'.
Proof. intros H E1 E2 m Em. rewrite E1 in Em. rewrite E2. exact (H m Em). Qed.
Lemma ws_none w : w_ctl w = None -> WS w.
Proof. intros E m Em. rewrite E in Em. discriminate. Qed.

Lemma apply_effects_cs fx : forall w, w_ctl (apply_effects w fx) = w_ctl w /\ w_svc (apply_effects w fx) = w_svc w.
Proof.
  induction fx as [|e fx IH]; intros w; [split; reflexivity|]. destruct e as [nd cs po|? ?|? ?|o' out|? ?]; cbn [apply_effects]; try apply IH.
  - destruct (IH (apply_patch w nd cs po)) as [A B]. rewrite A, B. unfold apply_patch.
    destruct po; try (split; reflexivity); destruct (find_anode nd (w_nodes w)) as [a|]; try (split; reflexivity); destruct (an_cidrs a); split; reflexivity.
  - destruct (IH (apply_update_cc w o' out)) as [A B]. rewrite A, B. unfold apply_update_cc.
    destruct out; try (split; reflexivity); destruct (find_cc (o_name o') (w_ccs w)) as [c|]; try (split; reflexivity);
      destruct (negb (o_rv c =? o_rv o')); try (split; reflexivity); match goal with |- context [if ?b then _ else _] => destruct b end; split; reflexivity.
  - match goal with |- context [apply_create_cc w ?x ?y] => destruct (IH (apply_create_cc w x y)) as [A B]; rewrite A, B;
      destruct (apply_create_cc_frame w x y) as (_ & _ & _ & H1 & _ & _ & _ & _ & _ & _ & H2 & _) end. split; assumption.
Qed.
Lemma ws_apply_effects w fx : WS w -> WS (apply_effects w fx).
Proof. intros H. destruct (apply_effects_cs fx w) as [A B]. exact (ws_same w _ H A B). Qed.

Lemma ws_after_call {A} w (r : res A) m' : SInv (svc_list (w_svc w)) m' -> WS (after_call w r m').
Proof.
  intros S. unfold after_call. destruct r; try (apply ws_none; reflexivity); intros m Em; cbn in *; inversion Em; subst; exact S.
Qed.

Section WorldSvc.
  Variable po : parse_oracle.
  Variable lab : label_oracle.

  Lemma run_node_sync_ws w cached key outs :
    WInv w -> WS w -> (forall n, cached = Some n -> wf_node n) -> WS (fst (run_node_sync po lab w cached key outs)).
  Proof.
    intros I S Hc. unfold run_node_sync. destruct (w_ctl w) as [m|] eqn:Em; [|exact S].
    destruct (sync_node po lab (svc_list (w_svc w)) (can_patch w key) (api_same w key) (held_cidrs (w_ncache w)) m cached (find_node key (w_ncache w)) outs)
      as [[m' r] fx] eqn:Es.
    cbn [fst]. apply ws_apply_effects. apply ws_after_call.
    exact (proj1 (sync_node_svc _ _ _ _ _ _ _ _ _ _ _ _ _ (wi_ctl w I m Em) (S m Em) (wi_svc w I) Hc Es)).
  Qed.

  Lemma run_cc_sync_ws w key cached out : WS w -> WS (fst (run_cc_sync w key cached out)).
  Proof.
    intros S. unfold run_cc_sync. destruct (w_ctl w) as [m|] eqn:Em; [|exact S].
    match goal with |- context [sync_cc m key cached ?o] => destruct (sync_cc m key cached o) as [[m' r] fx] eqn:Es end.
    cbn [fst]. apply ws_apply_effects.
    assert (A : WS (after_call w r m')) by (apply ws_after_call; eapply sync_cc_svc; [exact Es|exact (S m Em)]).
    destruct cached as [o|]; [|exact A]. match goal with |- context [if ?b then _ else _] => destruct b end; [|exact A].
    apply (ws_same (after_call w r m')); [exact A|reflexivity|reflexivity].
  Qed.

  Lemma handle_nevent_ws w e : WInv w -> WS w -> wf_node (nev_node e) -> WS (fst (handle_nevent w e)).
  Proof.
    intros I S He. unfold handle_nevent. destruct e as [n|n|n]; cbn [nev_node] in He.
    - cbn [set_caches w_ctl]. destruct (w_ctl w) eqn:Em; cbn [fst]; apply (ws_same w); try exact S; cbn; try reflexivity; exact Em.
    - cbn [set_caches w_ctl]. destruct (w_ctl w) eqn:Em; cbn [fst]; apply (ws_same w); try exact S; cbn; try reflexivity; exact Em.
    - cbn [set_caches w_ctl w_svc]. destruct (w_ctl w) as [m|] eqn:Em.
      + destruct (release_cidr (svc_list (w_svc w)) m n) as [m' r] eqn:Er.
        pose proof (proj1 (release_cidr_svc _ m n m' r (wi_ctl w I m Em) (S m Em) (wi_svc w I) He Er)) as S'.
        destruct r; cbn [fst]; try (apply ws_none; reflexivity); intros m0 E0; cbn in *; inversion E0; subst; exact S'.
      + cbn [fst]. apply ws_none. cbn. exact Em.
  Qed.

  Lemma deliver_all_n_ws es : forall w acc, WInv w -> WS w -> Forall (fun e => wf_node (nev_node e)) es -> WS (fst (deliver_all_n w es acc)).
  Proof.
    induction es as [|e es IH]; intros w acc I S H; cbn [deliver_all_n]; [exact S|].
    inversion H as [|e0 l0 He Hes]; subst.
    pose proof (handle_nevent_ws w e I S He) as S1. pose proof (handle_nevent_winv w e I He) as I1.
    destruct (handle_nevent w e) as [w1 ob]. cbn [fst] in *. destruct (ob_res ob =? 3); [exact S1|]. apply IH; assumption.
  Qed.

  Lemma handle_cevent_cs w e : w_ctl (fst (handle_cevent w e)) = w_ctl w /\ w_svc (fst (handle_cevent w e)) = w_svc w.
  Proof. unfold handle_cevent. destruct e; cbn; destruct (w_ctl w) eqn:E; cbn; rewrite ?E; split; reflexivity. Qed.
  Lemma deliver_all_c_cs es : forall w, w_ctl (deliver_all_c w es) = w_ctl w /\ w_svc (deliver_all_c w es) = w_svc w.
  Proof.
    induction es as [|e es IH]; intros w; cbn [deliver_all_c]; [split; reflexivity|].
    destruct (IH (fst (handle_cevent w e))) as [A B]. destruct (handle_cevent_cs w e) as [A' B']. split; congruence.
  Qed.

  Theorem step_ws w o : WInv w -> wf_op o -> WS w -> WS (fst (step po lab w o)).
  Proof.
    intros I Ho S. destruct o; cbn [step wf_op] in *.
    - destruct (find_anode name (w_nodes w)); [exact S|]. apply (ws_same w); [exact S|reflexivity|reflexivity].
    - destruct (find_anode name (w_nodes w)); [|exact S]. apply (ws_same w); [exact S|reflexivity|reflexivity].
    - destruct (find_anode name (w_nodes w)); [|exact S]. apply (ws_same w); [exact S|reflexivity|reflexivity].
    - destruct (find_anode name (w_nodes w)); [|exact S]. apply (ws_same w); [exact S|reflexivity|reflexivity].
    - destruct (find_cc (o_name o) (w_ccs w)); [exact S|]. apply (ws_same w); [exact S|reflexivity|reflexivity].
    - destruct (find_cc name (w_ccs w)) as [c|]; [|exact S]. destruct (o_fins c); [apply (ws_same w); [exact S|reflexivity|reflexivity]|].
      destruct (o_deleting c); [exact S|apply (ws_same w); [exact S|reflexivity|reflexivity]].
    - destruct (find_cc name (w_ccs w)) as [c|]; [|exact S].
      match goal with |- context [if ?b then _ else _] => destruct b end; apply (ws_same w); try reflexivity; exact S.
    - (* DeliverNode *)
      destruct (w_nfeed w) as [|e rest] eqn:Ef; [exact S|].
      pose proof (wi_nfeed w I) as Hf. rewrite Ef in Hf. inversion Hf; subst.
      apply handle_nevent_ws; [|apply (ws_same w); [exact S|reflexivity|reflexivity]|assumption].
      pose proof (step_winv po lab w DeliverNode I Logic.I) as W'. destruct I as [a1 b1 c1 d1 e1 f1 g1 h1 i1 j1]. constructor; cbn; try assumption.
    - (* DeliverNodeTombstone *)
      destruct (w_nfeed w) as [|[n|n|n] rest] eqn:Ef; try exact S.
      pose proof (wi_nfeed w I) as Hf. rewrite Ef in Hf. inversion Hf; subst.
      apply handle_nevent_ws.
      + destruct I as [a1 b1 c1 d1 e1 f1 g1 h1 i1 j1]. constructor; cbn; try assumption.
      + apply (ws_same w); [exact S|reflexivity|reflexivity].
      + cbn [nev_node]. destruct (find_node (n_name n) (w_ncache w)) as [c|] eqn:En; [eapply cached_node_wf; eassumption|assumption].
    - (* DeliverCC *)
      destruct (w_cfeed w) as [|e rest]; [exact S|].
      match goal with |- WS (fst (handle_cevent ?w0 e)) => destruct (handle_cevent_cs w0 e) as [A B] end.
      apply (ws_same w); [exact S|rewrite A; reflexivity|rewrite B; reflexivity].
    - destruct (w_ctl w) eqn:Em; [|exact S]. apply (ws_same w); [exact S|reflexivity|reflexivity].
    - destruct (w_ctl w) eqn:Em; [|exact S]. apply (ws_same w); [exact S|reflexivity|reflexivity].
    - (* RelistNodes *)
      destruct (w_synced w); [|exact S]. apply deliver_all_n_ws; [| |apply relist_nevents_wf; exact I].
      + destruct I as [a1 b1 c1 d1 e1 f1 g1 h1 i1 j1]. constructor; cbn; try assumption. constructor.
      + apply (ws_same w); [exact S|reflexivity|reflexivity].
    - (* RelistCCs *)
      destruct (w_synced w); [|exact S]. cbn [fst].
      match goal with |- WS (deliver_all_c ?w0 ?es) => destruct (deliver_all_c_cs es w0) as [A B] end.
      apply (ws_same w); [exact S|rewrite A; reflexivity|rewrite B; reflexivity].
    - apply (ws_same w); [exact S|reflexivity|reflexivity].
    - (* RunNode *)
      destruct (find (fun x => fst x =? w0) (w_nfetch w)) as [[wk [key cached]]|] eqn:Ef; [|exact S].
      apply run_node_sync_ws.
      + destruct I as [a1 b1 c1 d1 e1 f1 g1 h1 i1 j1]. constructor; cbn; try assumption.
        intros wk' k n Hin. apply filter_In in Hin. destruct Hin as [Hin _]. eapply g1. exact Hin.
      + apply (ws_same w); [exact S|reflexivity|reflexivity].
      + intros n E. subst cached. apply find_some in Ef. destruct Ef as [Hin _]. eapply (wi_nfetch w I). exact Hin.
    - apply (ws_same w); [exact S|reflexivity|reflexivity].
    - (* RunCC *)
      destruct (find (fun x => fst x =? w0) (w_cfetch w)) as [[wk [key cached]]|]; [|exact S].
      apply run_cc_sync_ws. apply (ws_same w); [exact S|reflexivity|reflexivity].
    - (* ProcNode *)
      destruct (w_ctl w) as [m|] eqn:Em; [|exact S]. destruct (q_ready (w_nq w)) as [|key rest]; [exact S|].
      match goal with |- context [run_node_sync po lab ?w1 ?c ?k ?o] =>
        assert (S2 : WS (fst (run_node_sync po lab w1 c k o)));
          [|destruct (run_node_sync po lab w1 c k o) as [w2 ob2]] end.
      { apply run_node_sync_ws; [apply set_queues_winv; exact I|apply (ws_same w); [exact S|reflexivity|reflexivity]|].
        cbn [set_queues w_ncache]. intros n E. eapply cached_node_wf; eassumption. }
      cbn [fst] in S2. destruct (ob_res ob2 =? 2); cbn [fst]; [apply (ws_same w2); [exact S2|reflexivity|reflexivity]|exact S2].
    - (* ProcCC *)
      destruct (w_ctl w) as [m|] eqn:Em; [|exact S]. destruct (q_ready (w_cq w)) as [|key rest]; [exact S|].
      match goal with |- context [run_cc_sync ?w1 ?k ?c ?o] =>
        assert (S2 : WS (fst (run_cc_sync w1 k c o)));
          [|destruct (run_cc_sync w1 k c o) as [w2 ob2]] end.
      { apply run_cc_sync_ws. apply (ws_same w); [exact S|reflexivity|reflexivity]. }
      cbn [fst] in S2. destruct (ob_res ob2 =? 2); cbn [fst]; [apply (ws_same w2); [exact S2|reflexivity|reflexivity]|exact S2].
    - apply (ws_same w); [exact S|reflexivity|reflexivity].
    - apply ws_none. reflexivity.
    - (* Construct *)
      destruct (w_ctl w) as [m0|] eqn:Em; [exact S|].
      destruct (construct po lab (with_default dp (w_ccs w)) outs svc1 svc2 (map node_view (w_nodes w))) as [[m fx] pan] eqn:Ec.
      cbn [fst]. destruct Ho as (H1 & H2 & Hdp). apply ws_apply_effects.
      assert (Hgood : Forall good_obj (with_default dp (w_ccs w))) by (apply with_default_good; [exact Hdp|exact (wi_ccs w I)]).
      intros m1 E. cbn in E. destruct pan; [discriminate|]. inversion E; subst m1. cbn [w_svc].
      eapply construct_svc; [exact Hgood| |exact H1|exact H2|exact Ec].
      rewrite Forall_forall. intros n Hn. apply in_map_iff in Hn. destruct Hn as (a & <- & Ha). apply wf_node_view. eapply in_anodes_wf; eassumption.
    - (* StartInformers *)
      destruct (w_ctl w) as [m|] eqn:Em; [|exact S]. destruct (w_synced w); [exact S|]. apply (ws_same w); [exact S|cbn; symmetry; exact Em|reflexivity].
  Qed.

  Theorem run_ws ops : forall w, WInv w -> WS w -> Forall wf_op ops -> WS (run po lab w ops).
  Proof.
    induction ops as [|o ops IH]; intros w I S H; [exact S|]. inversion H; subst. unfold run. cbn [fold_left].
    apply IH; [apply step_winv; assumption|apply step_ws; assumption|assumption].
  Qed.

  Definition served_ok (w w' : world) (nm : str) (cs : list cidr) : Prop :=
    exists m m' r, w_ctl w = Some m /\ (r <> Panic -> w_ctl w' = Some m') /\ patch_source (svc_list (w_svc w)) m m' r nm cs.

  Lemma run_node_sync_patch_source w cached key outs w' ob :
    WInv w -> WS w -> (forall n, cached = Some n -> wf_node n) -> run_node_sync po lab w cached key outs = (w', ob) ->
    forall nm cs out, In (FxPatch nm cs out) (ob_fx ob) -> served_ok w w' nm cs.
  Proof.
    intros I S Hc H nm cs out He. unfold run_node_sync in H. destruct (w_ctl w) as [m|] eqn:Em; [|inversion H; subst; destruct He].
    destruct (sync_node po lab (svc_list (w_svc w)) (can_patch w key) (api_same w key) (held_cidrs (w_ncache w)) m cached (find_node key (w_ncache w)) outs)
      as [[m' r] fx] eqn:Es.
    inversion H; subst. cbn [ob_fx] in He.
    destruct (sync_node_svc _ _ _ _ _ _ _ _ _ _ _ _ _ (wi_ctl w I m Em) (S m Em) (wi_svc w I) Hc Es) as (_ & _ & Hp).
    exists m, m', r. split; [exact Em|]. split; [|exact (Hp nm cs out He)].
    intros Hnp. rewrite (proj1 (apply_effects_cs fx _)). unfold after_call. destruct r; [reflexivity|reflexivity|contradiction].
  Qed.

  Theorem step_patch_source w o w' ob :
    WInv w -> WS w -> step po lab w o = (w', ob) ->
    forall nm cs out, In (FxPatch nm cs out) (ob_fx ob) -> served_ok w w' nm cs.
  Proof.
    intros I S H nm cs out He.
    destruct o; cbn [step] in H;
      try (repeat match type of H with
                  | context [match ?x with _ => _ end] => destruct x
                  end; inversion H; subst; destruct He; fail).
    - destruct (w_nfeed w) as [|e rest]; [inversion H; subst; destruct He|].
      pose proof (handle_nevent_fx (set_caches w (w_ncache w) (w_ccache w) rest (w_cfeed w)) e) as Hf. rewrite H in Hf. cbn [snd] in Hf. rewrite Hf in He. destruct He.
    - destruct (w_nfeed w) as [|[n|n|n] rest]; try (inversion H; subst; destruct He; fail).
      match type of H with handle_nevent ?a ?b = _ => pose proof (handle_nevent_fx a b) as Hf end. rewrite H in Hf. cbn [snd] in Hf. rewrite Hf in He. destruct He.
    - destruct (w_cfeed w) as [|e rest]; [inversion H; subst; destruct He|].
      unfold handle_cevent in H. destruct e;
        repeat match type of H with
               | context [match ?x with _ => _ end] => destruct x
               end; inversion H; subst; destruct He.
    - rewrite (relist_nodes_fx _ _ _ _ _ H) in He || rewrite (relist_nodes_fx _ _ _ _ H) in He || rewrite (relist_nodes_fx _ _ _ H) in He. destruct He.
    - destruct (find (fun x => fst x =? w0) (w_nfetch w)) as [[wk [key cached]]|] eqn:Ef; [|inversion H; subst; destruct He].
      match type of H with run_node_sync po lab ?w1 _ _ _ = _ => assert (A : served_ok w1 w' nm cs) end.
      { eapply run_node_sync_patch_source; [| | |exact H|exact He].
        - destruct I as [a1 b1 c1 d1 e1 f1 g1 h1 i1 j1]. constructor; cbn; try assumption.
          intros wk' k n Hin. apply filter_In in Hin. destruct Hin as [Hin _]. eapply g1. exact Hin.
        - apply (ws_same w); [exact S|reflexivity|reflexivity].
        - intros n E. subst cached. apply find_some in Ef. destruct Ef as [Hin _]. eapply (wi_nfetch w I). exact Hin. }
      exact A.
    - destruct (find (fun x => fst x =? w0) (w_cfetch w)) as [[wk [key cached]]|]; [|inversion H; subst; destruct He].
      pose proof (run_cc_sync_no_patch _ _ _ _ _ _ H _ He) as Hp. discriminate Hp.
    - destruct (w_ctl w) as [m|] eqn:Em; [|inversion H; subst; destruct He].
      destruct (q_ready (w_nq w)) as [|key rest]; [inversion H; subst; destruct He|].
      match type of H with context [run_node_sync po lab ?w1 ?c ?k ?o] =>
        destruct (run_node_sync po lab w1 c k o) as [w2 ob2] eqn:Er end.
      assert (He2 : In (FxPatch nm cs out) (ob_fx ob2)).
      { destruct (ob_res ob2 =? 2); inversion H; subst; exact He. }
      match type of Er with run_node_sync po lab ?w1 _ _ _ = _ => assert (A : served_ok w1 w2 nm cs) end.
      { eapply run_node_sync_patch_source; [| | |exact Er|exact He2].
        - apply set_queues_winv. exact I.
        - apply (ws_same w); [exact S|reflexivity|reflexivity].
        - cbn [set_queues w_ncache]. intros n E. eapply cached_node_wf; eassumption. }
      destruct A as (m1 & m' & r & A1 & A2 & A3). exists m1, m', r. split; [exact A1|]. split; [|exact A3].
      intros Hnp. destruct (ob_res ob2 =? 2); inversion H; subst; cbn; exact (A2 Hnp).
    - destruct (w_ctl w) as [m|]; [|inversion H; subst; destruct He].
      destruct (q_ready (w_cq w)) as [|key rest]; [inversion H; subst; destruct He|].
      match type of H with context [run_cc_sync ?w1 ?k ?c ?o] =>
        destruct (run_cc_sync w1 k c o) as [w2 ob2] eqn:Er end.
      assert (He2 : In (FxPatch nm cs out) (ob_fx ob2)).
      { destruct (ob_res ob2 =? 2); inversion H; subst; exact He. }
      pose proof (run_cc_sync_no_patch _ _ _ _ _ _ Er _ He2) as Hp. discriminate Hp.
    - destruct (w_ctl w) as [m|]; [inversion H; subst; destruct He|].
      unfold construct in H.
      destruct (bootstrap_ccs [] (with_default dp (w_ccs w)) outs) as [m1 fx] eqn:Eb.
      match type of H with context [occupy_nodes po lab ?m3 ?ns] => destruct (occupy_nodes po lab m3 ns) as [m4 pan] end.
      inversion H; subst. cbn [ob_fx] in He.
      pose proof (bootstrap_no_patch _ _ _ _ _ Eb _ He) as Hp. discriminate Hp.
  Qed.

  (* C09 over histories: in every step of every history of well-formed operations, the pod CIDRs of a PATCH were taken
     from an entry of the controller's state; if that entry was mapped by the constructor (its ClusterCIDR was known at
     start-up) none of them overlaps a service range of the running incarnation; and when the work item succeeds the node
     is associated with that very entry, which holds the CIDRs *)
  Theorem history_patches_avoid_service_ranges ops o w' ob : Forall wf_op ops ->
    step po lab (run po lab init_world ops) o = (w', ob) ->
    forall nm cs out, In (FxPatch nm cs out) (ob_fx ob) -> served_ok (run po lab init_world ops) w' nm cs.
  Proof.
    intros H. apply step_patch_source; [apply run_winv; [apply winv_init|exact H]|apply run_ws; [apply winv_init|apply ws_none; reflexivity|exact H]].
  Qed.

  (* the invariant itself, in every reachable world *)
  Theorem service_marks_in_every_history ops : Forall wf_op ops -> WS (run po lab init_world ops).
  Proof. intros H. apply run_ws; [apply winv_init|apply ws_none; reflexivity|exact H]. Qed.
End WorldSvc.
