(* Term_proofs.v -- C06, temporal half: nothing is ever allocated from an entry that is marked terminating.
   The entries offered to an allocation (ordered_matching with occ = true) exclude terminating ones, with or without
   selector; the pod CIDRs of every PATCH of every history are taken from one of the offered entries; a work item for a
   ClusterCIDR whose deletion was requested marks the entry terminating before anything else; node work items never
   clear the mark. *)
From NIPAM Require Import Sys Geom_proofs Pool_proofs Prio_proofs Alloc_proofs Inv_proofs Sys_proofs World_proofs Complete_proofs Resv_proofs Path_proofs NoPanic_proofs Svc_proofs.
From Coq Require Import Lia Permutation.
Open Scope N_scope.

(* ---------- what is offered to an allocation ---------- *)
Lemma collect_items_live po lab ls m0 : KU m0 -> forall m items,
  (forall kl, In kl m -> In kl m0) -> collect_items po lab ls true m = Some items ->
  forall it, In it items -> exists c, get_entry m0 (snd it) = Some c /\ cc_term c = false.
Proof.
  intros HK. induction m as [|[k ents] m IH]; intros items Hsub H it Hit; cbn [collect_items] in H; [inversion H; subst; destruct Hit|].
  destruct (po k) as [rs|]; [|discriminate]. destruct (match_reqs ls rs) as [ok cnt].
  destruct (collect_items po lab ls true m) as [rest|] eqn:Er; [|discriminate].
  assert (Hrest : forall it0, In it0 rest -> exists c, get_entry m0 (snd it0) = Some c /\ cc_term c = false)
    by (intros it0 H0; eapply IH; [intros kl Hkl; apply Hsub; right; exact Hkl|reflexivity|exact H0]).
  destruct ok; inversion H; subst; [|apply Hrest; exact Hit].
  apply in_app_or in Hit. destruct Hit as [Hit|Hit]; [|apply Hrest; exact Hit].
  apply in_map_iff in Hit. destruct Hit as ([i c] & <- & Hic). apply filter_In in Hic. destruct Hic as [Hic Hf].
  destruct (enum_from_nth _ _ _ _ Hic) as [_ Hn]. rewrite Nat.sub_0_r in Hn. cbn [snd fst] in *.
  exists c. split.
  - unfold get_entry. cbn [fst snd]. rewrite (find_key_in_KU k ents m0 HK (Hsub _ (or_introl eq_refl))). exact Hn.
  - destruct (cc_term c); [discriminate Hf|reflexivity].
Qed.

Theorem ordered_matching_live po lab m ls ps : KU m -> ordered_matching po lab m ls true = Ok ps ->
  forall q, In q ps -> exists c, get_entry m q = Some c /\ cc_term c = false.
Proof.
  intros HK H. unfold ordered_matching in H. destruct (collect_items po lab ls true m) as [items|] eqn:Ec; [|discriminate].
  destruct (forallb (fun it => has_pool (fst it)) items); [|discriminate]. inversion H; subst. clear H.
  intros q Hq. apply in_app_or in Hq. destruct Hq as [Hq|Hq].
  - apply in_map_iff in Hq. destruct Hq as (it & <- & Hit).
    apply (Permutation_in _ (Permutation_sym (sort_perm _ _))) in Hit.
    eapply collect_items_live; [exact HK|intros kl Hkl; exact Hkl|exact Ec|exact Hit].
  - destruct (find_key default_key m) as [ents|] eqn:Ef; [|destruct Hq].
    apply in_map_iff in Hq. destruct Hq as ([i c] & <- & Hic). apply filter_In in Hic. destruct Hic as [Hic Hf].
    destruct (enum_from_nth _ _ _ _ Hic) as [_ Hn]. rewrite Nat.sub_0_r in Hn. cbn [fst snd] in *.
    exists c. split; [unfold get_entry; cbn [fst snd]; rewrite Ef; exact Hn|destruct (cc_term c); [discriminate Hf|reflexivity]].
Qed.

Lemma prioritized_try_path held ps : forall m m' cs p, prioritized_try held m ps = (m', Ok (cs, p)) -> In p ps.
Proof.
  induction ps as [|p0 ps IH]; intros m m' cs p H; cbn in H; [discriminate|].
  destruct (get_entry m p0) as [c|]; [|discriminate].
  destruct (cc_v4 c) as [p4|].
  - destruct (allocate_cidr held m p0 V4) as [m1 r4]. destruct r4 as [x4|e4|]; [|right; eapply IH; exact H|discriminate].
    destruct (cc_v6 c) as [p6|].
    + destruct (allocate_cidr held m1 p0 V6) as [m2 r6]. destruct r6 as [x6|e6|]; [inversion H; subst; left; reflexivity|right; eapply IH; exact H|discriminate].
    + inversion H; subst. left. reflexivity.
  - destruct (cc_v6 c) as [p6|].
    + destruct (allocate_cidr held m p0 V6) as [m2 r6]. destruct r6 as [x6|e6|]; [inversion H; subst; left; reflexivity|right; eapply IH; exact H|discriminate].
    + inversion H; subst. left. reflexivity.
Qed.

(* ---------- the node work item ---------- *)
Definition patch_live (m m' : cidrmap) (r : res unit) (nm : str) (cs : list cidr) : Prop :=
  exists p e, get_entry m p = Some e /\ cc_term e = false /\
    (r = Ok tt -> exists e', get_entry m' p = Some e' /\ has_str nm (cc_assoc e') = true /\
                   forall x, In x cs -> exists pl, pool_of e' (cf x) = Some pl /\ In x (used pl)).

Theorem sync_node_live po lab svcs canp apisame held m cached reread outs m' r fx :
  MapInv m -> KU m ->
  sync_node po lab svcs canp apisame held m cached reread outs = (m', r, fx) ->
  forall nm cs o, In (FxPatch nm cs o) fx -> patch_live m m' r nm cs.
Proof.
  intros M HK H nm cs o Hin. unfold sync_node in H. destruct cached as [node|]; [|inversion H; subst; destruct Hin].
  destruct (n_deleting node).
  { destruct (release_cidr svcs m node) as [m1 r1]. inversion H; subst. destruct Hin. }
  unfold allocate_or_occupy in H. destruct (n_cidrs node) as [|c0 cs0] eqn:En.
  2:{ destruct reread; [destruct (occupy_cidrs po lab m node) as [m1 r1]|]; inversion H; subst; destruct Hin. }
  destruct (prioritized_cidrs po lab held m node) as [m1 rp] eqn:Ep.
  destruct rp as [[cs1 p]|e|].
  - destruct cs1 as [|c1 cs1'].
    + inversion H; subst. destruct Hin as [Ho|[]]. discriminate Ho.
    + destruct (update_patches_only_unassigned _ _ _ _ _ _ _ _ _ _ _ H _ Hin eq_refl) as [_ (o' & Ho')]. inversion Ho'; subst nm cs o'.
      unfold prioritized_cidrs in Ep. destruct (ordered_matching po lab m (n_labels node) true) as [ps|e|] eqn:Eo; try discriminate.
      pose proof (prioritized_try_path _ _ _ _ _ _ Ep) as Hp.
      destruct (ordered_matching_live _ _ _ _ _ HK Eo p Hp) as (e & Hge & Hte).
      pose proof (prioritized_try_result _ _ _ _ _ M Ep) as (_ & _ & (e1 & Hg1 & Hk1)).
      exists p, e. split; [exact Hge|]. split; [exact Hte|].
      intros Hr. subst r. destruct (update_ok_assoc _ _ _ _ _ _ _ _ _ _ H (ex_intro _ o Hin)) as (c & Hgc & Hm').
      rewrite Hg1 in Hgc. inversion Hgc; subst c. exists (add_assoc (n_name node) e1).
      split; [rewrite Hm'; eapply get_set_entry_same; exact Hg1|]. split; [apply add_assoc_has|].
      intros x Hx. destruct (Hk1 x Hx) as (pl & Hpl & Hu). exists pl. split; [destruct (cf x); exact Hpl|exact Hu].
  - inversion H; subst. destruct Hin as [Ho|[]]. discriminate Ho.
  - inversion H; subst. destruct Hin.
Qed.

(* ---------- the closed loop ---------- *)
Section WorldTerm.
  Variable po : parse_oracle.
  Variable lab : label_oracle.

  (* every PATCH of a step is a PATCH of one node work item run on (a world with the controller state of) the world the
     step started from *)
  Lemma step_patch_is_node_item w o w' ob :
    WInv w -> step po lab w o = (w', ob) ->
    forall nm cs out, In (FxPatch nm cs out) (ob_fx ob) ->
    exists w1 cached key outs w2 ob2,
      WInv w1 /\ w_ctl w1 = w_ctl w /\ w_svc w1 = w_svc w /\ w_ncache w1 = w_ncache w /\ (forall n, cached = Some n -> wf_node n) /\
      run_node_sync po lab w1 cached key outs = (w2, ob2) /\ In (FxPatch nm cs out) (ob_fx ob2) /\ w_ctl w' = w_ctl w2.
  Proof.
    intros I H nm cs out He.
    destruct o; cbn [step] in H;
      try (repeat match type of H with
                  | context [match ?x with _ => _ end] => destruct x
                  end; inversion H; subst; destruct He; fail).
    - destruct (w_nfeed w) as [|e rest]; [inversion H; subst; destruct He|].
      pose proof (handle_nevent_fx (set_caches w (w_ncache w) (w_ccache w) rest (w_cfeed w)) e) as Hf. rewrite H in Hf. cbn [snd] in Hf. rewrite Hf in He. destruct He.
    - destruct (w_nfeed w) as [|[n|n|n] rest]; try (inversion H; subst; destruct He; fail).
      match type of H with handle_nevent ?a ?b = _ => pose proof (handle_nevent_fx a b) as Hf end. rewrite H in Hf. cbn [snd] in Hf. rewrite Hf in He. destruct He.
    - destruct (w_cfeed w) as [|e rest]; [inversion H; subst; destruct He|].
      unfold handle_cevent in H. destruct e;
        repeat match type of H with
               | context [match ?x with _ => _ end] => destruct x
               end; inversion H; subst; destruct He.
    - rewrite (relist_nodes_fx _ _ _ H) in He. destruct He.
    - destruct (find (fun x => fst x =? w0) (w_nfetch w)) as [[wk [key cached]]|] eqn:Ef; [|inversion H; subst; destruct He].
      match type of H with run_node_sync po lab ?w1 ?c ?k ?os = _ => exists w1, c, k, os, w', ob end.
      split.
      { destruct I as [a1 b1 c1 d1 e1 f1 g1 h1 i1 j1]. constructor; cbn; try assumption.
        intros wk' k n Hin. apply filter_In in Hin. destruct Hin as [Hin _]. eapply g1. exact Hin. }
      split; [reflexivity|]. split; [reflexivity|]. split; [reflexivity|]. split.
      { intros n E. subst cached. apply find_some in Ef. destruct Ef as [Hin _]. eapply (wi_nfetch w I). exact Hin. }
      split; [exact H|]. split; [exact He|reflexivity].
    - destruct (find (fun x => fst x =? w0) (w_cfetch w)) as [[wk [key cached]]|]; [|inversion H; subst; destruct He].
      pose proof (run_cc_sync_no_patch _ _ _ _ _ _ H _ He) as Hp. discriminate Hp.
    - destruct (w_ctl w) as [m|] eqn:Em; [|inversion H; subst; destruct He].
      destruct (q_ready (w_nq w)) as [|key rest]; [inversion H; subst; destruct He|].
      match type of H with context [run_node_sync po lab ?w1 ?c ?k ?os] =>
        destruct (run_node_sync po lab w1 c k os) as [w2 ob2] eqn:Er; exists w1, c, k, os, w2, ob2 end.
      assert (He2 : In (FxPatch nm cs out) (ob_fx ob2)).
      { destruct (ob_res ob2 =? 2); inversion H; subst; exact He. }
      split; [apply set_queues_winv; exact I|]. split; [cbn; exact Em|]. split; [reflexivity|]. split; [reflexivity|]. split.
      { cbn [set_queues w_ncache]. intros n E. eapply cached_node_wf; eassumption. }
      split; [exact Er|]. split; [exact He2|]. destruct (ob_res ob2 =? 2); inversion H; subst; reflexivity.
    - destruct (w_ctl w) as [m|]; [|inversion H; subst; destruct He].
      destruct (q_ready (w_cq w)) as [|key rest]; [inversion H; subst; destruct He|].
      match type of H with context [run_cc_sync ?w1 ?k ?c ?o] =>
        destruct (run_cc_sync w1 k c o) as [w2 ob2] eqn:Er end.
      assert (He2 : In (FxPatch nm cs out) (ob_fx ob2)).
      { destruct (ob_res ob2 =? 2); inversion H; subst; exact He. }
      pose proof (run_cc_sync_no_patch _ _ _ _ _ _ Er _ He2) as Hp. discriminate Hp.
    - destruct (w_ctl w) as [m|]; [inversion H; subst; destruct He|].
      unfold construct in H.
      destruct (bootstrap_ccs [] (with_default dp (w_ccs w)) outs) as [m1 fx] eqn:Eb.
      match type of H with context [occupy_nodes po lab ?m3 ?ns] => destruct (occupy_nodes po lab m3 ns) as [m4 pan] end.
      inversion H; subst. cbn [ob_fx] in He.
      pose proof (bootstrap_no_patch _ _ _ _ _ Eb _ He) as Hp. discriminate Hp.
  Qed.

  Definition live_ok (w w' : world) (nm : str) (cs : list cidr) : Prop :=
    exists m m' r, w_ctl w = Some m /\ (r <> Panic -> w_ctl w' = Some m') /\ patch_live m m' r nm cs.

  Theorem step_patch_live w o w' ob :
    WInv w -> WK w -> step po lab w o = (w', ob) ->
    forall nm cs out, In (FxPatch nm cs out) (ob_fx ob) -> live_ok w w' nm cs.
  Proof.
    intros I K H nm cs out He.
    destruct (step_patch_is_node_item w o w' ob I H nm cs out He) as (w1 & cached & key & outs & w2 & ob2 & I1 & Ec & Es & Ecache & Hc & Hr & He2 & Ew).
    unfold run_node_sync in Hr. destruct (w_ctl w1) as [m|] eqn:Em; [|inversion Hr; subst; destruct He2].
    destruct (sync_node po lab (svc_list (w_svc w1)) (can_patch w1 key) (api_same w1 key) (held_cidrs (w_ncache w1)) m cached (find_node key (w_ncache w1)) outs)
      as [[m' r] fx] eqn:Esn.
    inversion Hr; subst w2 ob2. cbn [ob_fx] in He2.
    exists m, m', r. split; [symmetry; exact Ec|]. split.
    - intros Hnp. rewrite Ew, (proj1 (apply_effects_cs fx _)). unfold after_call. destruct r; [reflexivity|reflexivity|contradiction].
    - eapply sync_node_live; [exact (wi_ctl w1 I1 m Em)|apply K; symmetry; exact Ec|exact Esn|exact He2].
  Qed.

  Lemma run_wk ops : forall w, WInv w -> WK w -> Forall wf_op ops -> WK (run po lab w ops).
  Proof.
    induction ops as [|o ops IH]; intros w I K H; [exact K|]. inversion H; subst. unfold run. cbn [fold_left].
    apply IH; [apply step_winv; assumption|exact (proj1 (step_no_panic po lab w o I K H2))|assumption].
  Qed.

  (* C06: in every step of every history, the pod CIDRs of a PATCH are taken from an entry that is not marked terminating *)
  Theorem history_no_patch_from_terminating ops o w' ob : Forall wf_op ops ->
    step po lab (run po lab init_world ops) o = (w', ob) ->
    forall nm cs out, In (FxPatch nm cs out) (ob_fx ob) -> live_ok (run po lab init_world ops) w' nm cs.
  Proof.
    intros H. apply step_patch_live; [apply run_winv; [apply winv_init|exact H]|apply run_wk; [apply winv_init|intros m E; discriminate E|exact H]].
  Qed.
End WorldTerm.

(* ---------- C07 / C05: the serving entry is the FIRST of the offered order that has room ---------- *)
Lemma prioritized_try_split held ps : forall m m' cs p, prioritized_try held m ps = (m', Ok (cs, p)) ->
  exists pre post mk e, ps = pre ++ p :: post /\ prioritized_try held m pre = (mk, Err e).
Proof.
  induction ps as [|p0 ps IH]; intros m m' cs p H; [cbn in H; discriminate|].
  assert (Hhere : exists pre post mk e, p0 :: ps = pre ++ p0 :: post /\ prioritized_try held m pre = (mk, Err e))
    by (exists [], ps, m, ENoAvail; split; reflexivity).
  assert (Hlater : forall m3, prioritized_try held m (p0 :: ps) = prioritized_try held m3 ps ->
            (forall pre, prioritized_try held m (p0 :: pre) = prioritized_try held m3 pre) ->
            prioritized_try held m3 ps = (m', Ok (cs, p)) ->
            exists pre post mk e, p0 :: ps = pre ++ p :: post /\ prioritized_try held m pre = (mk, Err e)).
  { intros m3 _ Hpre H3. destruct (IH m3 m' cs p H3) as (pre & post & mk & e & E & Hp). exists (p0 :: pre), post, mk, e.
    split; [rewrite E; reflexivity|]. rewrite Hpre. exact Hp. }
  cbn [prioritized_try] in H, Hlater.
  destruct (get_entry m p0) as [c|]; [|discriminate].
  destruct (cc_v4 c) as [p4|].
  - destruct (allocate_cidr held m p0 V4) as [m1 r4]. destruct r4 as [x4|e4|]; [|apply (Hlater m1); [reflexivity|intros; reflexivity|exact H]|discriminate].
    destruct (cc_v6 c) as [p6|].
    + destruct (allocate_cidr held m1 p0 V6) as [m2 r6]. destruct r6 as [x6|e6|]; [inversion H; subst; exact Hhere| |discriminate].
      match type of H with prioritized_try held ?m3 ps = _ => apply (Hlater m3); [reflexivity|intros; reflexivity|exact H] end.
    + inversion H; subst. exact Hhere.
  - destruct (cc_v6 c) as [p6|].
    + destruct (allocate_cidr held m p0 V6) as [m2 r6]. destruct r6 as [x6|e6|]; [inversion H; subst; exact Hhere|apply (Hlater m2); [reflexivity|intros; reflexivity|exact H]|discriminate].
    + inversion H; subst. exact Hhere.
Qed.

Theorem prioritized_try_first held ps m m' cs p :
  MapInv m -> prioritized_try held m ps = (m', Ok (cs, p)) ->
  exists pre post, ps = pre ++ p :: post /\ forall q c0, In q pre -> get_entry m q = Some c0 -> no_room m held c0.
Proof.
  intros M H. destruct (prioritized_try_split _ _ _ _ _ _ H) as (pre & post & mk & e & E & Hp).
  exists pre, post. split; [exact E|]. intros q c0 Hq Hg.
  exact (prioritized_try_refusal held pre m m mk e M (msim_refl m) Hp q c0 Hq Hg).
Qed.

(* the choice made by a node work item *)
Definition patch_choice (po : parse_oracle) (lab : label_oracle) (held : list cidr) (m : cidrmap) (ls : labels) (p : path) : Prop :=
  exists ps pre post, ordered_matching po lab m ls true = Ok ps /\ ps = pre ++ p :: post /\
    forall q c0, In q pre -> get_entry m q = Some c0 -> no_room m held c0.

Theorem sync_node_choice po lab svcs canp apisame held m cached reread outs m' r fx :
  MapInv m -> sync_node po lab svcs canp apisame held m cached reread outs = (m', r, fx) ->
  forall nm cs o, In (FxPatch nm cs o) fx ->
  exists node p, cached = Some node /\ nm = n_name node /\ patch_choice po lab held m (n_labels node) p /\
    (r = Ok tt -> exists e', get_entry m' p = Some e' /\ has_str nm (cc_assoc e') = true /\
                   forall x, In x cs -> exists pl, pool_of e' (cf x) = Some pl /\ In x (used pl)).
Proof.
  intros M H nm cs o Hin. unfold sync_node in H. destruct cached as [node|]; [|inversion H; subst; destruct Hin].
  destruct (n_deleting node).
  { destruct (release_cidr svcs m node) as [m1 r1]. inversion H; subst. destruct Hin. }
  unfold allocate_or_occupy in H. destruct (n_cidrs node) as [|c0 cs0] eqn:En.
  2:{ destruct reread; [destruct (occupy_cidrs po lab m node) as [m1 r1]|]; inversion H; subst; destruct Hin. }
  destruct (prioritized_cidrs po lab held m node) as [m1 rp] eqn:Ep.
  destruct rp as [[cs1 p]|e|].
  - destruct cs1 as [|c1 cs1'].
    + inversion H; subst. destruct Hin as [Ho|[]]. discriminate Ho.
    + destruct (update_patches_only_unassigned _ _ _ _ _ _ _ _ _ _ _ H _ Hin eq_refl) as [_ (o' & Ho')]. inversion Ho'; subst nm cs o'.
      unfold prioritized_cidrs in Ep. destruct (ordered_matching po lab m (n_labels node) true) as [ps|e|] eqn:Eo; try discriminate.
      destruct (prioritized_try_first _ _ _ _ _ _ M Ep) as (pre & post & E & Hpre).
      pose proof (prioritized_try_result _ _ _ _ _ M Ep) as (_ & _ & (e1 & Hg1 & Hk1)).
      exists node, p. split; [reflexivity|]. split; [reflexivity|]. split; [exists ps, pre, post; split; [exact Eo|split; [exact E|exact Hpre]]|].
      intros Hr. subst r. destruct (update_ok_assoc _ _ _ _ _ _ _ _ _ _ H (ex_intro _ o Hin)) as (c & Hgc & Hm').
      rewrite Hg1 in Hgc. inversion Hgc; subst c. exists (add_assoc (n_name node) e1).
      split; [rewrite Hm'; eapply get_set_entry_same; exact Hg1|]. split; [apply add_assoc_has|].
      intros x Hx. destruct (Hk1 x Hx) as (pl & Hpl & Hu). exists pl. split; [destruct (cf x); exact Hpl|exact Hu].
  - inversion H; subst. destruct Hin as [Ho|[]]. discriminate Ho.
  - inversion H; subst. destruct Hin.
Qed.

Section WorldChoice.
  Variable po : parse_oracle.
  Variable lab : label_oracle.

  (* C07 over histories: every PATCH serves the node from the first entry, in the order offered for the labels of the copy of
     the node the work item was started with, that has room -- every entry before it has, in one of its families, no
     block free of overlap with CIDRs in use *)
  Theorem history_patch_is_first_with_room ops o w' ob : Forall wf_op ops ->
    let w := run po lab init_world ops in
    step po lab w o = (w', ob) ->
    forall nm cs out, In (FxPatch nm cs out) (ob_fx ob) ->
    exists m node p, w_ctl w = Some m /\ nm = n_name node /\ patch_choice po lab (held_cidrs (w_ncache w)) m (n_labels node) p.
  Proof.
    intros H w Hs nm cs out He.
    assert (I : WInv w) by (apply run_winv; [apply winv_init|exact H]).
    destruct (step_patch_is_node_item po lab w o w' ob I Hs nm cs out He) as (w1 & cached & key & outs & w2 & ob2 & I1 & Ec & Es & Ecache & Hc & Hr & He2 & Ew).
    unfold run_node_sync in Hr. destruct (w_ctl w1) as [m|] eqn:Em; [|inversion Hr; subst; destruct He2].
    destruct (sync_node po lab (svc_list (w_svc w1)) (can_patch w1 key) (api_same w1 key) (held_cidrs (w_ncache w1)) m cached (find_node key (w_ncache w1)) outs)
      as [[m' r] fx] eqn:Esn.
    inversion Hr; subst w2 ob2. cbn [ob_fx] in He2.
    destruct (sync_node_choice _ _ _ _ _ _ _ _ _ _ _ _ _ (wi_ctl w1 I1 m Em) Esn nm cs out He2) as (node & p & _ & Hn & Hch & _).
    exists m, node, p. split; [symmetry; exact Ec|]. split; [exact Hn|]. rewrite <- Ecache. exact Hch.
  Qed.
End WorldChoice.

(* ---------- C02: one block per family the serving entry has, IPv4 first ---------- *)
Definition succ_at (held : list cidr) (mk : cidrmap) (p : path) (cs : list cidr) (m' : cidrmap) : Prop :=
  exists c, get_entry mk p = Some c /\
    match cc_v4 c, cc_v6 c with
    | Some _, Some _ => exists m1 x4 x6, allocate_cidr held mk p V4 = (m1, Ok x4) /\ allocate_cidr held m1 p V6 = (m', Ok x6) /\ cs = [x4; x6]
    | Some _, None => exists x4, allocate_cidr held mk p V4 = (m', Ok x4) /\ cs = [x4]
    | None, Some _ => exists x6, allocate_cidr held mk p V6 = (m', Ok x6) /\ cs = [x6]
    | None, None => m' = mk /\ cs = []
    end.

Lemma prioritized_try_split2 held ps : forall m m' cs p, prioritized_try held m ps = (m', Ok (cs, p)) ->
  exists pre post mk e, ps = pre ++ p :: post /\ prioritized_try held m pre = (mk, Err e) /\ succ_at held mk p cs m'.
Proof.
  induction ps as [|p0 ps IH]; intros m m' cs p H; [cbn in H; discriminate|].
  assert (Hlater : forall m3, (forall pre, prioritized_try held m (p0 :: pre) = prioritized_try held m3 pre) ->
            prioritized_try held m3 ps = (m', Ok (cs, p)) ->
            exists pre post mk e, p0 :: ps = pre ++ p :: post /\ prioritized_try held m pre = (mk, Err e) /\ succ_at held mk p cs m').
  { intros m3 Hpre H3. destruct (IH m3 m' cs p H3) as (pre & post & mk & e & E & Hp & Hs). exists (p0 :: pre), post, mk, e.
    split; [rewrite E; reflexivity|]. split; [rewrite Hpre; exact Hp|exact Hs]. }
  cbn [prioritized_try] in H, Hlater.
  destruct (get_entry m p0) as [c|] eqn:Eg; [|discriminate].
  assert (Hhere : succ_at held m p0 cs m' -> p = p0 ->
            exists pre post mk e, p0 :: ps = pre ++ p :: post /\ prioritized_try held m pre = (mk, Err e) /\ succ_at held mk p cs m').
  { intros Hs ->. exists [], ps, m, ENoAvail. split; [reflexivity|split; [reflexivity|exact Hs]]. }
  destruct (cc_v4 c) as [p4|] eqn:E4.
  - destruct (allocate_cidr held m p0 V4) as [m1 r4] eqn:Ea4. destruct r4 as [x4|e4|]; [|apply (Hlater m1); [intros; reflexivity|exact H]|discriminate].
    destruct (cc_v6 c) as [p6|] eqn:E6.
    + destruct (allocate_cidr held m1 p0 V6) as [m2 r6] eqn:Ea6. destruct r6 as [x6|e6|]; [| |discriminate].
      * inversion H; subst. apply Hhere; [|reflexivity]. exists c. split; [exact Eg|]. rewrite E4, E6. exists m1, x4, x6. repeat split; assumption.
      * match type of H with prioritized_try held ?m3 ps = _ => apply (Hlater m3); [intros; reflexivity|exact H] end.
    + inversion H; subst. apply Hhere; [|reflexivity]. exists c. split; [exact Eg|]. rewrite E4, E6. exists x4. split; [exact Ea4|reflexivity].
  - destruct (cc_v6 c) as [p6|] eqn:E6.
    + destruct (allocate_cidr held m p0 V6) as [m2 r6] eqn:Ea6. destruct r6 as [x6|e6|]; [|apply (Hlater m2); [intros; reflexivity|exact H]|discriminate].
      inversion H; subst. apply Hhere; [|reflexivity]. exists c. split; [exact Eg|]. rewrite E4, E6. exists x6. split; [exact Ea6|reflexivity].
    + inversion H; subst. apply Hhere; [|reflexivity]. exists c. split; [exact Eg|]. rewrite E4, E6. split; reflexivity.
Qed.

Definition shape_ok (e : ccset) (cs : list cidr) : Prop :=
  match cc_v4 e, cc_v6 e with
  | Some p4, Some p6 => exists i j, i < maxc (pg p4) /\ j < maxc (pg p6) /\ cs = [block (pg p4) i; block (pg p6) j]
  | Some p4, None => exists i, i < maxc (pg p4) /\ cs = [block (pg p4) i]
  | None, Some p6 => exists j, j < maxc (pg p6) /\ cs = [block (pg p6) j]
  | None, None => cs = []
  end.

Lemma alloc_block held mk p f c pl m' x :
  MapInv mk -> get_entry mk p = Some c -> pool_of c f = Some pl -> allocate_cidr held mk p f = (m', Ok x) ->
  (exists j, j < maxc (pg pl) /\ x = block (pg pl) j) /\
  exists c2, get_entry m' p = Some c2 /\ forall f', f' <> f -> orel psim (pool_of c f') (pool_of c2 f').
Proof.
  intros M Hg Hp H. destruct (pool_of_PI c f pl (get_entry_inv _ _ _ M Hg) Hp) as (I & Hf & _).
  destruct (allocate_cidr_ok_shape held mk p f c pl m' x Hg Hp I Hf H) as (m1 & c1 & c2 & pl1 & j & Hms & Hg1 & Hp1 & I1 & Hgeo & Hj & Hx & _ & _ & Hocc & Hm').
  split; [exists j; split; assumption|].
  exists c2. split; [rewrite Hm'; eapply get_set_entry_same; exact Hg1|].
  intros f' Hne. pose proof (msim_get _ _ p Hms) as Ho. rewrite Hg, Hg1 in Ho. cbn in Ho. destruct Ho as (A4 & A6 & _).
  assert (Hc2 : pool_of c2 f' = pool_of c1 f').
  { unfold cc_occupy in Hocc. destruct (pool_of c1 (cf x)) as [q|] eqn:Eq; [|discriminate]. destruct (occupy q x); [|discriminate]. inversion Hocc; subst c2.
    apply pool_of_with_pool_other. intros E. apply Hne. rewrite <- E, Hx. cbn. exact Hf. }
  rewrite Hc2. destruct f'; cbn; assumption.
Qed.

Theorem prioritized_try_blocks held ps m m' cs p :
  MapInv m -> prioritized_try held m ps = (m', Ok (cs, p)) -> exists e, get_entry m p = Some e /\ shape_ok e cs.
Proof.
  intros M H. destruct (prioritized_try_split2 _ _ _ _ _ _ H) as (pre & post & mk & er & _ & Hp & (c & Hgc & Hs)).
  pose proof (prioritized_try_result _ _ _ _ _ M Hp) as Hms. cbn in Hms.
  destruct (prioritized_try_inv _ _ _ _ _ M Hp) as [Mk _].
  pose proof (msim_get _ _ p Hms) as Ho. rewrite Hgc in Ho. destruct (get_entry m p) as [e|] eqn:Ege; [|contradiction]. cbn in Ho.
  destruct Ho as (A4 & A6 & _). exists e. split; [reflexivity|]. unfold shape_ok.
  destruct (cc_v4 c) as [pl4|] eqn:E4, (cc_v6 c) as [pl6|] eqn:E6;
    destruct (cc_v4 e) as [q4|], (cc_v6 e) as [q6|]; cbn in A4, A6; try contradiction.
  - destruct Hs as (m1 & x4 & x6 & Ha4 & Ha6 & ->).
    destruct (alloc_block held mk p V4 c pl4 m1 x4 Mk Hgc E4 Ha4) as ((i & Hi & Hx4) & (c2 & Hg2 & Hoth)).
    pose proof (Hoth V6 ltac:(discriminate)) as Ho6. cbn in Ho6. rewrite E6 in Ho6. destruct (cc_v6 c2) as [pl6'|] eqn:E62; [|contradiction]. cbn in Ho6.
    pose proof (allocate_cidr_inv _ _ _ _ _ _ Mk Ha4) as M1.
    destruct (alloc_block held m1 p V6 c2 pl6' m' x6 M1 Hg2 E62 Ha6) as ((j & Hj & Hx6) & _).
    destruct A4 as [G4 _]. destruct A6 as [G6 _]. destruct Ho6 as [G6' _].
    exists i, j. rewrite G4, G6. rewrite <- G6' in Hj, Hx6. split; [exact Hi|split; [exact Hj|rewrite Hx4, Hx6; reflexivity]].
  - destruct Hs as (x4 & Ha4 & ->).
    destruct (alloc_block held mk p V4 c pl4 m' x4 Mk Hgc E4 Ha4) as ((i & Hi & Hx4) & _).
    destruct A4 as [G4 _]. exists i. rewrite G4. split; [exact Hi|rewrite Hx4; reflexivity].
  - destruct Hs as (x6 & Ha6 & ->).
    destruct (alloc_block held mk p V6 c pl6 m' x6 Mk Hgc E6 Ha6) as ((j & Hj & Hx6) & _).
    destruct A6 as [G6 _]. exists j. rewrite G6. split; [exact Hj|rewrite Hx6; reflexivity].
  - destruct Hs as [_ ->]. reflexivity.
Qed.

(* the offered entries are those whose selector the labels satisfy, and the selector-less ones *)
Lemma collect_items_matching po lab ls occ : forall m items, collect_items po lab ls occ m = Some items ->
  forall it, In it items -> exists rs, po (fst (snd it)) = Some rs /\ fst (match_reqs ls rs) = true.
Proof.
  induction m as [|[k ents] m IH]; intros items H it Hit; cbn [collect_items] in H; [inversion H; subst; destruct Hit|].
  destruct (po k) as [rs|] eqn:Ek; [|discriminate]. destruct (match_reqs ls rs) as [ok cnt] eqn:Em.
  destruct (collect_items po lab ls occ m) as [rest|] eqn:Er; [|discriminate].
  destruct ok; inversion H; subst; [|eapply IH; [reflexivity|exact Hit]].
  apply in_app_or in Hit. destruct Hit as [Hit|Hit]; [|eapply IH; [reflexivity|exact Hit]].
  apply in_map_iff in Hit. destruct Hit as ([i c] & <- & _). cbn [fst snd]. exists rs. split; [exact Ek|rewrite Em; reflexivity].
Qed.

Theorem ordered_matching_eligible po lab m ls occ ps : ordered_matching po lab m ls occ = Ok ps ->
  forall q, In q ps -> fst q = default_key \/ exists rs, po (fst q) = Some rs /\ fst (match_reqs ls rs) = true.
Proof.
  intros H. unfold ordered_matching in H. destruct (collect_items po lab ls occ m) as [items|] eqn:Ec; [|discriminate].
  destruct (forallb (fun it => has_pool (fst it)) items); [|discriminate]. inversion H; subst. clear H.
  intros q Hq. apply in_app_or in Hq. destruct Hq as [Hq|Hq].
  - right. apply in_map_iff in Hq. destruct Hq as (it & <- & Hit).
    apply (Permutation_in _ (Permutation_sym (sort_perm _ _))) in Hit. eapply collect_items_matching; eassumption.
  - left. destruct (find_key default_key m) as [ents|]; [|destruct Hq].
    apply in_map_iff in Hq. destruct Hq as ([i c] & <- & _). reflexivity.
Qed.

(* ---------- C02 as one statement ---------- *)
Definition assignment_ok (po : parse_oracle) (m : cidrmap) (ls : labels) (cs : list cidr) : Prop :=
  exists p e, get_entry m p = Some e /\ cc_term e = false /\
    (fst p = default_key \/ exists rs, po (fst p) = Some rs /\ fst (match_reqs ls rs) = true) /\
    shape_ok e cs.

Theorem sync_node_assignment po lab svcs canp apisame held m cached reread outs m' r fx :
  MapInv m -> KU m -> sync_node po lab svcs canp apisame held m cached reread outs = (m', r, fx) ->
  forall nm cs o, In (FxPatch nm cs o) fx ->
  exists node, cached = Some node /\ nm = n_name node /\ assignment_ok po m (n_labels node) cs.
Proof.
  intros M HK H nm cs o Hin. unfold sync_node in H. destruct cached as [node|]; [|inversion H; subst; destruct Hin].
  destruct (n_deleting node).
  { destruct (release_cidr svcs m node) as [m1 r1]. inversion H; subst. destruct Hin. }
  unfold allocate_or_occupy in H. destruct (n_cidrs node) as [|c0 cs0] eqn:En.
  2:{ destruct reread; [destruct (occupy_cidrs po lab m node) as [m1 r1]|]; inversion H; subst; destruct Hin. }
  destruct (prioritized_cidrs po lab held m node) as [m1 rp] eqn:Ep.
  destruct rp as [[cs1 p]|e|].
  - destruct cs1 as [|c1 cs1'].
    + inversion H; subst. destruct Hin as [Ho|[]]. discriminate Ho.
    + destruct (update_patches_only_unassigned _ _ _ _ _ _ _ _ _ _ _ H _ Hin eq_refl) as [_ (o' & Ho')]. inversion Ho'; subst nm cs o'.
      unfold prioritized_cidrs in Ep. destruct (ordered_matching po lab m (n_labels node) true) as [ps|e|] eqn:Eo; try discriminate.
      pose proof (prioritized_try_path _ _ _ _ _ _ Ep) as Hp.
      destruct (ordered_matching_live _ _ _ _ _ HK Eo p Hp) as (e & Hge & Hte).
      destruct (prioritized_try_blocks _ _ _ _ _ _ M Ep) as (e2 & Hge2 & Hsh). rewrite Hge in Hge2. inversion Hge2; subst e2.
      exists node. split; [reflexivity|]. split; [reflexivity|]. exists p, e. split; [exact Hge|]. split; [exact Hte|]. split; [|exact Hsh].
      exact (ordered_matching_eligible _ _ _ _ _ _ Eo p Hp).
  - inversion H; subst. destruct Hin as [Ho|[]]. discriminate Ho.
  - inversion H; subst. destruct Hin.
Qed.

Section WorldAssign.
  Variable po : parse_oracle.
  Variable lab : label_oracle.

  (* C02 over histories: every PATCH of every step carries, for ONE entry of the controller's state that is not terminating
     and whose selector the labels of the node (as the work item saw it) satisfy -- or that has no selector -- exactly one
     block of each pool the entry has, IPv4 first *)
  Theorem history_assignment_ok ops o w' ob : Forall wf_op ops ->
    let w := run po lab init_world ops in
    step po lab w o = (w', ob) ->
    forall nm cs out, In (FxPatch nm cs out) (ob_fx ob) ->
    exists m node, w_ctl w = Some m /\ nm = n_name node /\ assignment_ok po m (n_labels node) cs.
  Proof.
    intros H w Hs nm cs out He.
    assert (I : WInv w) by (apply run_winv; [apply winv_init|exact H]).
    assert (K : WK w) by (apply run_wk; [apply winv_init|intros m E; discriminate E|exact H]).
    destruct (step_patch_is_node_item po lab w o w' ob I Hs nm cs out He) as (w1 & cached & key & outs & w2 & ob2 & I1 & Ec & Es & Ecache & Hc & Hr & He2 & Ew).
    unfold run_node_sync in Hr. destruct (w_ctl w1) as [m|] eqn:Em; [|inversion Hr; subst; destruct He2].
    destruct (sync_node po lab (svc_list (w_svc w1)) (can_patch w1 key) (api_same w1 key) (held_cidrs (w_ncache w1)) m cached (find_node key (w_ncache w1)) outs)
      as [[m' r] fx] eqn:Esn.
    inversion Hr; subst w2 ob2. cbn [ob_fx] in He2.
    destruct (sync_node_assignment _ _ _ _ _ _ _ _ _ _ _ _ _ (wi_ctl w1 I1 m Em) (K m (eq_sym Ec)) Esn nm cs out He2) as (node & _ & Hn & Ha).
    exists m, node. split; [symmetry; exact Ec|]. split; [exact Hn|exact Ha].
  Qed.
End WorldAssign.
