(* Path_proofs.v -- C12: a node work item never panics.  In the model a [Panic] of the node path can only
   come from (a) an entry without any pool reaching the comparator (excluded by MapInv: Inv_proofs) or
   (b) a path that does not denote an entry.  Paths are produced from the map itself (ordered_matching,
   assoc_paths) and the node path only ever replaces entries in place, so (b) cannot happen either:
   keys are unique (KU), the shape of the map (keys and list lengths) is preserved by every node-path
   function, and validity of a path depends on the shape only. *)
From NIPAM Require Import Alloc Geom_proofs Pool_proofs Prio_proofs Alloc_proofs Inv_proofs Complete_proofs Resv_proofs.
From Coq Require Import Lia Permutation.
Open Scope N_scope.

Definition KU (m : cidrmap) : Prop := NoDup (map fst m).
Definition shape (m : cidrmap) : list (str * nat) := map (fun kl => (fst kl, length (snd kl))) m.
Definition valid (m : cidrmap) (q : path) : Prop := get_entry m q <> None.

Lemma set_nth_length {A} i (x : A) l : length (set_nth i x l) = length l.
Proof. revert l. induction i as [|i IH]; intros [|h t]; cbn; try reflexivity. rewrite IH. reflexivity. Qed.

Lemma shape_set_key k l l' m : find_key k m = Some l -> length l' = length l -> shape (set_key k l' m) = shape m.
Proof.
  unfold shape. induction m as [|[k0 l0] m IH]; cbn; [discriminate|]. destruct (str_eqb k k0) eqn:E.
  - intros H Hl. inversion H; subst. cbn. apply str_eqb_eq in E. subst. rewrite Hl. reflexivity.
  - intros H Hl. cbn. rewrite IH; auto.
Qed.

Lemma shape_set_entry m p c : shape (set_entry m p c) = shape m.
Proof.
  unfold set_entry. destruct (find_key (fst p) m) as [l|] eqn:Ef; [|reflexivity].
  eapply shape_set_key; [exact Ef|apply set_nth_length].
Qed.

Lemma shape_keys m m' : shape m = shape m' -> map fst m = map fst m'.
Proof.
  unfold shape. revert m'. induction m as [|[k l] m IH]; intros [|[k' l'] m']; cbn; try discriminate; [reflexivity|].
  intros H. inversion H; subst. f_equal. apply IH. assumption.
Qed.

Lemma shape_KU m m' : shape m = shape m' -> KU m -> KU m'.
Proof. intros H. unfold KU. rewrite (shape_keys _ _ H). auto. Qed.

(* validity of a path depends on the shape only *)
Lemma shape_find m m' k : shape m = shape m' ->
  match find_key k m, find_key k m' with
  | Some l, Some l' => length l = length l'
  | None, None => True
  | _, _ => False
  end.
Proof.
  unfold shape. revert m'. induction m as [|[k0 l0] m IH]; intros [|[k1 l1] m']; cbn; try discriminate.
  - intros _. exact I.
  - intros H. inversion H; subst. destruct (str_eqb k k1); [assumption|apply IH; assumption].
Qed.

Lemma shape_valid m m' q : shape m = shape m' -> valid m q -> valid m' q.
Proof.
  unfold valid, get_entry. intros H. pose proof (shape_find m m' (fst q) H) as Hf.
  destruct (find_key (fst q) m) as [l|], (find_key (fst q) m') as [l'|]; try contradiction; try tauto.
  intros Hv Hn. apply Hv. apply nth_error_None. apply nth_error_None in Hn. lia.
Qed.

Lemma valid_some m q : valid m q -> exists c, get_entry m q = Some c.
Proof. unfold valid. destruct (get_entry m q) as [c|]; [intros _; exists c; reflexivity|congruence]. Qed.

(* ---------- paths produced from the map are valid ---------- *)
Lemma enum_from_nth {A} (l : list A) : forall n i c, In (i, c) (enum_from n l) -> (n <= i)%nat /\ nth_error l (i - n) = Some c.
Proof.
  induction l as [|h t IH]; intros n i c; cbn; [tauto|]. intros [H|H].
  - inversion H; subst. replace (i - i)%nat with 0%nat by lia. split; [lia|reflexivity].
  - destruct (IH _ _ _ H) as [Hle Hn]. split; [lia|]. replace (i - n)%nat with (S (i - S n)) by lia. exact Hn.
Qed.

Lemma find_key_in_KU k l m : KU m -> In (k, l) m -> find_key k m = Some l.
Proof.
  unfold KU. induction m as [|[k0 l0] m IH]; cbn; [tauto|]. intros Hnd Hin. inversion Hnd; subst.
  destruct Hin as [E|Hin].
  - inversion E; subst. rewrite str_eqb_refl. reflexivity.
  - destruct (str_eqb k k0) eqn:E; [|apply IH; assumption].
    apply str_eqb_eq in E. subst. exfalso. apply H1. apply (in_map fst) in Hin. exact Hin.
Qed.

Lemma collect_items_valid po lab ls occ m0 : KU m0 -> forall m items,
  (forall kl, In kl m -> In kl m0) -> collect_items po lab ls occ m = Some items -> forall it, In it items -> valid m0 (snd it).
Proof.
  intros HK. induction m as [|[k ents] m IH]; intros items Hsub H it Hit; cbn [collect_items] in H; [inversion H; subst; destruct Hit|].
  destruct (po k) as [rs|]; [|discriminate]. destruct (match_reqs ls rs) as [ok cnt].
  destruct (collect_items po lab ls occ m) as [rest|] eqn:Er; [|discriminate].
  assert (Hrest : forall it0, In it0 rest -> valid m0 (snd it0)) by (intros it0 H0; eapply IH; [intros kl Hkl; apply Hsub; right; exact Hkl|reflexivity|exact H0]).
  destruct ok; inversion H; subst; [|apply Hrest; exact Hit].
  apply in_app_or in Hit. destruct Hit as [Hit|Hit]; [|apply Hrest; exact Hit].
  apply in_map_iff in Hit. destruct Hit as ([i c] & <- & Hic). apply filter_In in Hic. destruct Hic as [Hic _].
  destruct (enum_from_nth _ _ _ _ Hic) as [_ Hn]. rewrite Nat.sub_0_r in Hn. cbn [snd fst].
  unfold valid, get_entry. cbn [fst snd]. rewrite (find_key_in_KU k ents m0 HK (Hsub _ (or_introl eq_refl))). rewrite Hn. discriminate.
Qed.

Lemma ordered_matching_valid po lab m ls occ ps : KU m -> ordered_matching po lab m ls occ = Ok ps -> Forall (valid m) ps.
Proof.
  intros HK H. unfold ordered_matching in H. destruct (collect_items po lab ls occ m) as [items|] eqn:Ec; [|discriminate].
  destruct (forallb (fun it => has_pool (fst it)) items); [|discriminate]. inversion H; subst. clear H.
  apply Forall_app. split.
  - rewrite Forall_forall. intros q Hq. apply in_map_iff in Hq. destruct Hq as (it & <- & Hit).
    apply (Permutation_in _ (Permutation_sym (sort_perm _ _))) in Hit.
    eapply collect_items_valid; [exact HK|intros kl Hkl; exact Hkl|exact Ec|exact Hit].
  - destruct (find_key default_key m) as [ents|] eqn:Ef; [|constructor].
    rewrite Forall_forall. intros q Hq. apply in_map_iff in Hq. destruct Hq as ([i c] & <- & Hic). apply filter_In in Hic. destruct Hic as [Hic _].
    destruct (enum_from_nth _ _ _ _ Hic) as [_ Hn]. rewrite Nat.sub_0_r in Hn.
    unfold valid, get_entry. cbn [fst snd]. rewrite Ef, Hn. discriminate.
Qed.

Lemma assoc_paths_valid m name : Forall (valid m) (assoc_paths m name).
Proof.
  unfold assoc_paths. rewrite Forall_forall. intros q Hq. apply in_flat_map in Hq. destruct Hq as (k & _ & Hq).
  destruct (find_key k m) as [l|] eqn:Ef; [|destruct Hq].
  apply in_map_iff in Hq. destruct Hq as ([i c] & <- & Hic). apply filter_In in Hic. destruct Hic as [Hic _].
  destruct (enum_from_nth _ _ _ _ Hic) as [_ Hn]. rewrite Nat.sub_0_r in Hn.
  unfold valid, get_entry. cbn [fst snd]. rewrite Ef, Hn. discriminate.
Qed.

(* ---------- every node-path function preserves the shape ---------- *)
Lemma occupy_try_shape node ps : forall m m' r, occupy_try m node ps = (m', r) -> shape m' = shape m.
Proof.
  induction ps as [|p ps IH]; intros m m' r H; cbn in H; [inversion H; reflexivity|].
  destruct (get_entry m p) as [e|]; [|inversion H; reflexivity].
  destruct (negb (can_occupy_all e (n_cidrs node))); [eapply IH; exact H|].
  destruct (occupy_list e (n_cidrs node)) as [e' o]. destruct o.
  - inversion H; subst. apply shape_set_entry.
  - rewrite (IH _ _ _ H). apply shape_set_entry.
  - inversion H; subst. apply shape_set_entry.
Qed.

Lemma alloc_step_shape held p f sh st :
  (match st with ARun _ m | ADone m _ => shape m = sh end) ->
  (match alloc_step held p f st with ARun _ m | ADone m _ => shape m = sh end).
Proof.
  destruct st as [ev m|m r]; [|auto]. intros H. unfold alloc_step.
  destruct (get_entry m p) as [c|]; [|exact H]. destruct (pool_of c f) as [pl|]; [|exact H].
  destruct (pmax pl <=? ev); [exact H|]. destruct (next_candidate pl) as [blk sk pl'|]; [|exact H].
  match goal with |- context [if ?b then _ else _] => destruct b end; [rewrite shape_set_entry; exact H|].
  destruct (cc_occupy (with_pool c f pl') blk); rewrite ?shape_set_entry; exact H.
Qed.

Lemma allocate_cidr_shape held m p f m' r : allocate_cidr held m p f = (m', r) -> shape m' = shape m.
Proof.
  unfold allocate_cidr. intros H.
  match type of H with context [N.iter ?fuel _ _] =>
    assert (G : match N.iter fuel (alloc_step held p f) (ARun 0 m) with ARun _ m1 | ADone m1 _ => shape m1 = shape m end)
      by (apply N.iter_invariant; [intros st; apply alloc_step_shape|reflexivity]);
    destruct (N.iter fuel (alloc_step held p f) (ARun 0 m)) as [ev m2|m2 r2] end; inversion H; subst; exact G.
Qed.

Lemma prioritized_try_shape held ps : forall m m' r, prioritized_try held m ps = (m', r) -> shape m' = shape m.
Proof.
  induction ps as [|p0 ps IH]; intros m m' r H; cbn [prioritized_try] in H; [inversion H; reflexivity|].
  destruct (get_entry m p0) as [c|]; [|inversion H; reflexivity].
  destruct (cc_v4 c) as [p4|].
  - destruct (allocate_cidr held m p0 V4) as [m1 r4] eqn:E4. pose proof (allocate_cidr_shape _ _ _ _ _ _ E4) as S1.
    destruct r4 as [x4|e4|]; [|rewrite (IH _ _ _ H); exact S1|inversion H; subst; exact S1].
    destruct (cc_v6 c) as [p6|]; [|inversion H; subst; exact S1].
    destruct (allocate_cidr held m1 p0 V6) as [m2 r6] eqn:E6. pose proof (allocate_cidr_shape _ _ _ _ _ _ E6) as S2.
    destruct r6 as [x6|e6|]; [inversion H; subst; congruence| |inversion H; subst; congruence].
    rewrite (IH _ _ _ H). destruct (get_entry m2 p0) as [c'|]; [|congruence].
    destruct (cc_release c' x4); rewrite ?shape_set_entry; congruence.
  - destruct (cc_v6 c) as [p6|]; [|inversion H; reflexivity].
    destruct (allocate_cidr held m p0 V6) as [m2 r6] eqn:E6. pose proof (allocate_cidr_shape _ _ _ _ _ _ E6) as S2.
    destruct r6 as [x6|e6|]; [inversion H; subst; exact S2|rewrite (IH _ _ _ H); exact S2|inversion H; subst; exact S2].
Qed.

Lemma release_in_shape m p xs m' r : release_in m p xs = (m', r) -> shape m' = shape m.
Proof.
  unfold release_in. intros H. destruct (get_entry m p) as [c|]; [|inversion H; reflexivity].
  destruct (release_list c xs); inversion H; subst; rewrite ?shape_set_entry; reflexivity.
Qed.

Lemma update_shape canp apisame m name cs p reread outs m' r fx :
  update_cidrs_allocation canp apisame m name cs p reread outs = (m', r, fx) -> shape m' = shape m.
Proof.
  unfold update_cidrs_allocation. intros H.
  repeat match type of H with
         | context [match ?x with _ => _ end] => destruct x eqn:?
         | context [if ?b then _ else _] => destruct b
         end; inversion H; subst; rewrite ?shape_set_entry; try reflexivity;
    match goal with E : release_in _ _ _ = _ |- _ => exact (release_in_shape _ _ _ _ _ E) end.
Qed.

Lemma release_all_shape svcs node ps : forall m m' r, release_all svcs m node ps = (m', r) -> shape m' = shape m.
Proof.
  induction ps as [|p ps IH]; intros m m' r H; cbn in H; [inversion H; reflexivity|].
  destruct (get_entry m p) as [c|]; [|inversion H; reflexivity].
  destruct (release_pcidrs svcs c (n_cidrs node)) as [c' rr]. destruct rr as [[]|e|].
  - rewrite (IH _ _ _ H). apply shape_set_entry.
  - inversion H; subst. apply shape_set_entry.
  - inversion H; subst. apply shape_set_entry.
Qed.

Lemma release_cidr_shape svcs m node m' r : release_cidr svcs m node = (m', r) -> shape m' = shape m.
Proof.
  unfold release_cidr. intros H. destruct (n_cidrs node); [inversion H; reflexivity|].
  destruct (assoc_paths m (n_name node)); [inversion H; reflexivity|]. eapply release_all_shape. exact H.
Qed.

Lemma occupy_cidrs_shape po lab m node m' r : occupy_cidrs po lab m node = (m', r) -> shape m' = shape m.
Proof.
  unfold occupy_cidrs. intros H. destruct (n_cidrs node); [inversion H; reflexivity|].
  destruct (ordered_matching po lab m (n_labels node) false) as [ps|e|]; try (inversion H; reflexivity).
  destruct ps; [inversion H; reflexivity|]. eapply occupy_try_shape. exact H.
Qed.

Theorem sync_node_shape po lab svcs canp apisame held m cached reread outs m' r fx :
  sync_node po lab svcs canp apisame held m cached reread outs = (m', r, fx) -> shape m' = shape m.
Proof.
  unfold sync_node. intros H. destruct cached as [node|]; [|inversion H; reflexivity].
  destruct (n_deleting node).
  - destruct (release_cidr svcs m node) as [m1 r1] eqn:Er. inversion H; subst. eapply release_cidr_shape. exact Er.
  - unfold allocate_or_occupy in H. destruct (n_cidrs node).
    + destruct (prioritized_cidrs po lab held m node) as [m1 rp] eqn:Ep.
      assert (S1 : shape m1 = shape m).
      { unfold prioritized_cidrs in Ep. destruct (ordered_matching po lab m (n_labels node) true); try (inversion Ep; reflexivity).
        eapply prioritized_try_shape. exact Ep. }
      destruct rp as [[cs p]|e|]; try (inversion H; subst; exact S1).
      destruct cs; [inversion H; subst; exact S1|]. rewrite (update_shape _ _ _ _ _ _ _ _ _ _ _ H). exact S1.
    + destruct reread; [|inversion H; reflexivity].
      destruct (occupy_cidrs po lab m node) as [m1 r1] eqn:Eo. inversion H; subst. eapply occupy_cidrs_shape. exact Eo.
Qed.

(* ---------- no panic, given valid paths ---------- *)
Lemma occupy_try_no_panic node ps : forall m, Forall (valid m) ps -> snd (occupy_try m node ps) <> Panic.
Proof.
  induction ps as [|p ps IH]; intros m Hv; cbn; [discriminate|].
  inversion Hv; subst. destruct (valid_some _ _ H1) as (e & He). rewrite He.
  destruct (negb (can_occupy_all e (n_cidrs node))); [apply IH; exact H2|].
  destruct (occupy_list e (n_cidrs node)) as [e' o]. destruct o; cbn; try discriminate.
  apply IH. eapply Forall_impl; [|exact H2]. intros q Hq. eapply shape_valid; [symmetry; apply shape_set_entry|exact Hq].
Qed.

Lemma occupy_cidrs_no_panic po lab m node : MapInv m -> KU m -> snd (occupy_cidrs po lab m node) <> Panic.
Proof.
  intros M HK. unfold occupy_cidrs. destruct (n_cidrs node) as [|pc0 pcs]; [cbn; discriminate|].
  pose proof (ordered_matching_no_panic po lab m (n_labels node) false M) as Hnp.
  destruct (ordered_matching po lab m (n_labels node) false) as [ps|e|] eqn:Eo; [|cbn; discriminate|contradiction].
  destruct ps as [|p ps]; [cbn; discriminate|]. apply occupy_try_no_panic. eapply ordered_matching_valid; eassumption.
Qed.

Lemma release_all_no_panic svcs node ps : forall m, Forall (valid m) ps -> snd (release_all svcs m node ps) <> Panic.
Proof.
  induction ps as [|p ps IH]; intros m Hv; cbn; [discriminate|].
  inversion Hv; subst. destruct (valid_some _ _ H1) as (e & He). rewrite He.
  destruct (release_pcidrs svcs e (n_cidrs node)) as [e' rr] eqn:Er.
  assert (Hrr : rr <> Panic).
  { clear - Er. revert e e' rr Er. induction (n_cidrs node) as [|pc l IHl]; intros e e' rr Er; cbn in Er; [inversion Er; discriminate|].
    destruct pc as [|x cn]; [inversion Er; discriminate|]. unfold cc_release in Er.
    destruct (pool_of e (cf x)) as [pl|]; [|inversion Er; discriminate]. destruct (release pl x); [eapply IHl; exact Er|inversion Er; discriminate]. }
  destruct rr as [[]|er|]; cbn; try discriminate; [|contradiction].
  apply IH. eapply Forall_impl; [|exact H2]. intros q Hq. eapply shape_valid; [symmetry; apply shape_set_entry|exact Hq].
Qed.

Lemma release_cidr_no_panic svcs m node : snd (release_cidr svcs m node) <> Panic.
Proof.
  unfold release_cidr. destruct (n_cidrs node) as [|pc0 pcs]; [cbn; discriminate|].
  pose proof (assoc_paths_valid m (n_name node)) as Hv.
  destruct (assoc_paths m (n_name node)) as [|p ps]; [cbn; discriminate|]. apply release_all_no_panic. exact Hv.
Qed.

Lemma prioritized_try_no_panic held ps : forall m, MapInv m -> Forall (valid m) ps -> snd (prioritized_try held m ps) <> Panic.
Proof.
  induction ps as [|p0 ps IH]; intros m M Hv; cbn [prioritized_try]; [cbn; discriminate|].
  inversion Hv; subst. destruct (valid_some _ _ H1) as (c & Hc). rewrite Hc.
  pose proof (get_entry_inv m p0 c M Hc) as Ec.
  assert (Hnext : forall mk, MapInv mk -> shape mk = shape m -> snd (prioritized_try held mk ps) <> Panic).
  { intros mk Mk Sk. apply IH; [exact Mk|]. eapply Forall_impl; [|exact H2]. intros q Hq. eapply shape_valid; [symmetry; exact Sk|exact Hq]. }
  destruct (cc_v4 c) as [p4|] eqn:E4.
  - destruct (ei_v4 c Ec p4 E4) as (I4 & Hf4 & Hcl4).
    pose proof (allocate_cidr_no_panic held m p0 V4 c p4 Hc E4 I4 Hf4) as Hn4.
    destruct (allocate_cidr held m p0 V4) as [m1 r4] eqn:Ea4. cbn [snd] in Hn4.
    pose proof (allocate_cidr_inv _ _ _ _ _ _ M Ea4) as M1. pose proof (allocate_cidr_shape _ _ _ _ _ _ Ea4) as S1.
    destruct r4 as [x4|e4|]; [|apply Hnext; assumption|contradiction].
    destruct (cc_v6 c) as [p6|] eqn:E6; [|cbn; discriminate].
    (* the entry at p0 in m1 still has its IPv6 pool *)
    destruct (allocate_cidr_ok_shape held m p0 V4 c p4 m1 x4 Hc E4 I4 Hf4 Ea4)
      as (ma & c1 & c2 & pl1 & j & Hma & Hga & Hpa & Ia & Hpga & Hj & Hx4 & _ & _ & Hocc & Hm1).
    assert (Hcf4 : cf x4 = V4) by (rewrite Hx4; cbn; exact Hf4).
    assert (Hg1 : get_entry m1 p0 = Some c2) by (rewrite Hm1; eapply get_set_entry_same; exact Hga).
    assert (He1 : esim c c1) by (pose proof (msim_get _ _ p0 Hma) as Ho; rewrite Hc, Hga in Ho; exact Ho).
    assert (Hp62 : pool_of c2 V6 = pool_of c1 V6).
    { unfold cc_occupy in Hocc. rewrite Hcf4, Hpa in Hocc. destruct (occupy pl1 x4); [inversion Hocc; reflexivity|discriminate]. }
    destruct (pool_of c1 V6) as [p6a|] eqn:Ep6a;
      [|destruct He1 as (_ & He6 & _); rewrite E6 in He6; cbn in Ep6a; rewrite Ep6a in He6; contradiction].
    destruct (pool_of_PI c2 V6 p6a (get_entry_inv m1 p0 c2 M1 Hg1) Hp62) as (I6 & Hf6 & _).
    pose proof (allocate_cidr_no_panic held m1 p0 V6 c2 p6a Hg1 Hp62 I6 Hf6) as Hn6.
    destruct (allocate_cidr held m1 p0 V6) as [m2 r6] eqn:Ea6. cbn [snd] in Hn6.
    pose proof (allocate_cidr_inv _ _ _ _ _ _ M1 Ea6) as M2. pose proof (allocate_cidr_shape _ _ _ _ _ _ Ea6) as S2.
    destruct r6 as [x6|e6|]; [cbn; discriminate| |contradiction].
    apply Hnext.
    + destruct (get_entry m2 p0) as [c'|] eqn:Eg2; [|exact M2].
      destruct (cc_release c' x4) as [c''|e|] eqn:Er; try exact M2.
      apply set_entry_inv; [exact M2|]. eapply cc_release_inv; [exact (get_entry_inv m2 p0 c' M2 Eg2)| |exact Er].
      rewrite Hx4. apply block_wf; [apply (inv_wf p4 I4)|exact Hj].
    + destruct (get_entry m2 p0) as [c'|]; [|congruence]. destruct (cc_release c' x4); rewrite ?shape_set_entry; congruence.
  - destruct (cc_v6 c) as [p6|] eqn:E6; [|cbn; discriminate].
    destruct (ei_v6 c Ec p6 E6) as (I6 & Hf6 & _).
    pose proof (allocate_cidr_no_panic held m p0 V6 c p6 Hc E6 I6 Hf6) as Hn6.
    destruct (allocate_cidr held m p0 V6) as [m2 r6] eqn:Ea6. cbn [snd] in Hn6.
    pose proof (allocate_cidr_inv _ _ _ _ _ _ M Ea6) as M2. pose proof (allocate_cidr_shape _ _ _ _ _ _ Ea6) as S2.
    destruct r6 as [x6|e6|]; [cbn; discriminate|apply Hnext; assumption|contradiction].
Qed.

(* C12: a node work item never panics *)
Theorem sync_node_no_panic po lab svcs canp apisame held m cached reread outs :
  MapInv m -> KU m -> snd (fst (sync_node po lab svcs canp apisame held m cached reread outs)) <> Panic.
Proof.
  intros M HK. unfold sync_node. destruct cached as [node|]; [|cbn; discriminate].
  destruct (n_deleting node).
  - pose proof (release_cidr_no_panic svcs m node) as Hn. destruct (release_cidr svcs m node) as [m1 r1]. exact Hn.
  - unfold allocate_or_occupy. destruct (n_cidrs node) as [|pc0 pcs].
    + destruct (prioritized_cidrs po lab held m node) as [m1 rp] eqn:Ep.
      assert (Hrp : rp <> Panic).
      { unfold prioritized_cidrs in Ep. pose proof (ordered_matching_no_panic po lab m (n_labels node) true M) as Hnp.
        destruct (ordered_matching po lab m (n_labels node) true) as [ps|e|] eqn:Eo; [|inversion Ep; discriminate|contradiction].
        pose proof (prioritized_try_no_panic held ps m M (ordered_matching_valid _ _ _ _ _ _ HK Eo)) as Hn. rewrite Ep in Hn. exact Hn. }
      destruct rp as [[cs p]|e|]; [|cbn; discriminate|contradiction].
      destruct cs as [|c1 cs1]; [cbn; discriminate|].
      assert (Hk : keys_at m1 p (c1 :: cs1)).
      { unfold prioritized_cidrs in Ep. destruct (ordered_matching po lab m (n_labels node) true) as [ps|e|]; try discriminate.
        pose proof (prioritized_try_result held ps m m1 _ M Ep) as (_ & _ & Hk). exact Hk. }
      destruct (update_cidrs_allocation canp apisame m1 (n_name node) (c1 :: cs1) p reread outs) as [[m2 r2] fx2] eqn:Eu.
      cbn. eapply update_no_panic; eassumption.
    + destruct reread; [|cbn; discriminate].
      pose proof (occupy_cidrs_no_panic po lab m node M HK) as Hn. destruct (occupy_cidrs po lab m node) as [m1 r1]. exact Hn.
Qed.

Lemma NoDup_app_snoc_keys {A} (l : list A) x : NoDup l -> ~ In x l -> NoDup (l ++ [x]).
Proof.
  intros H Hx. induction H as [|y l Hy H IH]; cbn; [constructor; [intros []|constructor]|].
  constructor.
  - intros Hin. apply in_app_or in Hin. destruct Hin as [Hin|[->|[]]]; [contradiction|apply Hx; left; reflexivity].
  - apply IH. intros Hin. apply Hx. right. exact Hin.
Qed.

(* ---------- key uniqueness is preserved by the ClusterCIDR path and by construction ---------- *)
Lemma keys_set_key_present k l l' m : find_key k m = Some l -> map fst (set_key k l' m) = map fst m.
Proof.
  induction m as [|[k0 l0] m IH]; cbn; [discriminate|]. destruct (str_eqb k k0) eqn:E; cbn.
  - intros _. apply str_eqb_eq in E. subst. reflexivity.
  - intros H. rewrite IH; auto.
Qed.
Lemma find_key_none_notin k m : find_key k m = None -> ~ In k (map fst m).
Proof.
  induction m as [|[k0 l0] m IH]; cbn; [tauto|]. destruct (str_eqb k k0) eqn:E; [discriminate|].
  intros H [Hk|Hk]; [subst; rewrite str_eqb_refl in E; discriminate|exact (IH H Hk)].
Qed.
Lemma KU_set_key k l' m : KU m -> KU (set_key k l' m).
Proof.
  intros HK. unfold KU. destruct (find_key k m) as [l|] eqn:Ef; [rewrite (keys_set_key_present _ _ _ _ Ef); exact HK|].
  assert (E : set_key k l' m = m ++ [(k, l')]).
  { clear HK. induction m as [|[k0 l0] m IH]; cbn in *; [reflexivity|]. destruct (str_eqb k k0); [discriminate|]. rewrite IH; auto. }
  rewrite E, map_app. cbn. apply NoDup_app_snoc_keys; [exact HK|apply find_key_none_notin; exact Ef].
Qed.

Lemma KU_del_key k m : KU m -> KU (del_key k m).
Proof.
  unfold KU. induction m as [|[k0 l0] m IH]; cbn; [auto|]. intros H. inversion H; subst.
  destruct (str_eqb k k0); [exact H3|]. cbn. constructor; [|apply IH; exact H3].
  intros Hin. apply H2. clear - Hin. induction m as [|[k1 l1] m IHm]; cbn in *; [exact Hin|].
  destruct (str_eqb k k1); [right; exact Hin|]. destruct Hin as [Hin|Hin]; [left; exact Hin|right; apply IHm; exact Hin].
Qed.

Lemma KU_set_entry m p c : KU m -> KU (set_entry m p c).
Proof. intros H. eapply shape_KU; [symmetry; apply shape_set_entry|exact H]. Qed.

Lemma KU_map_set m k c : KU m -> KU (map_set m k c).
Proof.
  intros HK. unfold map_set. destruct (find_key k m) as [l|] eqn:Ef; [apply KU_set_key; exact HK|].
  unfold KU. rewrite map_app. cbn. apply NoDup_app_snoc_keys; [exact HK|apply find_key_none_notin; exact Ef].
Qed.

Lemma KU_remove_deleted m name : KU m -> KU (remove_deleted m name).
Proof.
  unfold KU, remove_deleted. induction m as [|[k l] m IH]; cbn; [auto|]. intros H. inversion H; subst.
  destruct (remove_deleted_in name l); cbn; [apply IH; exact H3|]. constructor; [|apply IH; exact H3].
  intros Hin. apply H2. clear - Hin. induction m as [|[k1 l1] m IHm]; cbn in *; [exact Hin|].
  destruct (remove_deleted_in name l1); cbn in *; [right; apply IHm; exact Hin|].
  destruct Hin as [Hin|Hin]; [left; exact Hin|right; apply IHm; exact Hin].
Qed.

Lemma KU_filter_service m svc : KU m -> KU (filter_service m svc).
Proof. unfold KU, filter_service. rewrite map_map. cbn. intros H. exact H. Qed.

Lemma KU_create m o t b out m' r fx : KU m -> create_cluster_cidr m o t b out = (m', r, fx) -> KU m'.
Proof.
  intros HK H. unfold create_cluster_cidr in H. destruct (o_selkey o) as [k|]; [|inversion H; subst; exact HK].
  destruct (create_set o t b) as [c|e|]; try (inversion H; subst; exact HK).
  assert (Hm : KU (if is_mapped m k (o_name o) then m else map_set m k c)) by (destruct (is_mapped m k (o_name o)); [exact HK|apply KU_map_set; exact HK]).
  destruct (cc_v4 c), (cc_v6 c); try (inversion H; subst; exact HK);
    (destruct b; [inversion H; subst; exact Hm|]; destruct (need_finalizer o); [destruct out|]; inversion H; subst; first [exact Hm|exact HK]).
Qed.

Lemma KU_delete m o m' r : KU m -> delete_cluster_cidr m o = (m', r) -> KU m'.
Proof.
  intros HK H. unfold delete_cluster_cidr in H. destruct (o_selkey o) as [k|]; [|inversion H; subst; exact HK].
  destruct (find_key k m) as [l|]; [|inversion H; subst; exact HK].
  destruct (find_name (o_name o) l 0) as [[i c]|]; [|inversion H; subst; exact HK].
  pose proof (KU_set_entry m (k, i) (with_term c true) HK) as H1.
  destruct (cc_assoc c); [|inversion H; subst; exact H1].
  destruct l as [|c1 [|c2 l2]]; inversion H; subst; first [apply KU_del_key; exact H1|apply KU_set_key; exact H1].
Qed.

Theorem sync_cc_KU m key cached out m' r fx : KU m -> sync_cc m key cached out = (m', r, fx) -> KU m'.
Proof.
  intros HK H. unfold sync_cc in H. destruct cached as [o|]; [|inversion H; subst; apply KU_remove_deleted; exact HK].
  destruct (o_deleting o).
  - unfold reconcile_delete in H. destruct (delete_cluster_cidr m o) as [m1 r1] eqn:Ed. pose proof (KU_delete _ _ _ _ HK Ed) as H1.
    destruct r1 as [[]|e|]; [destruct (has_str finalizer (o_fins o))|..]; inversion H; subst; exact H1.
  - unfold reconcile_create in H. destruct (need_finalizer o || negb (is_mapped_obj m o))%bool; [|inversion H; subst; exact HK].
    eapply KU_create; eassumption.
Qed.

Lemma bootstrap_KU os : forall m outs m' fx, KU m -> bootstrap_ccs m os outs = (m', fx) -> KU m'.
Proof.
  induction os as [|o os IH]; intros m outs m' fx HK H; cbn in H; [inversion H; subst; exact HK|].
  destruct (reconcile_bootstrap m o (match outs with x :: _ => x | [] => UOk end)) as [[m1 r1] fx1] eqn:E1.
  destruct (bootstrap_ccs m1 os (tl outs)) as [m2 fx2] eqn:E2. inversion H; subst.
  eapply IH; [|exact E2]. eapply KU_create; [exact HK|exact E1].
Qed.

Lemma occupy_nodes_shape po lab ns : forall m m' pan, occupy_nodes po lab m ns = (m', pan) -> shape m' = shape m.
Proof.
  induction ns as [|n ns IH]; intros m m' pan H; cbn in H; [inversion H; reflexivity|].
  destruct (n_cidrs n); [eapply IH; exact H|].
  destruct (occupy_cidrs po lab m n) as [m1 r1] eqn:Eo. pose proof (occupy_cidrs_shape _ _ _ _ _ _ Eo) as S1.
  destruct r1; try (rewrite (IH _ _ _ H); exact S1). inversion H; subst. exact S1.
Qed.

Theorem construct_KU po lab ccs outs s1 s2 nodes m fx pan : construct po lab ccs outs s1 s2 nodes = (m, fx, pan) -> KU m.
Proof.
  unfold construct. intros H. destruct (bootstrap_ccs [] ccs outs) as [m1 fx1] eqn:Eb.
  assert (K1 : KU m1) by (eapply (bootstrap_KU ccs [] outs m1 fx1); [unfold KU; cbn; apply NoDup_nil|exact Eb]).
  set (m2 := match s1 with Some s => filter_service m1 s | None => m1 end) in *.
  assert (K2 : KU m2) by (unfold m2; destruct s1; [apply KU_filter_service|]; exact K1).
  set (m3 := match s2 with Some s => filter_service m2 s | None => m2 end) in *.
  assert (K3 : KU m3) by (unfold m3; destruct s2; [apply KU_filter_service|]; exact K2).
  destruct (occupy_nodes po lab m3 nodes) as [m4 p4] eqn:Eo. inversion H; subst.
  eapply shape_KU; [symmetry; eapply occupy_nodes_shape; exact Eo|exact K3].
Qed.

(* construction does not panic either (occupation of the listed nodes) *)
Lemma occupy_nodes_no_panic po lab ns : forall m, MapInv m -> KU m -> Forall wf_node ns -> snd (occupy_nodes po lab m ns) = false.
Proof.
  induction ns as [|n ns IH]; intros m M HK Hw; cbn; [reflexivity|]. inversion Hw; subst.
  destruct (n_cidrs n) eqn:En; [apply IH; assumption|].
  pose proof (occupy_cidrs_no_panic po lab m n M HK) as Hnp.
  destruct (occupy_cidrs po lab m n) as [m1 r1] eqn:Eo. cbn [snd] in Hnp.
  assert (M1 : MapInv m1) by (eapply occupy_cidrs_inv; eassumption).
  assert (K1 : KU m1) by (eapply shape_KU; [symmetry; eapply occupy_cidrs_shape; exact Eo|exact HK]).
  destruct r1; try (apply IH; assumption). contradiction.
Qed.

(* ---------- ClusterCIDR work items ---------- *)
Lemma mk_pool_never_panics f fp hb : mk_pool f fp hb <> Panic.
Proof.
  unfold mk_pool. destruct fp as [| |c]; try discriminate.
  destruct (negb (fam_eqb (cf c) f)); [discriminate|]. destruct (new_pool _ _ _ _); discriminate.
Qed.

(* ClusterCIDR handling itself has no panic at all, for ANY object content *)
Theorem sync_cc_no_panic :
  forall m key cached out, snd (fst (sync_cc m key cached out)) <> Panic.
Proof.
  intros m key cached out. unfold sync_cc. destruct cached as [o|]; [|cbn; discriminate].
  destruct (o_deleting o).
  - unfold reconcile_delete, delete_cluster_cidr.
    destruct (o_selkey o) as [k|]; [|cbn; discriminate].
    destruct (find_key k m) as [l|]; [|destruct (has_str finalizer (o_fins o)); [destruct out|]; cbn; discriminate].
    destruct (find_name (o_name o) l 0) as [[i c]|]; [|destruct (has_str finalizer (o_fins o)); [destruct out|]; cbn; discriminate].
    destruct (cc_assoc c); [|cbn; discriminate].
    destruct l as [|c0 [|c1 l']]; destruct (has_str finalizer (o_fins o)); try destruct out; cbn; discriminate.
  - unfold reconcile_create. destruct (need_finalizer o || negb (is_mapped_obj m o))%bool; [|cbn; discriminate].
    unfold create_cluster_cidr. destruct (o_selkey o); [|cbn; discriminate].
    unfold create_set. destruct (mk_pool V4 (o_v4 o) (o_hb o)) as [p4|e|] eqn:E4; try (cbn; discriminate).
    + destruct (mk_pool V6 (o_v6 o) (o_hb o)) as [p6|e|] eqn:E6; try (cbn; discriminate).
      * cbn [cc_v4 cc_v6]. destruct p4, p6; try (cbn; discriminate); destruct (need_finalizer o); try destruct out; cbn; discriminate.
      * exfalso. exact (mk_pool_never_panics _ _ _ E6).
    + exfalso. exact (mk_pool_never_panics _ _ _ E4).
Qed.
