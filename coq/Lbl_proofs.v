(* Lbl_proofs.v -- the print / parse round trip of label selectors (C17, stage 2): what [Sel_proofs] takes as the hypothesis RT
   is proved here of the model of apimachinery's printer, lexer and parser ([Lbl.v]):
   - a selector whose requirements labels.NewRequirement accepts prints to a text that parses back to requirements with the
     same meaning for every label set (same verdict, same number of satisfied requirements) -- unless one requirement is
     In / NotIn over an odd number (>= 3) of values that are all the empty string, and then the text does not parse at all (D23);
   - so [selector_key] files a ClusterCIDR under a key exactly when it is representable, and [match_key] on that key decides
     what the selector's own requirements decide. *)
From NIPAM Require Import Sel Lbl Prio_proofs Sel_proofs.
From Coq Require Import Lia ZifyBool Permutation.
Open Scope N_scope.

(* ------------------------------------------------------------------ characters *)
Definition is_idch (c : N) : bool := negb (c =? 0) && negb (is_ws c) && negb (is_special c).
Definition okhd (s : str) : bool := match s with [] => true | d :: _ => negb (d =? 0) && negb (d =? 61) end.

Lemma namech_idch c : is_namech c = true -> is_idch c = true.
Proof. unfold is_namech, is_idch, is_alnum, is_upper, is_lower, is_digit, is_ws, is_special. lia. Qed.
Lemma dnsch_idch c : is_dnsch c = true -> is_idch c = true.
Proof. unfold is_dnsch, is_idch, is_lower, is_digit, is_ws, is_special. lia. Qed.
Lemma idch_okhd c r : is_idch c = true -> okhd (c :: r) = true.
Proof. unfold is_idch, okhd, is_ws, is_special. lia. Qed.

(* ------------------------------------------------------------------ the lexer on identifier characters, operators, blanks *)
Lemma lex_idch c cur r : is_idch c = true ->
  lex cur (c :: r) = lex (Some (match cur with Some b => b ++ [c] | None => [c] end)) r.
Proof.
  unfold is_idch. intros H. apply andb_true_iff in H. destruct H as [H H3]. apply andb_true_iff in H. destruct H as [H1 H2].
  apply negb_true_iff in H1, H2, H3. cbn [lex]. rewrite H1, H2, H3. reflexivity.
Qed.

Lemma lex_some_app w : forallb is_idch w = true -> forall b rest, lex (Some b) (w ++ rest) = lex (Some (b ++ w)) rest.
Proof.
  induction w as [|c w IH]; intros H b rest; [rewrite app_nil_r; reflexivity|].
  cbn [forallb] in H. apply andb_true_iff in H. destruct H as [Hc Hw].
  cbn [app]. rewrite lex_idch by exact Hc. rewrite IH by exact Hw. rewrite <- app_assoc. reflexivity.
Qed.

Lemma lex_none_app w : w <> [] -> forallb is_idch w = true -> forall rest, lex None (w ++ rest) = lex (Some w) rest.
Proof.
  destruct w as [|c w]; [congruence|]. intros _ H rest. cbn [forallb] in H. apply andb_true_iff in H. destruct H as [Hc Hw].
  cbn [app]. rewrite lex_idch by exact Hc. rewrite lex_some_app by exact Hw. reflexivity.
Qed.

Lemma special_cases c : is_special c = true -> c = 61 \/ c = 33 \/ c = 40 \/ c = 41 \/ c = 44 \/ c = 62 \/ c = 60.
Proof. unfold is_special. lia. Qed.

(* a special symbol that is not completed to '!=' or '==' and not followed by a NUL byte *)
Lemma lex_special c cur rest : is_special c = true -> okhd rest = true ->
  lex cur (c :: rest) = flush cur ++ symtok c :: lex None rest.
Proof.
  intros Hs Hk.
  assert (H0 : (c =? 0) = false) by (apply special_cases in Hs; lia).
  assert (Hw : is_ws c = false) by (apply special_cases in Hs; unfold is_ws; lia).
  cbn [lex]. rewrite H0, Hw, Hs. f_equal. destruct rest as [|d r']; [reflexivity|].
  cbn [okhd] in Hk. apply andb_true_iff in Hk. destruct Hk as [K0 K1]. apply negb_true_iff in K0, K1.
  rewrite K1, K0. reflexivity.
Qed.

Lemma lex_space cur rest : lex cur (32 :: rest) = flush cur ++ lex None rest.
Proof. reflexivity. Qed.

(* ------------------------------------------------------------------ the tokens of a printed value list *)
Definition vtok (v : str) : list tok := match v with [] => [] | _ => [idtok v] end.
Fixpoint jointoks (vs : list str) : list tok :=
  match vs with
  | [] => []
  | v :: r => match r with [] => vtok v | _ => vtok v ++ TComma :: jointoks r end
  end.

Definition idstr (v : str) : Prop := forallb is_idch v = true.

Lemma okhd_join vs rest : Forall idstr vs -> okhd (join [44] vs ++ 41 :: rest) = true.
Proof.
  intros H. destruct vs as [|v r]; [reflexivity|]. inversion H as [|? ? Hv Hr]; subst.
  assert (Hh : forall t, okhd (v ++ 44 :: t) = true /\ okhd (v ++ 41 :: t) = true).
  { intros t. destruct v as [|c v]; [split; reflexivity|]. unfold idstr in Hv. cbn [forallb] in Hv. apply andb_true_iff in Hv.
    destruct Hv as [Hc _]. split; apply idch_okhd; exact Hc. }
  cbn [join]. destruct r as [|v2 r].
  - apply Hh.
  - rewrite <- !app_assoc. cbn [app]. apply Hh.
Qed.

Lemma lex_vals vs : Forall idstr vs -> vs <> [] -> forall rest, okhd rest = true ->
  lex None (join [44] vs ++ 41 :: rest) = jointoks vs ++ TClosed :: lex None rest.
Proof.
  induction vs as [|v r IH]; intros H Hne rest Hk; [congruence|]. inversion H as [|? ? Hv Hr]; subst.
  cbn [join jointoks]. destruct r as [|v2 r].
  - destruct v as [|c v].
    + cbn [app vtok]. rewrite lex_special by (try reflexivity; exact Hk). reflexivity.
    + rewrite lex_none_app by (try discriminate; exact Hv). rewrite lex_special by (try reflexivity; exact Hk). reflexivity.
  - rewrite <- !app_assoc. cbn [app].
    assert (Hk2 : okhd (join [44] (v2 :: r) ++ 41 :: rest) = true) by (apply okhd_join; exact Hr).
    destruct v as [|c v].
    + cbn [app vtok]. rewrite lex_special by (try reflexivity; exact Hk2). cbn [flush app symtok]. rewrite IH by (try discriminate; assumption).
      reflexivity.
    + rewrite lex_none_app by (try discriminate; exact Hv). rewrite lex_special by (try reflexivity; exact Hk2).
      rewrite IH by (try discriminate; assumption). reflexivity.
Qed.

(* ------------------------------------------------------------------ what validation guarantees about the characters *)
Lemma split_on_nonnil d s : split_on d s <> [].
Proof. destruct s as [|c r]; cbn; [discriminate|]. destruct (c =? d); [discriminate|]. destruct (split_on d r); discriminate. Qed.

Lemma split_join d s : join [d] (split_on d s) = s.
Proof.
  induction s as [|c r IH]; [reflexivity|]. cbn [split_on]. destruct (N.eqb_spec c d) as [E|E].
  - subst c. pose proof (split_on_nonnil d r) as Hn. cbn [join]. destruct (split_on d r) as [|p ps] eqn:Es; [congruence|].
    rewrite IH. reflexivity.
  - destruct (split_on d r) as [|p ps] eqn:Es; [exfalso; exact (split_on_nonnil d r Es)|].
    cbn [join] in *. destruct ps as [|p2 ps]; [rewrite IH; reflexivity|]. rewrite <- IH. reflexivity.
Qed.

Lemma forallb_join (P : N -> bool) sep parts :
  forallb P sep = true -> Forall (fun p => forallb P p = true) parts -> forallb P (join sep parts) = true.
Proof.
  intros Hs H. induction H as [|p ps Hp Hps IH]; [reflexivity|]. cbn [join]. destruct ps as [|p2 ps]; [exact Hp|].
  rewrite !forallb_app. rewrite Hp, Hs, IH. reflexivity.
Qed.

Lemma forallb_impl {A} (P Q : A -> bool) l : (forall x, P x = true -> Q x = true) -> forallb P l = true -> forallb Q l = true.
Proof. intros H. induction l as [|x l IH]; [reflexivity|]. cbn. intros E. apply andb_true_iff in E. destruct E as [E1 E2]. rewrite (H _ E1), (IH E2). reflexivity. Qed.

Lemma name_re_idstr s : name_re s = true -> s <> [] /\ idstr s.
Proof.
  unfold name_re. destruct s as [|c r]; [discriminate|]. intros H. apply andb_true_iff in H. destruct H as [_ H].
  split; [discriminate|]. exact (forallb_impl _ _ _ namech_idch H).
Qed.

Lemma dns_label_idstr s : dns_label_re s = true -> idstr s.
Proof.
  unfold dns_label_re. destruct s as [|c r]; [discriminate|]. intros H. apply andb_true_iff in H. destruct H as [_ H].
  exact (forallb_impl _ _ _ dnsch_idch H).
Qed.

Lemma valid_key_idstr k : valid_key k = true -> k <> [] /\ idstr k.
Proof.
  unfold valid_key. pose proof (split_join 47 k) as Hj. destruct (split_on 47 k) as [|a [|b [|c l]]]; try discriminate.
  - intros H. apply andb_true_iff in H. destruct H as [_ H]. cbn [join] in Hj. subst a. exact (name_re_idstr _ H).
  - intros H. apply andb_true_iff in H. destruct H as [H Hn]. apply andb_true_iff in H. destruct H as [H _].
    apply andb_true_iff in H. destruct H as [_ Hd].
    cbn [join] in Hj. subst k. split; [destruct a; discriminate|].
    unfold idstr. rewrite !forallb_app.
    destruct (name_re_idstr _ Hn) as [_ Hb]. unfold idstr in Hb. rewrite Hb.
    unfold dns_subdomain in Hd. apply andb_true_iff in Hd. destruct Hd as [_ Hd].
    assert (Ha : forallb is_idch a = true).
    { rewrite <- (split_join 46 a). apply forallb_join; [reflexivity|]. apply Forall_forall. intros p Hp.
      rewrite forallb_forall in Hd. exact (dns_label_idstr _ (Hd p Hp)). }
    rewrite Ha. reflexivity.
Qed.

Lemma valid_value_idstr v : valid_value v = true -> idstr v.
Proof.
  unfold valid_value. intros H. apply andb_true_iff in H. destruct H as [_ H]. apply orb_true_iff in H. destruct H as [H|H].
  - destruct v; [reflexivity|discriminate].
  - exact (proj2 (name_re_idstr _ H)).
Qed.

(* ------------------------------------------------------------------ the tokens of a printed requirement *)
Lemma vals_string_join vs : vals_string vs = join [44] (sort_strs vs).
Proof. destruct vs as [|v [|v2 r]]; reflexivity. Qed.

Definition req_toks (r : req) : list tok :=
  match rop r with
  | OpExists => [idtok (rkey r)]
  | OpDoesNotExist => [TBang; idtok (rkey r)]
  | OpIn => idtok (rkey r) :: TIn :: TOpen :: jointoks (sort_strs (rvals r)) ++ [TClosed]
  | OpNotIn => idtok (rkey r) :: TNotIn :: TOpen :: jointoks (sort_strs (rvals r)) ++ [TClosed]
  | OpGt => idtok (rkey r) :: TGt :: jointoks (rvals r)
  | OpLt => idtok (rkey r) :: TLt :: jointoks (rvals r)
  end.

(* what follows a printed requirement: the end of the text, or a comma and then something that is neither NUL nor '=' *)
Definition tail_ok (rest : str) : Prop := rest = [] \/ exists rest', rest = 44 :: rest' /\ okhd rest' = true.

Lemma tail_ok_okhd rest : tail_ok rest -> okhd rest = true.
Proof. intros [E|(r & E & _)]; subst; reflexivity. Qed.

Lemma lex_flush_tail b rest : tail_ok rest -> lex (Some b) rest = idtok b :: lex None rest.
Proof.
  intros [E|(r & E & Hk)]; subst; [reflexivity|]. rewrite !lex_special by (try reflexivity; exact Hk). reflexivity.
Qed.

Lemma insert_str_in x l y : In y (insert_str x l) <-> y = x \/ In y l.
Proof.
  induction l as [|z l IH]; cbn; [intuition|]. destruct (str_ltb z x); cbn; [rewrite IH|]; intuition.
Qed.
Lemma sort_strs_in l y : In y (sort_strs l) <-> In y l.
Proof. induction l as [|x l IH]; cbn; [tauto|]. rewrite insert_str_in, IH. intuition. Qed.

Lemma sort_strs_nonnil l : l <> [] -> sort_strs l <> [].
Proof. destruct l as [|x l]; [congruence|]. intros _ E. assert (H : In x (sort_strs (x :: l))) by (apply sort_strs_in; left; reflexivity). rewrite E in H. exact H. Qed.

Lemma new_req_ok_facts r : new_req_ok r = true ->
  rkey r <> [] /\ idstr (rkey r) /\ Forall idstr (rvals r) /\
  match rop r with
  | OpIn | OpNotIn => rvals r <> []
  | OpExists | OpDoesNotExist => rvals r = []
  | OpGt | OpLt => exists v, rvals r = [v] /\ v <> [] /\ is_some (parse_int64 v) = true
  end.
Proof.
  unfold new_req_ok. intros H. apply andb_true_iff in H. destruct H as [H Ho]. apply andb_true_iff in H. destruct H as [Hk Hv].
  destruct (valid_key_idstr _ Hk) as [K1 K2]. split; [exact K1|]. split; [exact K2|]. split.
  { apply Forall_forall. intros v Hin. rewrite forallb_forall in Hv. exact (valid_value_idstr _ (Hv v Hin)). }
  destruct (rop r); try (destruct (rvals r); [discriminate Ho || reflexivity|discriminate Ho || discriminate]);
    (destruct (rvals r) as [|v [|v2 l]]; try discriminate Ho; exists v; split; [reflexivity|]; split; [|exact Ho];
     intros E; subst v; discriminate Ho).
Qed.

Lemma idstr_okhd w rest : w <> [] -> idstr w -> okhd (w ++ rest) = true.
Proof.
  destruct w as [|c w]; [congruence|]. intros _ H. unfold idstr in H. cbn [forallb] in H. apply andb_true_iff in H.
  cbn [app]. apply idch_okhd. exact (proj1 H).
Qed.

Lemma lex_req r rest : new_req_ok r = true -> tail_ok rest -> lex None (req_string r ++ rest) = req_toks r ++ lex None rest.
Proof.
  intros Hok Ht. destruct (new_req_ok_facts r Hok) as (K1 & K2 & Hvs & Hop). pose proof (tail_ok_okhd _ Ht) as Hk.
  assert (Hsorted : Forall idstr (sort_strs (rvals r))).
  { apply Forall_forall. intros v Hin. apply (proj1 (sort_strs_in _ _)) in Hin. rewrite Forall_forall in Hvs. exact (Hvs v Hin). }
  unfold req_string, req_toks. destruct (rop r).
  - (* In *)
    rewrite vals_string_join. rewrite <- !app_assoc. rewrite lex_none_app by assumption. cbn [app kw_in]. rewrite lex_space.
    rewrite !lex_idch by reflexivity. cbn [app]. rewrite lex_space. rewrite <- !app_assoc. cbn [app].
    rewrite lex_special by (try reflexivity; apply okhd_join; exact Hsorted).
    rewrite lex_vals by (try assumption; apply sort_strs_nonnil; exact Hop).
    reflexivity.
  - (* NotIn *)
    rewrite vals_string_join. rewrite <- !app_assoc. rewrite lex_none_app by assumption. cbn [app kw_notin]. rewrite lex_space.
    rewrite !lex_idch by reflexivity. cbn [app]. rewrite lex_space. rewrite <- !app_assoc. cbn [app].
    rewrite lex_special by (try reflexivity; apply okhd_join; exact Hsorted).
    rewrite lex_vals by (try assumption; apply sort_strs_nonnil; exact Hop).
    reflexivity.
  - (* Exists *)
    rewrite lex_none_app by assumption. rewrite lex_flush_tail by exact Ht. reflexivity.
  - (* DoesNotExist *)
    cbn [app]. rewrite lex_special by (try reflexivity; apply idstr_okhd; assumption).
    rewrite lex_none_app by assumption. rewrite lex_flush_tail by exact Ht. reflexivity.
  - (* Gt *)
    destruct Hop as (v & Ev & Hv & _). rewrite Ev in *. cbn [vals_string jointoks vtok]. inversion Hvs as [|? ? Hiv _]; subst.
    rewrite <- app_assoc. rewrite lex_none_app by assumption. cbn [app].
    rewrite lex_special by (try reflexivity; apply idstr_okhd; assumption).
    rewrite lex_none_app by assumption. rewrite lex_flush_tail by exact Ht. destruct v; [congruence|]. reflexivity.
  - (* Lt *)
    destruct Hop as (v & Ev & Hv & _). rewrite Ev in *. cbn [vals_string jointoks vtok]. inversion Hvs as [|? ? Hiv _]; subst.
    rewrite <- app_assoc. rewrite lex_none_app by assumption. cbn [app].
    rewrite lex_special by (try reflexivity; apply idstr_okhd; assumption).
    rewrite lex_none_app by assumption. rewrite lex_flush_tail by exact Ht. destruct v; [congruence|]. reflexivity.
Qed.

(* ------------------------------------------------------------------ the tokens of a printed selector *)
Fixpoint sel_toks (rs : list req) : list tok :=
  match rs with
  | [] => []
  | r :: rest => match rest with [] => req_toks r | _ => req_toks r ++ TComma :: sel_toks rest end
  end.

Lemma okhd_req_string r t : new_req_ok r = true -> okhd (req_string r ++ t) = true.
Proof.
  intros Hok. destruct (new_req_ok_facts r Hok) as (K1 & K2 & _ & _). unfold req_string.
  destruct (rop r); try (rewrite <- app_assoc; apply idstr_okhd; assumption); try (apply idstr_okhd; assumption). reflexivity.
Qed.

Lemma okhd_sel_string rs : Forall (fun r => new_req_ok r = true) rs -> rs <> [] -> okhd (sel_string_of rs) = true.
Proof.
  intros H Hne. destruct rs as [|r rest]; [congruence|]. inversion H as [|? ? Hr _]; subst. unfold sel_string_of. cbn [map join].
  destruct (map req_string rest); [rewrite <- (app_nil_r (req_string r))|]; apply okhd_req_string; exact Hr.
Qed.

Theorem lex_sel rs : Forall (fun r => new_req_ok r = true) rs -> lex None (sel_string_of rs) = sel_toks rs ++ [TEnd].
Proof.
  induction rs as [|r rest IH]; intros H; [reflexivity|]. inversion H as [|? ? Hr Hrest]; subst.
  unfold sel_string_of in *. cbn [map join sel_toks]. destruct rest as [|r2 rest].
  - assert (Ht : tail_ok []) by (left; reflexivity).
    cbn [map]. rewrite <- (app_nil_r (req_string r)). rewrite lex_req by assumption. reflexivity.
  - cbn [map]. cbn [map] in IH. set (J := join [44] (req_string r2 :: map req_string rest)) in *.
    assert (HJ : okhd J = true) by (apply (okhd_sel_string (r2 :: rest)); [exact Hrest|discriminate]).
    assert (Ht : tail_ok (44 :: J)) by (right; exists J; split; [reflexivity|exact HJ]).
    cbn [app]. rewrite lex_req by assumption.
    rewrite lex_special by (try reflexivity; exact HJ). rewrite IH by exact Hrest. cbn [flush app symtok].
    rewrite <- app_assoc. reflexivity.
Qed.

(* ------------------------------------------------------------------ sorted value lists: the empty strings come first *)
Definition nonempty (v : str) : bool := negb (is_nil v).

Lemma insert_nil l : insert_str [] l = [] :: l.
Proof. destruct l as [|y r]; [reflexivity|]. cbn. destruct y; reflexivity. Qed.

Lemma insert_past_nils x k W : x <> [] -> insert_str x (repeat [] k ++ W) = repeat [] k ++ insert_str x W.
Proof. intros Hx. induction k as [|k IH]; [reflexivity|]. cbn. destruct x; [congruence|]. cbn in *. rewrite IH. reflexivity. Qed.

Lemma sort_shape vs : sort_strs vs = repeat [] (length (filter is_nil vs)) ++ sort_strs (filter nonempty vs).
Proof.
  induction vs as [|x r IH]; [reflexivity|]. change (sort_strs (x :: r)) with (insert_str x (sort_strs r)). rewrite IH.
  destruct x as [|c x].
  - cbn [filter is_nil nonempty negb length repeat app]. apply insert_nil.
  - cbn [filter is_nil nonempty negb]. rewrite insert_past_nils by discriminate. reflexivity.
Qed.

Lemma sorted_nonempty vs : Forall (fun w => w <> []) (sort_strs (filter nonempty vs)).
Proof.
  apply Forall_forall. intros w Hin. apply (proj1 (sort_strs_in _ _)) in Hin. apply filter_In in Hin. destruct Hin as [_ H].
  destruct w; [discriminate H|discriminate].
Qed.

Lemma all_nil_filter vs : filter nonempty vs = [] -> filter is_nil vs = vs /\ forallb is_nil vs = true.
Proof.
  induction vs as [|x r IH]; [split; reflexivity|]. destruct x as [|c x]; cbn; [|discriminate]. intros H. destruct (IH H) as [A B].
  rewrite A, B. split; reflexivity.
Qed.

Lemma some_nonnil_filter vs : filter nonempty vs <> [] -> forallb is_nil vs = false.
Proof.
  induction vs as [|x r IH]; [intros H; exfalso; apply H; reflexivity|]. destruct x as [|c x]; cbn; [exact IH|reflexivity].
Qed.

(* ------------------------------------------------------------------ the parser on printed value lists *)
Lemma as_val_idtok v : as_val (idtok v) = TId v.
Proof.
  unfold idtok. destruct (str_eqb v kw_in) eqn:E; [apply str_eqb_eq in E; subst; reflexivity|].
  destruct (str_eqb v kw_notin) eqn:E2; [apply str_eqb_eq in E2; subst; reflexivity|reflexivity].
Qed.

Fixpoint idjoin (ws : list str) : list tok :=
  match ws with
  | [] => []
  | w :: r => match r with [] => [idtok w] | _ => idtok w :: TComma :: idjoin r end
  end.

Lemma jointoks_nonempty W : Forall (fun w => w <> []) W -> jointoks W = idjoin W.
Proof.
  induction W as [|w r IH]; intros H; [reflexivity|]. inversion H as [|? ? Hw Hr]; subst. cbn [jointoks idjoin].
  destruct w as [|c w]; [congruence|]. cbn [vtok]. destruct r; [reflexivity|]. rewrite IH by exact Hr. reflexivity.
Qed.

Lemma jointoks_shape k W : Forall (fun w => w <> []) W ->
  jointoks (repeat [] k ++ W) = match W with [] => repeat TComma (pred k) | _ => repeat TComma k ++ idjoin W end.
Proof.
  intros HW. induction k as [|k IH].
  - cbn [repeat app]. rewrite jointoks_nonempty by exact HW. destruct W; reflexivity.
  - cbn [repeat app jointoks vtok]. destruct (repeat [] k ++ W) as [|y l] eqn:E.
    + destruct k; [|discriminate E]. cbn in E. subst W. reflexivity.
    + rewrite IH. destruct W as [|w W'].
      * destruct k; [discriminate E|]. reflexivity.
      * reflexivity.
Qed.

Lemma idjoin_cons w W : idjoin (w :: W) = idtok w :: match W with [] => [] | _ => TComma :: idjoin W end.
Proof. destruct W; reflexivity. Qed.

Definition s1_of (s : list str) : list str := match s with [] => [[]] | _ => s end.

Lemma step_id_comma s w t : parse_idlist s (idtok w :: TComma :: t) = parse_idlist (w :: s) (TComma :: t).
Proof. cbn [parse_idlist]. rewrite as_val_idtok. reflexivity. Qed.
Lemma step_id_closed s w t : parse_idlist s (idtok w :: TClosed :: t) = Some (w :: s, TClosed :: t).
Proof. cbn [parse_idlist]. rewrite as_val_idtok. reflexivity. Qed.
Lemma step_comma_id s t x : hdv t = TId x -> parse_idlist s (TComma :: t) = parse_idlist (s1_of s) t.
Proof. intros H. cbn [parse_idlist as_val]. rewrite H. reflexivity. Qed.
Lemma step_comma_closed s t : parse_idlist s (TComma :: TClosed :: t) = Some ([] :: s1_of s, TClosed :: t).
Proof. reflexivity. Qed.
Lemma step_comma_comma s t : parse_idlist s (TComma :: TComma :: t) = parse_idlist ([] :: s1_of s) t.
Proof. reflexivity. Qed.

Lemma hdv_idjoin w W t : hdv (idjoin (w :: W) ++ t) = TId w.
Proof. rewrite idjoin_cons. cbn [app hdv]. apply as_val_idtok. Qed.

Lemma pid_ids W : W <> [] -> forall s rest,
  parse_idlist s (idjoin W ++ TClosed :: rest) = Some (rev W ++ s, TClosed :: rest).
Proof.
  induction W as [|w W IH]; intros Hne s rest; [congruence|]. destruct W as [|w2 W].
  - cbn [idjoin app]. apply step_id_closed.
  - change (idjoin (w :: w2 :: W)) with (idtok w :: TComma :: idjoin (w2 :: W)). cbn [app].
    rewrite step_id_comma. rewrite (step_comma_id _ _ w2) by apply hdv_idjoin. cbn [s1_of].
    rewrite IH by discriminate. cbn [rev]. rewrite <- !app_assoc. reflexivity.
Qed.

Lemma s1_of_in s x : In x (s1_of s) <-> (s = [] /\ x = []) \/ In x s.
Proof. destruct s as [|y l]; cbn; [intuition congruence|]. intuition congruence. Qed.

(* a run of commas up to the closing parenthesis: an odd number is read as the empty string, an even number (two or more) is
   an error -- the parser takes the commas two at a time and then finds ')' where it expects ',' or an identifier *)
Lemma pid_commas_odd rest : forall m s, exists s',
  parse_idlist s (repeat TComma (2 * m + 1) ++ TClosed :: rest) = Some (s', TClosed :: rest) /\ forall x, In x s' <-> x = [] \/ In x s.
Proof.
  induction m as [|m IH]; intros s.
  - cbn [Nat.mul Nat.add repeat app]. rewrite step_comma_closed. eexists. split; [reflexivity|]. intros x. cbn [In]. rewrite s1_of_in. intuition.
  - replace (2 * S m + 1)%nat with (S (S (2 * m + 1))) by lia. cbn [repeat app]. rewrite step_comma_comma.
    destruct (IH ([] :: s1_of s)) as (s' & E & M). exists s'. split; [exact E|]. intros x. rewrite M. cbn [In]. rewrite s1_of_in. intuition.
Qed.

Lemma pid_commas_even rest : forall m s, parse_idlist s (repeat TComma (2 * m + 2) ++ TClosed :: rest) = None.
Proof.
  induction m as [|m IH]; intros s.
  - reflexivity.
  - replace (2 * S m + 2)%nat with (S (S (2 * m + 2))) by lia. cbn [repeat app]. rewrite step_comma_comma. apply IH.
Qed.

(* commas and then identifiers *)
Lemma pid_commas_ids W rest : W <> [] -> forall k,
  (forall s, (k = 0%nat \/ s = [] \/ In [] s) -> exists s',
     parse_idlist s (repeat TComma k ++ idjoin W ++ TClosed :: rest) = Some (s', TClosed :: rest) /\
     forall x, In x s' <-> ((1 <= k)%nat /\ x = []) \/ In x s \/ In x W) /\
  (forall s, (s = [] \/ In [] s) -> exists s',
     parse_idlist s (repeat TComma (S k) ++ idjoin W ++ TClosed :: rest) = Some (s', TClosed :: rest) /\
     forall x, In x s' <-> x = [] \/ In x s \/ In x W).
Proof.
  intros HW. destruct W as [|w0 W0] eqn:EW; [congruence|]. rewrite <- EW in *. assert (Hhd : forall t, hdv (idjoin W ++ t) = TId w0) by (intros t; rewrite EW; apply hdv_idjoin).
  clear EW.
  assert (Q1 : forall s, (s = [] \/ In [] s) -> exists s',
     parse_idlist s (repeat TComma 1 ++ idjoin W ++ TClosed :: rest) = Some (s', TClosed :: rest) /\
     forall x, In x s' <-> x = [] \/ In x s \/ In x W).
  { intros s Hs. cbn [repeat app]. rewrite (step_comma_id _ _ w0) by apply Hhd. rewrite pid_ids by exact HW. eexists. split; [reflexivity|].
    intros x. rewrite in_app_iff, <- in_rev, s1_of_in. destruct Hs as [Hs|Hs]; [subst s; cbn [In]; intuition|]. intuition; subst; intuition. }
  induction k as [|k IH].
  - split; [|exact Q1]. intros s _. cbn [repeat app]. rewrite pid_ids by exact HW. eexists. split; [reflexivity|].
    intros x. rewrite in_app_iff, <- in_rev. intuition lia.
  - destruct IH as [IHa IHb]. split.
    + intros s Hs. destruct Hs as [Hs|Hs]; [discriminate Hs|]. destruct (IHb s Hs) as (s' & E & M). exists s'. split; [exact E|].
      intros x. rewrite M. intuition lia.
    + intros s Hs. cbn [repeat app]. rewrite step_comma_comma.
      destruct (IHa ([] :: s1_of s)) as (s' & E & M); [right; right; left; reflexivity|]. exists s'. split; [exact E|].
      intros x. rewrite M. cbn [In]. rewrite s1_of_in. intuition.
Qed.

Definition bad_vals (vs : list str) : bool := forallb is_nil vs && (3 <=? length vs)%nat && Nat.odd (length vs).

Lemma in_repeat_nil (x : str) k : In x (repeat [] k) <-> (1 <= k)%nat /\ x = [].
Proof. induction k as [|k IH]; cbn; [intuition lia|]. rewrite IH. intuition (try lia; try congruence). Qed.

Lemma parse_values_step_list s t x rest' :
  (hdv t = TId x \/ hdv t = TComma) -> parse_idlist [] t = Some (s, TClosed :: rest') -> parse_values (TOpen :: t) = Some (s, rest').
Proof. intros H E. cbn [parse_values as_val]. destruct H as [H|H]; rewrite H, E; reflexivity. Qed.

Lemma parse_values_step_none t x :
  (hdv t = TId x \/ hdv t = TComma) -> parse_idlist [] t = None -> parse_values (TOpen :: t) = None.
Proof. intros H E. cbn [parse_values as_val]. destruct H as [H|H]; rewrite H, E; reflexivity. Qed.

(* the values of a printed In / NotIn requirement are read back as the same set -- or not at all *)
Lemma parse_values_printed vs rest : vs <> [] ->
  if bad_vals vs then parse_values (TOpen :: jointoks (sort_strs vs) ++ TClosed :: rest) = None
  else exists s, parse_values (TOpen :: jointoks (sort_strs vs) ++ TClosed :: rest) = Some (s, rest) /\ forall x, In x s <-> In x vs.
Proof.
  intros Hne. pose proof (sort_strs_in vs) as Hmem. rewrite sort_shape in Hmem |- *.
  rewrite jointoks_shape by apply sorted_nonempty.
  remember (length (filter is_nil vs)) as k eqn:Ek0.
  destruct (sort_strs (filter nonempty vs)) as [|w0 W0] eqn:EW.
  - (* only empty strings *)
    assert (Hf : filter nonempty vs = []).
    { destruct (filter nonempty vs) as [|y l] eqn:Ef; [reflexivity|]. exfalso. apply (sort_strs_nonnil (y :: l)); [discriminate|exact EW]. }
    destruct (all_nil_filter _ Hf) as [Hall Hb].
    assert (Ek : length vs = k) by (rewrite Ek0, Hall; reflexivity).
    unfold bad_vals. rewrite Hb, Ek. cbn [andb].
    assert (Hx : forall x, In x vs <-> x = []).
    { intros x. split.
      - intros Hin. rewrite forallb_forall in Hb. specialize (Hb x Hin). destruct x; [reflexivity|discriminate].
      - intros ->. destruct vs as [|v l]; [congruence|]. cbn [forallb] in Hb. apply andb_true_iff in Hb. destruct v; [left; reflexivity|destruct Hb; discriminate]. }
    clear Ek0. destruct k as [|[|c]].
    + destruct vs; [congruence|discriminate Ek].
    + cbn. eexists. split; [reflexivity|]. intros x. rewrite Hx. cbn. intuition.
    + cbn [pred]. change (3 <=? S (S c))%nat with (1 <=? c)%nat. rewrite Nat.odd_succ_succ.
      destruct (Nat.odd c) eqn:Eo.
      * apply Nat.odd_spec in Eo. destruct Eo as [m Em]. subst c. replace (1 <=? 2 * m + 1)%nat with true by (symmetry; apply Nat.leb_le; lia).
        cbn [andb]. replace (S (2 * m + 1)) with (2 * m + 2)%nat by lia.
        apply (parse_values_step_none _ []); [right; replace (2 * m + 2)%nat with (S (2 * m + 1)) by lia; reflexivity|apply pid_commas_even].
      * rewrite andb_false_r. assert (Ee : Nat.even c = true) by (rewrite <- Nat.negb_odd, Eo; reflexivity).
        apply Nat.even_spec in Ee. destruct Ee as [m Em]. subst c. replace (S (2 * m)) with (2 * m + 1)%nat by lia.
        destruct (pid_commas_odd rest m []) as (s' & E & M). exists s'. split.
        { apply (parse_values_step_list _ _ []); [right; replace (2 * m + 1)%nat with (S (2 * m)) by lia; reflexivity|exact E]. }
        intros x. rewrite M, Hx. cbn. intuition.
  - (* some value is not empty *)
    assert (Hf : filter nonempty vs <> []) by (intros E; rewrite E in EW; discriminate EW).
    unfold bad_vals. rewrite (some_nonnil_filter _ Hf). cbn [andb].
    destruct (pid_commas_ids (w0 :: W0) rest ltac:(discriminate) k) as [Ha _].
    destruct (Ha []) as (s' & E & M); [right; left; reflexivity|]. exists s'. rewrite <- app_assoc. split.
    { apply (parse_values_step_list _ _ w0); [|exact E]. destruct k; [left; apply hdv_idjoin|right; reflexivity]. }
    intros x. rewrite M, <- Hmem, in_app_iff, in_repeat_nil. cbn [In]. intuition.
Qed.

(* ------------------------------------------------------------------ the parser on a printed requirement *)
Lemma dedup_sorted_in l x : In x (dedup_sorted l) <-> In x l.
Proof.
  induction l as [|a r IH]; [tauto|]. cbn [dedup_sorted]. destruct r as [|b r']; [tauto|].
  destruct (str_eqb a b) eqn:E.
  - apply str_eqb_eq in E. subst b. rewrite IH. cbn [In]. intuition.
  - cbn [In] in *. rewrite IH. tauto.
Qed.
Lemma norm_set_in l x : In x (norm_set l) <-> In x l.
Proof. unfold norm_set. rewrite dedup_sorted_in. apply sort_strs_in. Qed.

Lemma str_in_In v l : str_in v l = true <-> In v l.
Proof.
  unfold str_in. rewrite existsb_exists. split.
  - intros (x & Hin & E). apply str_eqb_eq in E. subst. exact Hin.
  - intros H. exists v. split; [exact H|apply str_eqb_refl].
Qed.
Lemma str_in_ext v a b : (forall x, In x a <-> In x b) -> str_in v a = str_in v b.
Proof.
  intros H. destruct (str_in v a) eqn:Ea; destruct (str_in v b) eqn:Eb; try reflexivity.
  - apply str_in_In in Ea. apply H in Ea. apply str_in_In in Ea. congruence.
  - apply str_in_In in Eb. apply H in Eb. apply str_in_In in Eb. congruence.
Qed.

Lemma parse_req_key key r0 : valid_key key = true ->
  parse_req (idtok key :: r0) =
  match hdv r0 with
  | TEnd | TComma => Some (mkPReq key PExists [], r0)
  | _ => match r0 with
         | [] => None
         | t1 :: r1 =>
             match op_of_tok t1 with
             | None => None
             | Some op =>
                 match (match op with PIn | PNotIn => parse_values r1 | _ => parse_exact r1 end) with
                 | None => None
                 | Some (s, r2) => if new_preq_ok key op (norm_set s) then Some (mkPReq key op (norm_set s), r2) else None
                 end
             end
         end
  end.
Proof. intros Hv. unfold parse_req. rewrite as_val_idtok. cbn beta iota. rewrite Hv. reflexivity. Qed.

Lemma parse_req_bang key r0 : valid_key key = true -> parse_req (TBang :: idtok key :: r0) = Some (mkPReq key PDNE [], r0).
Proof. intros Hv. unfold parse_req. cbn [as_val hdv tl]. rewrite as_val_idtok. cbn beta iota. rewrite Hv. reflexivity. Qed.

Definition sep_next (rest : list tok) : Prop := hdv rest = TEnd \/ hdv rest = TComma.

Lemma parse_req_printed r rest : new_req_ok r = true -> sep_next rest ->
  if bad_req r then parse_req (req_toks r ++ rest) = None
  else exists p, parse_req (req_toks r ++ rest) = Some (p, rest) /\ forall ls, req_matches ls (to_req p) = req_matches ls r.
Proof.
  intros Hok Hsep. pose proof Hok as Hok'. unfold new_req_ok in Hok'. apply andb_true_iff in Hok'. destruct Hok' as [Hok' Hopc].
  apply andb_true_iff in Hok'. destruct Hok' as [Hkey Hvals]. destruct (new_req_ok_facts r Hok) as (_ & _ & _ & Hop).
  destruct r as [key op vs]. cbn [rkey rop rvals] in *. unfold bad_req, req_toks. cbn [rkey rop rvals].
  assert (Hset : forall s (o : pop), (forall x, In x s <-> In x vs) -> vs <> [] -> (o = PIn \/ o = PNotIn) ->
             new_preq_ok key o (norm_set s) = true).
  { intros s o M Hne Ho. unfold new_preq_ok. rewrite Hkey. cbn [andb].
    assert (Hvv : forallb valid_value (norm_set s) = true).
    { apply forallb_forall. intros x Hx. apply (proj1 (norm_set_in _ _)) in Hx. apply (proj1 (M _)) in Hx. rewrite forallb_forall in Hvals. exact (Hvals x Hx). }
    rewrite Hvv. cbn [andb]. assert (Hnn : norm_set s <> []).
    { destruct vs as [|v l]; [congruence|]. intros E. assert (Hin : In v (norm_set s)) by (apply norm_set_in, M; left; reflexivity). rewrite E in Hin. exact Hin. }
    destruct Ho; subst o; destruct (norm_set s); try congruence; reflexivity. }
  destruct op.
  - (* In *)
    cbn [app]. rewrite parse_req_key by exact Hkey. cbn [hdv as_val op_of_tok]. rewrite <- app_assoc. cbn [app].
    pose proof (parse_values_printed vs rest Hop) as Hpv. change (forallb is_nil vs && (3 <=? length vs)%nat && Nat.odd (length vs)) with (bad_vals vs).
    destruct (bad_vals vs).
    + rewrite Hpv. reflexivity.
    + destruct Hpv as (s & E & M). rewrite E. rewrite (Hset s PIn M Hop (or_introl eq_refl)). eexists. split; [reflexivity|].
      intros ls. cbn. destruct (lookup key ls) as [v|]; [|reflexivity]. apply str_in_ext. intros x. rewrite norm_set_in. apply M.
  - (* NotIn *)
    cbn [app]. rewrite parse_req_key by exact Hkey. cbn [hdv as_val op_of_tok]. rewrite <- app_assoc. cbn [app].
    pose proof (parse_values_printed vs rest Hop) as Hpv. change (forallb is_nil vs && (3 <=? length vs)%nat && Nat.odd (length vs)) with (bad_vals vs).
    destruct (bad_vals vs).
    + rewrite Hpv. reflexivity.
    + destruct Hpv as (s & E & M). rewrite E. rewrite (Hset s PNotIn M Hop (or_intror eq_refl)). eexists. split; [reflexivity|].
      intros ls. cbn. destruct (lookup key ls) as [v|]; [|reflexivity]. f_equal. apply str_in_ext. intros x. rewrite norm_set_in. apply M.
  - (* Exists *)
    subst vs. cbn [app]. rewrite parse_req_key by exact Hkey. destruct Hsep as [H|H]; rewrite H; (eexists; split; [reflexivity|reflexivity]).
  - (* DoesNotExist *)
    subst vs. cbn [app]. rewrite parse_req_bang by exact Hkey. eexists; split; reflexivity.
  - (* Gt *)
    destruct Hop as (v & Ev & Hv & Hint). subst vs. destruct v as [|c v]; [congruence|]. cbn [jointoks vtok app].
    rewrite parse_req_key by exact Hkey. cbn [hdv as_val op_of_tok]. unfold parse_exact. cbn [hdv]. rewrite as_val_idtok.
    cbn [forallb] in Hvals. rewrite andb_true_r in Hvals.
    cbn beta iota. eexists. split.
    { match goal with |- context [new_preq_ok ?a ?b ?c] => assert (Hn : new_preq_ok a b c = true) end.
      { unfold new_preq_ok. rewrite Hkey. cbn [norm_set sort_strs fold_right insert_str dedup_sorted forallb]. rewrite Hvals, Hint. reflexivity. }
      rewrite Hn. reflexivity. }
    intros ls. reflexivity.
  - (* Lt *)
    destruct Hop as (v & Ev & Hv & Hint). subst vs. destruct v as [|c v]; [congruence|]. cbn [jointoks vtok app].
    rewrite parse_req_key by exact Hkey. cbn [hdv as_val op_of_tok]. unfold parse_exact. cbn [hdv]. rewrite as_val_idtok.
    cbn [forallb] in Hvals. rewrite andb_true_r in Hvals.
    cbn beta iota. eexists. split.
    { match goal with |- context [new_preq_ok ?a ?b ?c] => assert (Hn : new_preq_ok a b c = true) end.
      { unfold new_preq_ok. rewrite Hkey. cbn [norm_set sort_strs fold_right insert_str dedup_sorted forallb]. rewrite Hvals, Hint. reflexivity. }
      rewrite Hn. reflexivity. }
    intros ls. reflexivity.
Qed.

(* ------------------------------------------------------------------ the parser on a printed selector *)
Lemma parse_loop_step f ts acc k : (hdv ts = TId k \/ hdv ts = TBang) ->
  parse_loop (S f) ts acc =
  match parse_req ts with
  | None => None
  | Some (r, ts1) =>
      match ts1 with
      | [] => None
      | t :: ts2 =>
          match as_val t with
          | TEnd => Some (rev (r :: acc))
          | TComma => match hdv ts2 with TId _ | TBang => parse_loop f ts2 (r :: acc) | _ => None end
          | _ => None
          end
      end
  end.
Proof. intros [H|H]; cbn [parse_loop]; rewrite H; reflexivity. Qed.

Lemma hdv_req_toks r t : hdv (req_toks r ++ t) = TId (rkey r) \/ hdv (req_toks r ++ t) = TBang.
Proof. unfold req_toks. destruct (rop r); cbn [app hdv]; try (left; apply as_val_idtok). right. reflexivity. Qed.

Lemma hdv_sel_toks r rest t : hdv (sel_toks (r :: rest) ++ t) = TId (rkey r) \/ hdv (sel_toks (r :: rest) ++ t) = TBang.
Proof. cbn [sel_toks]. destruct rest; [apply hdv_req_toks|]. rewrite <- app_assoc. apply hdv_req_toks. Qed.

Definition same_meaning (p : preq) (r : req) : Prop := forall ls, req_matches ls (to_req p) = req_matches ls r.

Lemma parse_loop_printed : forall rs fuel acc, Forall (fun r => new_req_ok r = true) rs -> (length rs < fuel)%nat ->
  if existsb bad_req rs then parse_loop fuel (sel_toks rs ++ [TEnd]) acc = None
  else exists ps, parse_loop fuel (sel_toks rs ++ [TEnd]) acc = Some (rev acc ++ ps) /\ Forall2 same_meaning ps rs.
Proof.
  induction rs as [|r rest IH]; intros fuel acc Hok Hf.
  - destruct fuel as [|f]; [lia|]. cbn. exists []. rewrite app_nil_r. split; [reflexivity|constructor].
  - destruct fuel as [|f]; [cbn in Hf; lia|]. inversion Hok as [|? ? Hr Hrest]; subst. cbn [existsb].
    destruct (hdv_sel_toks r rest [TEnd]) as [Hh|Hh].
    + rewrite (parse_loop_step _ _ _ _ (or_introl Hh)). clear Hh. revert IH Hrest Hf. cbn [sel_toks]. destruct rest as [|r2 rest']; intros IH Hrest Hf.
      * pose proof (parse_req_printed r [TEnd] Hr (or_introl eq_refl)) as Hp. destruct (bad_req r); cbn [orb existsb].
        { rewrite Hp. reflexivity. }
        destruct Hp as (p & E & M). rewrite E. cbn [as_val rev]. exists [p]. split; [reflexivity|]. constructor; [exact M|constructor].
      * rewrite <- app_assoc. cbn [app].
        pose proof (parse_req_printed r (TComma :: sel_toks (r2 :: rest') ++ [TEnd]) Hr (or_intror eq_refl)) as Hp.
        destruct (bad_req r); cbn [orb].
        { rewrite Hp. reflexivity. }
        destruct Hp as (p & E & M). rewrite E. cbn [as_val].
        assert (Hn : exists x, hdv (sel_toks (r2 :: rest') ++ [TEnd]) = TId x \/ hdv (sel_toks (r2 :: rest') ++ [TEnd]) = TBang)
          by (exists (rkey r2); apply hdv_sel_toks).
        destruct Hn as (x & Hn).
        assert (Hlen : (length (r2 :: rest') < f)%nat) by (cbn [length] in *; lia).
        pose proof (IH f (p :: acc) Hrest Hlen) as Hrec.
        destruct Hn as [Hn|Hn]; rewrite Hn.
        { destruct (existsb bad_req (r2 :: rest')); [exact Hrec|]. destruct Hrec as (ps & E2 & F2). exists (p :: ps). split.
          - rewrite E2. cbn [rev]. rewrite <- app_assoc. reflexivity.
          - constructor; assumption. }
        { destruct (existsb bad_req (r2 :: rest')); [exact Hrec|]. destruct Hrec as (ps & E2 & F2). exists (p :: ps). split.
          - rewrite E2. cbn [rev]. rewrite <- app_assoc. reflexivity.
          - constructor; assumption. }
    + rewrite (parse_loop_step _ _ _ [] (or_intror Hh)). clear Hh. revert IH Hrest Hf. cbn [sel_toks]. destruct rest as [|r2 rest']; intros IH Hrest Hf.
      * pose proof (parse_req_printed r [TEnd] Hr (or_introl eq_refl)) as Hp. destruct (bad_req r); cbn [orb existsb].
        { rewrite Hp. reflexivity. }
        destruct Hp as (p & E & M). rewrite E. cbn [as_val rev]. exists [p]. split; [reflexivity|]. constructor; [exact M|constructor].
      * rewrite <- app_assoc. cbn [app].
        pose proof (parse_req_printed r (TComma :: sel_toks (r2 :: rest') ++ [TEnd]) Hr (or_intror eq_refl)) as Hp.
        destruct (bad_req r); cbn [orb].
        { rewrite Hp. reflexivity. }
        destruct Hp as (p & E & M). rewrite E. cbn [as_val].
        assert (Hn : exists x, hdv (sel_toks (r2 :: rest') ++ [TEnd]) = TId x \/ hdv (sel_toks (r2 :: rest') ++ [TEnd]) = TBang)
          by (exists (rkey r2); apply hdv_sel_toks).
        destruct Hn as (x & Hn).
        assert (Hlen : (length (r2 :: rest') < f)%nat) by (cbn [length] in *; lia).
        pose proof (IH f (p :: acc) Hrest Hlen) as Hrec.
        destruct Hn as [Hn|Hn]; rewrite Hn.
        { destruct (existsb bad_req (r2 :: rest')); [exact Hrec|]. destruct Hrec as (ps & E2 & F2). exists (p :: ps). split.
          - rewrite E2. cbn [rev]. rewrite <- app_assoc. reflexivity.
          - constructor; assumption. }
        { destruct (existsb bad_req (r2 :: rest')); [exact Hrec|]. destruct Hrec as (ps & E2 & F2). exists (p :: ps). split.
          - rewrite E2. cbn [rev]. rewrite <- app_assoc. reflexivity.
          - constructor; assumption. }
Qed.

(* ------------------------------------------------------------------ permutations: sorting by key changes neither verdict nor count *)
Lemma insert_req_perm x l : Permutation (insert_req x l) (x :: l).
Proof.
  induction l as [|y r IH]; [apply Permutation_refl|]. cbn [insert_req]. destruct (str_ltb (rkey y) (rkey x)); [|apply Permutation_refl].
  eapply Permutation_trans; [apply perm_skip; exact IH|apply perm_swap].
Qed.
Lemma sort_reqs_perm l : Permutation (sort_reqs l) l.
Proof. induction l as [|x l IH]; [constructor|]. cbn. eapply Permutation_trans; [apply insert_req_perm|apply perm_skip; exact IH]. Qed.
Lemma insert_preq_perm x l : Permutation (insert_preq x l) (x :: l).
Proof.
  induction l as [|y r IH]; [apply Permutation_refl|]. cbn [insert_preq]. destruct (str_ltb (pkey y) (pkey x)); [|apply Permutation_refl].
  eapply Permutation_trans; [apply perm_skip; exact IH|apply perm_swap].
Qed.
Lemma sort_preqs_perm l : Permutation (sort_preqs l) l.
Proof. induction l as [|x l IH]; [constructor|]. cbn. eapply Permutation_trans; [apply insert_preq_perm|apply perm_skip; exact IH]. Qed.

Lemma filter_length_perm {A} (f : A -> bool) a b : Permutation a b -> length (filter f a) = length (filter f b).
Proof.
  intros H. induction H as [|x l l' _ IH|x y l|l l' l'' _ IH1 _ IH2]; cbn; try reflexivity.
  - destruct (f x); cbn; rewrite IH; reflexivity.
  - destruct (f x), (f y); reflexivity.
  - congruence.
Qed.

Lemma match_reqs_perm ls a b : Permutation a b -> match_reqs ls a = match_reqs ls b.
Proof. intros H. unfold match_reqs, match_count. rewrite (filter_length_perm _ _ _ H), (Permutation_length H). reflexivity. Qed.

Lemma match_reqs_pointwise ls ps rs : Forall2 same_meaning ps rs -> match_reqs ls (map to_req ps) = match_reqs ls rs.
Proof.
  intros H. unfold match_reqs, match_count.
  assert (E : length (filter (req_matches ls) (map to_req ps)) = length (filter (req_matches ls) rs) /\ length (map to_req ps) = length rs).
  { induction H as [|p r ps' rs' Hm _ IH]; [split; reflexivity|]. destruct IH as [I1 I2]. cbn [map filter length]. rewrite (Hm ls).
    destruct (req_matches ls r); cbn [length]; rewrite ?I1, I2; split; reflexivity. }
  destruct E as [E1 E2]. rewrite E1, E2. reflexivity.
Qed.

Lemma existsb_perm {A} (f : A -> bool) a b : Permutation a b -> existsb f a = existsb f b.
Proof.
  intros H. induction H as [|x l l' _ IH|x y l|l l' l'' _ IH1 _ IH2]; cbn; try reflexivity.
  - rewrite IH. reflexivity.
  - destruct (f x), (f y); reflexivity.
  - congruence.
Qed.

Lemma req_toks_length r : (1 <= length (req_toks r))%nat.
Proof. unfold req_toks. destruct (rop r); cbn [length]; lia. Qed.
Lemma sel_toks_length rs : (length rs <= length (sel_toks rs))%nat.
Proof.
  induction rs as [|r rest IH]; [apply le_n|]. cbn [sel_toks length]. pose proof (req_toks_length r). destruct rest as [|r2 rest'].
  - cbn [length]. lia.
  - rewrite app_length. cbn [length] in *. lia.
Qed.

(* ------------------------------------------------------------------ the round trip *)
(* on requirements in the selector's own order *)
Theorem parse_printed rs : Forall (fun r => new_req_ok r = true) rs ->
  if existsb bad_req rs then parse (sel_string_of rs) = None
  else exists ps, parse (sel_string_of rs) = Some ps /\ forall ls, match_reqs ls (map to_req ps) = match_reqs ls rs.
Proof.
  intros Hok. unfold parse, parse_toks. rewrite (lex_sel rs Hok).
  assert (Hf : (length rs < S (length (sel_toks rs ++ [TEnd])))%nat) by (rewrite app_length; pose proof (sel_toks_length rs); lia).
  pose proof (parse_loop_printed rs _ [] Hok Hf) as H. destruct (existsb bad_req rs).
  - rewrite H. reflexivity.
  - destruct H as (ps & E & F). rewrite E. cbn [rev app]. eexists. split; [reflexivity|]. intros ls.
    rewrite (match_reqs_perm ls _ _ (Permutation_map to_req (sort_preqs_perm ps))). apply match_reqs_pointwise. exact F.
Qed.

Lemma ok_forall rs : forallb new_req_ok rs = true -> Forall (fun r => new_req_ok r = true) rs.
Proof. intros H. apply Forall_forall. intros r Hin. rewrite forallb_forall in H. exact (H r Hin). Qed.

(* RT, for the requirements as nodeSelectorAsSelector collects them: either the printed form is not read back at all (and the
   selector has a requirement of the shape D23 is about), or it is read back with the same meaning *)
Theorem round_trip rs : forallb new_req_ok rs = true ->
  if existsb bad_req rs then sel_parse (sel_string rs) = None
  else exists rs', sel_parse (sel_string rs) = Some rs' /\ forall ls, match_reqs ls rs' = match_reqs ls rs.
Proof.
  intros Hok. pose proof (sort_reqs_perm rs) as Hp.
  assert (Hok' : Forall (fun r => new_req_ok r = true) (sort_reqs rs)) by (eapply Permutation_Forall; [apply Permutation_sym; exact Hp|apply ok_forall; exact Hok]).
  pose proof (parse_printed _ Hok') as H. rewrite (existsb_perm _ _ _ Hp) in H. unfold sel_parse, sel_string.
  destruct (existsb bad_req rs).
  - rewrite H. reflexivity.
  - destruct H as (ps & E & M). rewrite E. cbn [option_map]. eexists. split; [reflexivity|]. intros ls. rewrite M. apply match_reqs_perm. exact Hp.
Qed.

(* nodeSelectorKey: a key exactly for the representable selectors ... *)
Theorem selector_key_some rs k : selector_key rs = Some k <->
  forallb new_req_ok rs = true /\ existsb bad_req rs = false /\ k = sel_string rs.
Proof.
  unfold selector_key. destruct (forallb new_req_ok rs) eqn:Hok; [|split; [discriminate|intros (H & _); discriminate]].
  pose proof (round_trip rs Hok) as H. unfold sel_parse in H. destruct (existsb bad_req rs).
  - destruct (parse (sel_string rs)); [discriminate H|]. split; [discriminate|intros (_ & H2 & _); discriminate].
  - destruct H as (rs' & E & _). destruct (parse (sel_string rs)); [|discriminate E]. split.
    + intros H1. inversion H1. auto.
    + intros (_ & _ & ->). reflexivity.
Qed.

(* ... and matchCIDRLabels on that key decides what the selector's own requirements decide *)
Theorem match_key_of_selector_key rs k : selector_key rs = Some k ->
  forall ls, match_key ls k = Some (match_reqs ls rs).
Proof.
  intros H ls. apply selector_key_some in H. destruct H as (Hok & Hb & ->). pose proof (round_trip rs Hok) as H. rewrite Hb in H.
  destruct H as (rs' & E & M). unfold match_key. rewrite E, M. reflexivity.
Qed.

(* two selectors filed under the same key mean the same *)
Theorem same_key_same_meaning_lbl rs1 rs2 k : selector_key rs1 = Some k -> selector_key rs2 = Some k ->
  forall ls, match_reqs ls rs1 = match_reqs ls rs2.
Proof.
  intros H1 H2 ls. pose proof (match_key_of_selector_key _ _ H1 ls) as A. pose proof (match_key_of_selector_key _ _ H2 ls) as B.
  rewrite A in B. congruence.
Qed.

(* D23 as a theorem of the model: the selector the thorough tier found *)
Example d23_not_read_back :
  new_req_ok (mkReq [122] OpNotIn [[]; []; []]) = true /\ parse (sel_string [mkReq [122] OpNotIn [[]; []; []]]) = None /\
  selector_key [mkReq [122] OpNotIn [[]; []; []]] = None.
Proof. vm_compute. repeat split. Qed.

Example round_trip_nonvacuous :
  selector_key [mkReq [122] OpIn [[98]; []; [97]]; mkReq kw_in OpNotIn [kw_in]; mkReq [97] OpGt [[53]]; mkReq [98] OpDoesNotExist []] <> None.
Proof. vm_compute. discriminate. Qed.
