(* Prio.v -- PriorityQueue.Less (multi_cidr_priority_queue.go:45-72) and the order in which
   container/heap pops (modelled as insertion sort by Less). Definitions only. *)
From NIPAM Require Export Str.
Open Scope N_scope.

(* what Less reads of one pool: MaxCIDRs, NodeMaskSize, Label *)
Record pview := mkPview { pv_max : N; pv_nms : N; pv_label : str }.

Record item := mkItem {
  it_match : N;              (* labelMatchCount *)
  it_sel : str;              (* selectorString *)
  it_v4 : option pview;      (* clusterCIDR.IPv4CIDRSet *)
  it_v6 : option pview       (* clusterCIDR.IPv6CIDRSet *)
}.

Definition max_int : N := 2 ^ 63 - 1.   (* math.MaxInt on a 64-bit platform *)

(* maxAllocatable: min over the present families, MaxInt for an absent one *)
Definition max_allocatable (x : item) : N :=
  let a4 := match it_v4 x with Some v => pv_max v | None => max_int end in
  let a6 := match it_v6 x with Some v => pv_max v | None => max_int end in
  if a4 <? a6 then a4 else a6.

(* nodeMaskSize / cidrLabel: the IPv4 pool if present, else the IPv6 pool; an item with neither
   would dereference nil in Go -- such items are never built (createClusterCIDR rejects them) and
   the model returns 0 / "" for them, which no theorem relies on (has_pool is a hypothesis) *)
Definition node_mask_size (x : item) : N :=
  match it_v4 x with Some v => pv_nms v | None => match it_v6 x with Some v => pv_nms v | None => 0 end end.
Definition cidr_label (x : item) : str :=
  match it_v4 x with Some v => pv_label v | None => match it_v6 x with Some v => pv_label v | None => [] end end.

Definition has_pool (x : item) : bool :=
  match it_v4 x, it_v6 x with None, None => false | _, _ => true end.

Definition less (a b : item) : bool :=
  if negb (it_match a =? it_match b) then it_match b <? it_match a                       (* P0 *)
  else if negb (max_allocatable a =? max_allocatable b) then max_allocatable a <? max_allocatable b  (* P1 *)
  else if negb (node_mask_size a =? node_mask_size b) then node_mask_size b <? node_mask_size a      (* P2 *)
  else if negb (str_eqb (it_sel a) (it_sel b)) then str_ltb (it_sel a) (it_sel b)       (* P3 *)
  else str_ltb (cidr_label a) (cidr_label b).                                           (* P4 *)

(* the five keys *)
Definition key (x : item) : N * N * N * str * str :=
  (it_match x, max_allocatable x, node_mask_size x, it_sel x, cidr_label x).

(* push everything, pop everything: the pop order of a binary heap under a strict weak order is
   sorted; modelled as insertion sort (container/heap itself is library code) *)
Section Sort.
  Context {A : Type} (lt : A -> A -> bool).
  Fixpoint insert_by (x : A) (l : list A) : list A :=
    match l with
    | [] => [x]
    | y :: l' => if lt y x then y :: insert_by x l' else x :: l
    end.
  Definition sort_by (l : list A) : list A := fold_right insert_by [] l.
End Sort.
