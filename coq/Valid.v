(* Valid.v -- ValidateClusterCIDRSpec / validateClusterCIDRUpdateSpec
   (pkg/apis/clustercidr/v1/validation/validation.go) transliterated; the number of field errors
   is returned.  Library answers (ParseCIDRSloppy, ValidateLabelName, NameIsDNSSubdomain) are
   part of the input.  Definitions only. *)
From NIPAM Require Export Sel.
Open Scope Z_scope.

(* spec.ipv4 / spec.ipv6 as validation sees them *)
Inductive vfield :=
| VEmpty                                  (* "" *)
| VBad                                    (* ParseCIDRSloppy fails *)
| VCidr (is_v4 : bool) (masksize : Z).    (* parsed: family of the ip, prefix length *)

(* a matchExpressions requirement: operator (None = not one of the six), number of values,
   number of errors ValidateLabelName(key) reports (IsQualifiedName can report several for one key) *)
Record vreq := mkVreq { vr_op : option selop; vr_nvals : nat; vr_keyerrs : nat }.
(* a matchFields requirement: key is metadata.name?, number of values, number of values that are
   not valid node names *)
Record vfreq := mkVfreq { vf_op : option selop; vf_nvals : nat; vf_keyname : bool; vf_badvals : nat }.
Record vterm := mkVterm { vt_exprs : list vreq; vt_fields : list vfreq }.

Record vspec := mkVspec { vs_sel : option (list vterm); vs_hb : Z; vs_v4 : vfield; vs_v6 : vfield }.

Definition b2n (b : bool) : nat := if b then 1%nat else 0%nat.

(* ValidateNodeSelectorRequirement *)
Definition vreq_errors (r : vreq) : nat :=
  (match vr_op r with
   | Some OpIn | Some OpNotIn => b2n (Nat.eqb (vr_nvals r) 0)
   | Some OpExists | Some OpDoesNotExist => b2n (negb (Nat.eqb (vr_nvals r) 0))
   | Some OpGt | Some OpLt => b2n (negb (Nat.eqb (vr_nvals r) 1))
   | None => 1
   end + vr_keyerrs r)%nat.

(* validateNodeFieldSelectorRequirement *)
Definition vfreq_errors (r : vfreq) : nat :=
  (match vf_op r with
   | Some OpIn | Some OpNotIn => b2n (negb (Nat.eqb (vf_nvals r) 1))
   | _ => 1
   end + (if vf_keyname r then vf_badvals r else 1))%nat.

Definition sum_nat (l : list nat) : nat := fold_right Nat.add 0%nat l.

Definition vterm_errors (t : vterm) : nat :=
  (sum_nat (map vreq_errors (vt_exprs t)) + sum_nat (map vfreq_errors (vt_fields t)))%nat.

(* validateNodeSelector *)
Definition vsel_errors (ts : list vterm) : nat :=
  match ts with [] => 1%nat | _ => sum_nat (map vterm_errors ts) end.

(* validateCIDRConfig *)
Definition vcidr_errors (want_v4 : bool) (maxmask : Z) (hb : Z) (f : vfield) : nat :=
  match f with
  | VEmpty => 0%nat     (* not called *)
  | VBad => 1%nat
  | VCidr is4 ms =>
      (b2n (negb (Bool.eqb is4 want_v4)) + b2n (Z.ltb hb 4) + b2n (Z.ltb (Z.sub maxmask ms) hb))%nat
  end.

(* ValidateClusterCIDRSpec *)
Definition validate_spec (s : vspec) : nat :=
  let sel := match vs_sel s with Some ts => vsel_errors ts | None => 0%nat end in
  match vs_v4 s, vs_v6 s with
  | VEmpty, VEmpty => (sel + 1)%nat
  | f4, f6 => (sel + vcidr_errors true 32 (vs_hb s) f4 + vcidr_errors false 128 (vs_hb s) f6)%nat
  end.

(* ---- the documented acceptance condition ---- *)
Definition vreq_ok (r : vreq) : bool :=
  Nat.eqb (vr_keyerrs r) 0 &&
  match vr_op r with
  | Some OpIn | Some OpNotIn => negb (Nat.eqb (vr_nvals r) 0)
  | Some OpExists | Some OpDoesNotExist => Nat.eqb (vr_nvals r) 0
  | Some OpGt | Some OpLt => Nat.eqb (vr_nvals r) 1
  | None => false
  end.
Definition vfreq_ok (r : vfreq) : bool :=
  vf_keyname r && Nat.eqb (vf_badvals r) 0 && Nat.eqb (vf_nvals r) 1 &&
  match vf_op r with Some OpIn | Some OpNotIn => true | _ => false end.
Definition vsel_ok (ts : list vterm) : bool :=
  match ts with [] => false | _ => forallb (fun t => forallb vreq_ok (vt_exprs t) && forallb vfreq_ok (vt_fields t)) ts end.

Definition field_ok (want_v4 : bool) (width : Z) (hb : Z) (f : vfield) : bool :=
  match f with
  | VEmpty => true
  | VBad => false
  | VCidr is4 ms => Bool.eqb is4 want_v4 && (4 <=? hb) && (hb <=? width - ms)
  end.

Definition accepts (s : vspec) : bool :=
  negb (match vs_v4 s, vs_v6 s with VEmpty, VEmpty => true | _, _ => false end) &&
  field_ok true 32 (vs_hb s) (vs_v4 s) && field_ok false 128 (vs_hb s) (vs_v6 s) &&
  match vs_sel s with Some ts => vsel_ok ts | None => true end.

(* ---- update validation: every spec field is immutable ---- *)
(* what update validation compares (apiequality.Semantic.DeepEqual: nil and empty slices are equal,
   a nil selector differs from a non-nil one) *)
Record uspec := mkUspec { us_sel : option nodesel; us_hb : Z; us_v4 : str; us_v6 : str }.

Definition opeq (a b : selop) : bool :=
  match a, b with
  | OpIn, OpIn | OpNotIn, OpNotIn | OpExists, OpExists | OpDoesNotExist, OpDoesNotExist | OpGt, OpGt | OpLt, OpLt => true
  | _, _ => false
  end.
Fixpoint list_eqb {A} (eq : A -> A -> bool) (a b : list A) : bool :=
  match a, b with
  | [], [] => true
  | x :: a', y :: b' => eq x y && list_eqb eq a' b'
  | _, _ => false
  end.
Definition req_eqb (a b : req) : bool :=
  str_eqb (rkey a) (rkey b) && opeq (rop a) (rop b) && list_eqb str_eqb (rvals a) (rvals b).
Definition term_eqb (a b : term) : bool :=
  list_eqb req_eqb (t_exprs a) (t_exprs b) && list_eqb req_eqb (t_fields a) (t_fields b).
Definition sel_eqb (a b : option nodesel) : bool :=
  match a, b with
  | None, None => true
  | Some x, Some y => list_eqb term_eqb x y
  | _, _ => false
  end.

Definition validate_update (u o : uspec) : nat :=
  (b2n (negb (sel_eqb (us_sel u) (us_sel o))) + b2n (negb (Z.eqb (us_hb u) (us_hb o))) +
   b2n (negb (str_eqb (us_v4 u) (us_v4 o))) + b2n (negb (str_eqb (us_v6 u) (us_v6 o))))%nat.

Definition uspec_eqb (u o : uspec) : bool :=
  sel_eqb (us_sel u) (us_sel o) && (us_hb u =? us_hb o) && str_eqb (us_v4 u) (us_v4 o) && str_eqb (us_v6 u) (us_v6 o).
