(* NoPanic_proofs.v -- C12 over the closed loop: in every world reachable by well-formed operations no step
   makes the controller panic -- no node work item, no ClusterCIDR work item, no informer notification
   (add, update, delete, tombstone, relist), not the construction at start-up. *)
From NIPAM Require Import Sys Alloc_proofs Prio_proofs Inv_proofs Sys_proofs World_proofs Path_proofs.
From Coq Require Import Lia.
Open Scope N_scope.

Definition WK (w : world) : Prop := forall m, w_ctl w = Some m -> KU m.

Section NoPanic.
  Variable po : parse_oracle.
  Variable lab : label_oracle.

  Lemma apply_effects_ctl fx : forall w, w_ctl (apply_effects w fx) = w_ctl w.
  Proof.
    induction fx as [|e fx IH]; intros w; [reflexivity|]. destruct e; cbn [apply_effects]; rewrite IH; try reflexivity.
    - unfold apply_patch. destruct o; try reflexivity; destruct (find_anode node (w_nodes w)) as [a|]; try reflexivity; destruct (an_cidrs a); reflexivity.
    - unfold apply_update_cc. destruct outcome; try reflexivity; destruct (find_cc (o_name o') (w_ccs w)) as [c|]; try reflexivity;
        destruct (negb (o_rv c =? o_rv o')); try reflexivity; match goal with |- context [if ?b then _ else _] => destruct b end; reflexivity.
    - destruct (apply_create_cc_frame w o' outcome) as (_ & _ & _ & H & _). exact H.
  Qed.

  Lemma run_node_sync_ok w cached key outs :
    WInv w -> WK w -> (forall n, cached = Some n -> wf_node n) ->
    WK (fst (run_node_sync po lab w cached key outs)) /\ ob_res (snd (run_node_sync po lab w cached key outs)) <> 3.
  Proof.
    intros I K Hc. unfold run_node_sync. destruct (w_ctl w) as [m|] eqn:Em; [|split; [exact K|cbn; discriminate]].
    pose proof (wi_ctl w I m Em) as M. pose proof (K m Em) as HK.
    pose proof (sync_node_no_panic po lab (svc_list (w_svc w)) (can_patch w key) (api_same w key) (held_cidrs (w_ncache w)) m cached (find_node key (w_ncache w)) outs M HK) as Hnp.
    destruct (sync_node po lab (svc_list (w_svc w)) (can_patch w key) (api_same w key) (held_cidrs (w_ncache w)) m cached (find_node key (w_ncache w)) outs)
      as [[m' r] fx] eqn:Es. cbn [fst snd] in *.
    split.
    - intros m0 E0. rewrite apply_effects_ctl in E0. unfold after_call in E0. destruct r; try contradiction; cbn in E0; inversion E0; subst;
        (eapply shape_KU; [symmetry; eapply sync_node_shape; exact Es|exact HK]).
    - destruct r; cbn; try discriminate. contradiction.
  Qed.

  Lemma run_cc_sync_ok w key cached out :
    WK w -> WK (fst (run_cc_sync w key cached out)) /\ ob_res (snd (run_cc_sync w key cached out)) <> 3.
  Proof.
    intros K. unfold run_cc_sync. destruct (w_ctl w) as [m|] eqn:Em; [|split; [exact K|cbn; discriminate]].
    match goal with |- context [sync_cc m key cached ?o] =>
      pose proof (sync_cc_no_panic m key cached o) as Hnp; destruct (sync_cc m key cached o) as [[m' r] fx] eqn:Es end.
    cbn [fst snd] in *. split.
    - intros m0 E0. rewrite apply_effects_ctl in E0.
      assert (E1 : w_ctl (after_call w r m') = Some m0).
      { destruct cached as [o|]; [|exact E0]. match type of E0 with context [if ?b then _ else _] => destruct b end; exact E0. }
      unfold after_call in E1. destruct r; try contradiction; cbn in E1; inversion E1; subst; eapply sync_cc_KU; [exact (K m Em)|exact Es|exact (K m Em)|exact Es].
    - destruct r; cbn; try discriminate. contradiction.
  Qed.

  Lemma handle_nevent_ok w e : WK w -> WK (fst (handle_nevent w e)) /\ ob_res (snd (handle_nevent w e)) <> 3.
  Proof.
    intros K. unfold handle_nevent. destruct e as [n|n|n]; cbn [set_caches w_ctl].
    - destruct (w_ctl w) eqn:Em; cbn; (split; [|cbv; discriminate]); intros m0 E0; cbn in E0; apply K; congruence.
    - destruct (w_ctl w) eqn:Em; cbn; (split; [|cbv; discriminate]); intros m0 E0; cbn in E0; apply K; congruence.
    - destruct (w_ctl w) as [m|] eqn:Em; [|cbn; split; [intros m0 E0; cbn in E0; congruence|cbv; discriminate]].
      pose proof (release_cidr_no_panic (svc_list (w_svc w)) m n) as Hnp.
      destruct (release_cidr (svc_list (w_svc w)) m n) as [m' r] eqn:Er. cbn [snd] in Hnp.
      destruct r; try contradiction; cbn; (split; [|discriminate]); intros m0 E0; inversion E0; subst;
        (eapply shape_KU; [symmetry; eapply release_cidr_shape; exact Er|exact (K m Em)]).
  Qed.

  Lemma deliver_all_n_ok es : forall w acc, WK w -> acc <> 3 ->
    WK (fst (deliver_all_n w es acc)) /\ ob_res (snd (deliver_all_n w es acc)) <> 3.
  Proof.
    induction es as [|e es IH]; intros w acc K Ha; cbn [deliver_all_n]; [split; [exact K|exact Ha]|].
    destruct (handle_nevent_ok w e K) as [K1 H1]. destruct (handle_nevent w e) as [w1 ob]. cbn [fst snd] in *.
    destruct (ob_res ob =? 3) eqn:E; [apply N.eqb_eq in E; contradiction|]. apply IH; assumption.
  Qed.

  Lemma deliver_all_c_wk es : forall w, WK w -> WK (deliver_all_c w es).
  Proof.
    induction es as [|e es IH]; intros w K; cbn [deliver_all_c]; [exact K|]. apply IH.
    unfold handle_cevent. destruct e; cbn; destruct (w_ctl w) eqn:Em; cbn; intros m0 E0; cbn in E0; apply K; congruence.
  Qed.

  Theorem step_no_panic w o : WInv w -> WK w -> wf_op o ->
    WK (fst (step po lab w o)) /\ ob_res (snd (step po lab w o)) <> 3.
  Proof.
    intros I K Ho.
    assert (Hsame : forall w', w_ctl w' = w_ctl w -> WK w') by (intros w' E m0 E0; apply K; congruence).
    destruct o; cbn [step wf_op] in *.
    all: try (split; [|cbn; discriminate]; apply Hsame; reflexivity).
    - destruct (find_anode name (w_nodes w)); (split; [apply Hsame; reflexivity|cbn; discriminate]).
    - destruct (find_anode name (w_nodes w)); (split; [apply Hsame; reflexivity|cbn; discriminate]).
    - destruct (find_anode name (w_nodes w)); (split; [apply Hsame; reflexivity|cbn; discriminate]).
    - destruct (find_anode name (w_nodes w)); (split; [apply Hsame; reflexivity|cbn; discriminate]).
    - destruct (find_cc (o_name o) (w_ccs w)); (split; [apply Hsame; reflexivity|cbn; discriminate]).
    - destruct (find_cc name (w_ccs w)) as [c|]; [|split; [exact K|cbn; discriminate]].
      destruct (o_fins c); [split; [apply Hsame; reflexivity|cbn; discriminate]|].
      destruct (o_deleting c); (split; [apply Hsame; reflexivity|cbn; discriminate]).
    - destruct (find_cc name (w_ccs w)) as [c|]; [|split; [exact K|cbn; discriminate]].
      match goal with |- context [if ?b then _ else _] => destruct b end; (split; [apply Hsame; reflexivity|cbn; discriminate]).
    - destruct (w_nfeed w) as [|e rest]; [split; [exact K|cbn; discriminate]|]. apply handle_nevent_ok. apply Hsame. reflexivity.
    - destruct (w_nfeed w) as [|[n|n|n] rest]; try (split; [exact K|cbn; discriminate]). apply handle_nevent_ok. apply Hsame. reflexivity.
    - destruct (w_cfeed w) as [|e rest]; [split; [exact K|cbn; discriminate]|].
      split; [|unfold handle_cevent; destruct e; cbn; discriminate].
      unfold handle_cevent. destruct e; cbn; destruct (w_ctl w) eqn:Em; cbn; intros m0 E0; cbn in E0; apply K; congruence.
    - destruct (w_ctl w) eqn:Em; (split; [apply Hsame; cbn; congruence|cbn; discriminate]).
    - destruct (w_ctl w) eqn:Em; (split; [apply Hsame; cbn; congruence|cbn; discriminate]).
    - destruct (w_synced w); [|split; [exact K|cbn; discriminate]]. apply deliver_all_n_ok; [apply Hsame; reflexivity|discriminate].
    - destruct (w_synced w); [|split; [exact K|cbn; discriminate]]. split; [|cbn; discriminate]. cbn [fst]. apply deliver_all_c_wk. apply Hsame. reflexivity.
    - destruct (find (fun x => fst x =? w0) (w_nfetch w)) as [[wk [key cached]]|] eqn:Ef; [|split; [exact K|cbn; discriminate]].
      apply run_node_sync_ok.
      + pose proof I as I0. destruct I as [a1 b1 c1 d1 e1 f1 g1 h1 i1 j1]. constructor; cbn; try assumption.
        intros wk' k n Hi. apply filter_In in Hi. destruct Hi as [Hi _]. eapply g1. exact Hi.
      + apply Hsame. reflexivity.
      + intros n E. subst cached. apply find_some in Ef. destruct Ef as [Hin _]. eapply (wi_nfetch w I). exact Hin.
    - destruct (find (fun x => fst x =? w0) (w_cfetch w)) as [[wk [key cached]]|]; [|split; [exact K|cbn; discriminate]].
      apply run_cc_sync_ok. apply Hsame. reflexivity.
    - destruct (w_ctl w) as [m|] eqn:Em; [|split; [exact K|cbn; discriminate]].
      destruct (q_ready (w_nq w)) as [|key rest]; [split; [exact K|cbn; discriminate]|].
      match goal with |- context [run_node_sync po lab ?w1 ?c ?k ?o] =>
        destruct (run_node_sync_ok w1 c k o) as [K2 H2]; [apply set_queues_winv; exact I|apply Hsame; cbn; exact Em| |];
        [|destruct (run_node_sync po lab w1 c k o) as [w2 ob2]] end.
      { cbn [set_queues w_ncache]. intros n E. eapply cached_node_wf; eassumption. }
      cbn [fst snd] in *. destruct (ob_res ob2 =? 2) eqn:E2; cbn [fst snd ob_res]; [split; [intros m0 E0; apply K2; exact E0|discriminate]|split; assumption].
    - destruct (w_ctl w) as [m|] eqn:Em; [|split; [exact K|cbn; discriminate]].
      destruct (q_ready (w_cq w)) as [|key rest]; [split; [exact K|cbn; discriminate]|].
      match goal with |- context [run_cc_sync ?w1 ?k ?c ?o] =>
        destruct (run_cc_sync_ok w1 k c o) as [K2 H2]; [apply Hsame; cbn; exact Em|]; destruct (run_cc_sync w1 k c o) as [w2 ob2] end.
      cbn [fst snd] in *. destruct (ob_res ob2 =? 2) eqn:E2; cbn [fst snd ob_res]; [split; [intros m0 E0; apply K2; exact E0|discriminate]|split; assumption].
    - (* Crash *) split; [intros m0 E0; discriminate E0|cbn; discriminate].
    - (* Construct *)
      destruct (w_ctl w) as [m0|] eqn:Em; [split; [exact K|cbn; discriminate]|].
      destruct (construct po lab (with_default dp (w_ccs w)) outs svc1 svc2 (map node_view (w_nodes w))) as [[m fx] pan] eqn:Ec. cbn [fst snd].
      assert (Hpan : pan = false).
      { unfold construct in Ec. destruct (bootstrap_ccs [] (with_default dp (w_ccs w)) outs) as [m1 fx1] eqn:Eb.
        destruct Ho as (H1 & H2 & Hdp).
        assert (Hgood : Forall good_obj (with_default dp (w_ccs w))) by (apply with_default_good; [exact Hdp|exact (wi_ccs w I)]).
        assert (M1 : MapInv m1) by (eapply (bootstrap_ccs_inv (with_default dp (w_ccs w)) [] outs m1 fx1); [intros c Hc; destruct Hc|exact Hgood|exact Eb]).
        assert (K1 : KU m1) by (eapply (bootstrap_KU (with_default dp (w_ccs w)) [] outs m1 fx1); [unfold KU; cbn; apply NoDup_nil|exact Eb]).
        set (m2 := match svc1 with Some s => filter_service m1 s | None => m1 end) in *.
        assert (M2 : MapInv m2) by (unfold m2; destruct svc1; [apply filter_service_inv; [exact M1|apply H1; reflexivity]|exact M1]).
        assert (K2 : KU m2) by (unfold m2; destruct svc1; [apply KU_filter_service|]; exact K1).
        set (m3 := match svc2 with Some s => filter_service m2 s | None => m2 end) in *.
        assert (M3 : MapInv m3) by (unfold m3; destruct svc2; [apply filter_service_inv; [exact M2|apply H2; reflexivity]|exact M2]).
        assert (K3 : KU m3) by (unfold m3; destruct svc2; [apply KU_filter_service|]; exact K2).
        assert (Hn : Forall wf_node (map node_view (w_nodes w))).
        { rewrite Forall_forall. intros n Hn. apply in_map_iff in Hn. destruct Hn as (a & <- & Ha). apply wf_node_view. eapply in_anodes_wf; eassumption. }
        pose proof (occupy_nodes_no_panic po lab _ m3 M3 K3 Hn) as Hp.
        destruct (occupy_nodes po lab m3 (map node_view (w_nodes w))) as [m4 p4]. inversion Ec; subst. exact Hp. }
      subst pan. split; [|cbn; discriminate].
      intros m1 E1. rewrite apply_effects_ctl in E1. cbn in E1. inversion E1; subst. eapply construct_KU. exact Ec.
    - (* StartInformers *)
      destruct (w_ctl w) eqn:Em; [|split; [exact K|cbn; discriminate]]. destruct (w_synced w); (split; [|cbn; discriminate]); [exact K|].
      intros m0 E0. cbn in E0. apply K. congruence.
  Qed.

  (* every step of every history of well-formed operations from the initial world *)
  Theorem no_panic_in_any_history ops : Forall wf_op ops ->
    forall o ob w', In (o, ob, w') (trace po lab init_world ops) -> ob_res ob <> 3.
  Proof.
    assert (G : forall ops w, WInv w -> WK w -> Forall wf_op ops ->
              forall o ob w', In (o, ob, w') (trace po lab w ops) -> ob_res ob <> 3).
    { induction ops0 as [|o1 ops0 IH]; intros w I K H o ob w' Hin; cbn in Hin; [destruct Hin|].
      inversion H; subst. pose proof (step_no_panic w o1 I K H2) as [K1 Hn]. pose proof (step_winv po lab w o1 I H2) as I1.
      destruct (step po lab w o1) as [w1 ob1]. cbn [fst snd] in *.
      destruct Hin as [E|Hin]; [inversion E; subst; exact Hn|]. eapply IH; eassumption. }
    intros H. apply G; [apply winv_init|intros m E; discriminate E|exact H].
  Qed.
End NoPanic.
