(* World_proofs.v -- the structural invariant lifted to the closed loop: in EVERY world reachable from
   the initial one by well-formed operations, every object anywhere in the system (API server, watch
   feeds, informer stores, in-flight work items) is well-formed and the controller's state satisfies
   MapInv.  Well-formed operations: nodes are created with parseable-or-garbage pod CIDRs whose parsed
   values are well-formed CIDRs, ClusterCIDRs with ranges in the domain of C13 (good_obj), service
   ranges well-formed.  Consequence: the per-call theorems that assume MapInv (C02, C09, C12) hold at
   every step of every such history. *)
From NIPAM Require Import Sys Alloc_proofs Prio_proofs Inv_proofs Sys_proofs.
From Coq Require Import Lia.
Open Scope N_scope.

Definition wf_anode (a : anode) : Prop := Forall wf_pcidr (an_cidrs a).
Definition nev_node (e : nevent) : nodeobj := match e with NAdd n | NUpd n | NDel n => n end.
Definition cev_obj (e : cevent) : ccobj := match e with CAdd o | CUpd o | CDel o => o end.

Record WInv (w : world) : Prop := {
  wi_nodes : Forall wf_anode (w_nodes w);
  wi_ccs : Forall good_obj (w_ccs w);
  wi_nfeed : Forall (fun e => wf_node (nev_node e)) (w_nfeed w);
  wi_cfeed : Forall (fun e => good_obj (cev_obj e)) (w_cfeed w);
  wi_ncache : Forall wf_node (w_ncache w);
  wi_ccache : Forall good_obj (w_ccache w);
  wi_nfetch : forall wk key n, In (wk, (key, Some n)) (w_nfetch w) -> wf_node n;
  wi_cfetch : forall wk key o, In (wk, (key, Some o)) (w_cfetch w) -> good_obj o;
  wi_ctl : forall m, w_ctl w = Some m -> MapInv m;
  wi_svc : Forall wf_cidr (svc_list (w_svc w))
}.

(* the --cluster-cidr flags: well-formed ranges, IPv6 ones outside the IPv4-mapped zone (the domain of C13) *)
Definition flag_ok (c : cidr) : Prop := wf_cidr c /\ match cf c with V4 => True | V6 => overlapb c v4zone = false end.
Definition wf_dp (dp : list (cidr * Z)) : Prop := Forall (fun cm => flag_ok (fst cm)) dp.

Definition wf_op (o : op) : Prop :=
  match o with
  | UCreateNode _ _ cs => Forall wf_pcidr cs
  | UCreateCC obj => good_obj obj
  | Construct s1 s2 _ dp => (forall s, s1 = Some s -> wf_cidr s) /\ (forall s, s2 = Some s -> wf_cidr s) /\ wf_dp dp
  | _ => True
  end.

(* the default ClusterCIDR built from well-formed flags is an object the controller may be given: its perNodeHostBits is
   at least 4, its ranges are the flags' ranges *)
Definition da_ok (a : dflt_acc) : Prop :=
  (forall c, da_v4 a = FOk c -> flag_ok c) /\ (forall c, da_v6 a = FOk c -> flag_ok c) /\ (4 <= da_hb a)%Z.

Lemma dflt_one_ok dual a cm : da_ok a -> flag_ok (fst cm) -> da_ok (dflt_one dual a cm).
Proof.
  intros (H4 & H6 & Hh) Hc. destruct cm as [c mask]. cbn [fst] in Hc. unfold da_ok, dflt_one, min_hb. destruct (cf c); cbn [da_v4 da_v6 da_hb].
  - split; [intros c' E; inversion E; subst; exact Hc|]. split; [exact H6|].
    destruct (negb dual && (4 <? 32 - mask)%Z)%bool eqn:E; [|exact Hh]. apply andb_prop in E. destruct E as [_ E]. apply Z.ltb_lt in E. lia.
  - split; [exact H4|]. split; [intros c' E; inversion E; subst; exact Hc|].
    destruct (negb dual && (4 <? 128 - mask)%Z)%bool eqn:E; [|exact Hh]. apply andb_prop in E. destruct E as [_ E]. apply Z.ltb_lt in E. lia.
Qed.

Lemma dflt_fold_ok dual dp : forall a, da_ok a -> wf_dp dp -> da_ok (fold_left (dflt_one dual) dp a).
Proof.
  induction dp as [|cm dp IH]; intros a Ha Hw; cbn [fold_left]; [exact Ha|]. inversion Hw; subst.
  apply IH; [apply dflt_one_ok; assumption|assumption].
Qed.

Lemma default_good dp : wf_dp dp -> good_obj (default_cc_obj dp).
Proof.
  intros Hw. unfold default_cc_obj.
  set (a := fold_left (dflt_one (Nat.eqb (length dp) 2)) dp (mkDA FEmpty FEmpty min_hb min_int32 min_int32)).
  assert (Ha : da_ok a).
  { apply dflt_fold_ok; [|exact Hw]. unfold da_ok, min_hb. cbn [da_v4 da_v6 da_hb]. split; [intros c E; discriminate E|]. split; [intros c E; discriminate E|lia]. }
  destruct Ha as (H4 & H6 & Hh).
  match goal with |- good_obj (mkCCObj _ _ _ ?hb _ _ _ _ _ _) => assert (Hhb : (4 <= hb)%Z) end.
  { unfold min_hb. destruct (Nat.eqb (length dp) 2); [|exact Hh].
    destruct ((4 <=? da_h4 a)%Z && (da_h4 a <=? da_h6 a)%Z)%bool eqn:E1.
    - apply andb_prop in E1. destruct E1 as [E1 _]. apply Z.leb_le in E1. exact E1.
    - destruct ((4 <=? da_h6 a)%Z && (da_h6 a <=? 32)%Z)%bool eqn:E2; [|exact Hh].
      apply andb_prop in E2. destruct E2 as [E2 _]. apply Z.leb_le in E2. exact E2. }
  unfold good_obj, good_field. cbn [o_v4 o_v6 o_hb]. split.
  - destruct (da_v4 a) as [| |c] eqn:E; try exact Logic.I. destruct (H4 c eq_refl) as [Hwf Hz].
    unfold good_range. split; [exact Hwf|]. split; [intros (_ & _ & E0); rewrite E0 in Hhb; lia|exact Hz].
  - destruct (da_v6 a) as [| |c] eqn:E; try exact Logic.I. destruct (H6 c eq_refl) as [Hwf Hz].
    unfold good_range. split; [exact Hwf|]. split; [intros (_ & _ & E0); rewrite E0 in Hhb; lia|exact Hz].
Qed.

Lemma with_default_good dp ccs : wf_dp dp -> Forall good_obj ccs -> Forall good_obj (with_default dp ccs).
Proof.
  intros Hw H. unfold with_default. destruct dp as [|cm dp']; [exact H|].
  destruct (existsb _ ccs); [exact H|]. apply Forall_app. split; [exact H|]. constructor; [apply default_good; exact Hw|constructor].
Qed.

Lemma svc_list_wf s1 s2 : (forall s, s1 = Some s -> wf_cidr s) -> (forall s, s2 = Some s -> wf_cidr s) -> Forall wf_cidr (svc_list (s1, s2)).
Proof.
  intros H1 H2. unfold svc_list. cbn [fst snd]. apply Forall_app.
  split; [destruct s1 as [s|]; [constructor; [apply H1; reflexivity|constructor]|constructor]|destruct s2 as [s|]; [constructor; [apply H2; reflexivity|constructor]|constructor]].
Qed.

Lemma winv_init : WInv init_world.
Proof. constructor; cbn; try constructor; try (intros; contradiction); intros; discriminate. Qed.

(* ---------- list helpers ---------- *)
Lemma wf_node_view a : wf_anode a -> wf_node (node_view a).
Proof. intros H. exact H. Qed.

Lemma Forall_put_node P n l : Forall P l -> P n -> Forall P (put_node n l).
Proof.
  intros Hl Hn. unfold put_node. destruct (find_node (n_name n) l).
  - rewrite Forall_forall in *. intros x Hx. apply in_map_iff in Hx. destruct Hx as (y & <- & Hy).
    destruct (str_eqb (n_name y) (n_name n)); [exact Hn|apply Hl; exact Hy].
  - apply Forall_app. split; [exact Hl|constructor; [exact Hn|constructor]].
Qed.
Lemma Forall_del_node P k l : Forall P l -> Forall P (del_node k l).
Proof. intros H. unfold del_node. rewrite Forall_forall in *. intros x Hx. apply filter_In in Hx. apply H. apply Hx. Qed.
Lemma Forall_put_cc P o l : Forall P l -> P o -> Forall P (put_cc o l).
Proof.
  intros Hl Hn. unfold put_cc. destruct (find_cc (o_name o) l).
  - rewrite Forall_forall in *. intros x Hx. apply in_map_iff in Hx. destruct Hx as (y & <- & Hy).
    destruct (str_eqb (o_name y) (o_name o)); [exact Hn|apply Hl; exact Hy].
  - apply Forall_app. split; [exact Hl|constructor; [exact Hn|constructor]].
Qed.
Lemma Forall_del_cc P k l : Forall P l -> Forall P (del_cc k l).
Proof. intros H. unfold del_cc. rewrite Forall_forall in *. intros x Hx. apply filter_In in Hx. apply H. apply Hx. Qed.
Lemma Forall_upd_anode P a l : Forall P l -> P a -> Forall P (upd_anode a l).
Proof.
  intros Hl Ha. induction l as [|x l IH]; cbn; [constructor|]. inversion Hl; subst.
  destruct (str_eqb (an_name x) (an_name a)); constructor; auto.
Qed.
Lemma Forall_del_anode P k l : Forall P l -> Forall P (del_anode k l).
Proof. intros H. unfold del_anode. rewrite Forall_forall in *. intros x Hx. apply filter_In in Hx. apply H. apply Hx. Qed.
Lemma find_anode_in k l a : find_anode k l = Some a -> In a l.
Proof. induction l as [|x l IH]; cbn; [discriminate|]. destruct (str_eqb (an_name x) k); [intros H; inversion H; left; reflexivity|intros H; right; apply IH; exact H]. Qed.
Lemma find_node_in k l a : find_node k l = Some a -> In a l.
Proof. induction l as [|x l IH]; cbn; [discriminate|]. destruct (str_eqb (n_name x) k); [intros H; inversion H; left; reflexivity|intros H; right; apply IH; exact H]. Qed.
Lemma find_cc_in k l a : find_cc k l = Some a -> In a l.
Proof. induction l as [|x l IH]; cbn; [discriminate|]. destruct (str_eqb (o_name x) k); [intros H; inversion H; left; reflexivity|intros H; right; apply IH; exact H]. Qed.

Lemma Forall_snoc {A} (P : A -> Prop) l x : Forall P l -> P x -> Forall P (l ++ [x]).
Proof. intros H Hx. apply Forall_app. split; [exact H|constructor; [exact Hx|constructor]]. Qed.

Lemma push_nev_wf w e : Forall (fun e => wf_node (nev_node e)) (w_nfeed w) -> wf_node (nev_node e) ->
  Forall (fun e => wf_node (nev_node e)) (push_nev w e).
Proof. intros H He. unfold push_nev. destruct (w_synced w); [apply Forall_snoc; assumption|exact H]. Qed.
Lemma push_cev_wf w e : Forall (fun e => good_obj (cev_obj e)) (w_cfeed w) -> good_obj (cev_obj e) ->
  Forall (fun e => good_obj (cev_obj e)) (push_cev w e).
Proof. intros H He. unfold push_cev. destruct (w_synced w); [apply Forall_snoc; assumption|exact H]. Qed.

(* good_obj looks at the ranges and the host bits only *)
Lemma good_obj_fields o o' : o_v4 o' = o_v4 o -> o_v6 o' = o_v6 o -> o_hb o' = o_hb o -> good_obj o -> good_obj o'.
Proof. unfold good_obj. intros -> -> ->. tauto. Qed.

Ltac wsplit I :=
  let a := fresh "Wn" in let b := fresh "Wc" in let c := fresh "Wnf" in let d := fresh "Wcf" in
  let e := fresh "Wnc" in let f := fresh "Wcc" in let g := fresh "Wft" in let h := fresh "Wfc" in let i := fresh "Wm" in let j := fresh "Wsv" in
  destruct I as [a b c d e f g h i j]; constructor;
  cbn [w_nodes w_ccs w_rv w_nfeed w_cfeed w_ncache w_ccache w_nq w_cq w_ctl w_synced w_nfetch w_cfetch w_svc w_delseen
       set_api set_ctl set_caches set_queues set_fetch set_delseen crashed] in *.

(* ---------- API writes made by a controller step ---------- *)
Lemma apply_patch_winv w n cs o : WInv w -> Forall wf_cidr cs -> WInv (apply_patch w n cs o).
Proof.
  intros I Hcs. unfold apply_patch. destruct o; try exact I;
    (destruct (find_anode n (w_nodes w)) as [a|] eqn:Ea; [|exact I]; destruct (an_cidrs a) eqn:Ec; [|exact I]).
  all: assert (Hw : wf_anode (mkANode (an_name a) (an_labels a) (map (fun c => PGood c true) cs) (an_deleting a)))
    by (unfold wf_anode; cbn; rewrite Forall_forall in *; intros x Hx; apply in_map_iff in Hx; destruct Hx as (c & <- & Hc); cbn; apply Hcs; exact Hc).
  all: wsplit I; try assumption.
  all: try (apply Forall_upd_anode; assumption).
  all: apply push_nev_wf; [assumption|exact Hw].
Qed.

Lemma apply_update_cc_winv w o' out : WInv w -> WInv (apply_update_cc w o' out).
Proof.
  intros I. unfold apply_update_cc. destruct out; try exact I;
    (destruct (find_cc (o_name o') (w_ccs w)) as [cur|] eqn:Ec; [|exact I]; destruct (negb (o_rv cur =? o_rv o')); [exact I|]).
  all: assert (Hg : good_obj cur) by (pose proof (wi_ccs w I) as H; rewrite Forall_forall in H; apply H; eapply find_cc_in; exact Ec).
  all: match goal with |- context [with_rv ?x ?r] => assert (Hs : good_obj (with_rv x r)) by (eapply good_obj_fields; [..|exact Hg]; reflexivity) end.
  all: match goal with |- context [if ?b then _ else _] => destruct b end.
  all: wsplit I; try assumption.
  all: try (apply Forall_del_cc; assumption).
  all: try (apply Forall_put_cc; assumption).
  all: apply push_cev_wf; assumption.
Qed.

Lemma apply_create_cc_winv w o' out : WInv w -> good_obj o' -> WInv (apply_create_cc w o' out).
Proof.
  intros I Hg. unfold apply_create_cc. destruct out; try exact I; (destruct (find_cc (o_name o') (w_ccs w)); [exact I|]).
  all: assert (Hs : good_obj (with_rv o' (w_rv w + 1))) by (eapply good_obj_fields; [..|exact Hg]; reflexivity).
  all: wsplit I; try assumption.
  all: try (apply Forall_snoc; assumption).
  all: apply push_cev_wf; assumption.
Qed.

(* every object an effect list creates is one the controller may be given *)
Definition fx_good (fx : list effect) : Prop := forall o' out, In (FxCreateCC o' out) fx -> good_obj o'.
Lemma fx_good_tail e fx : fx_good (e :: fx) -> fx_good fx.
Proof. intros H o' out Hin. eapply H. right. exact Hin. Qed.
Lemma fx_good_head o' out fx : fx_good (FxCreateCC o' out :: fx) -> good_obj o'.
Proof. intros H. eapply H. left. reflexivity. Qed.

Lemma apply_effects_winv fx : forall w, WInv w ->
  (forall n cs o, In (FxPatch n cs o) fx -> Forall wf_cidr cs) ->
  fx_good fx -> WInv (apply_effects w fx).
Proof.
  induction fx as [|e fx IH]; intros w I H Hc; [exact I|].
  destruct e; cbn [apply_effects].
  - apply IH; [apply apply_patch_winv; [exact I|eapply H; left; reflexivity]|intros; eapply H; right; eassumption|eapply fx_good_tail; exact Hc].
  - apply IH; [exact I|intros; eapply H; right; eassumption|eapply fx_good_tail; exact Hc].
  - apply IH; [exact I|intros; eapply H; right; eassumption|eapply fx_good_tail; exact Hc].
  - apply IH; [apply apply_update_cc_winv; exact I|intros; eapply H; right; eassumption|eapply fx_good_tail; exact Hc].
  - apply IH; [apply apply_create_cc_winv; [exact I|eapply fx_good_head; exact Hc]|intros; eapply H; right; eassumption|eapply fx_good_tail; exact Hc].
Qed.

(* what a ClusterCIDR work item or the bootstrap creates is the object it was given, but for the controller's finalizer *)
Lemma sync_cc_create_same m key o out m' r fx :
  sync_cc m key (Some o) out = (m', r, fx) -> forall o' uo, In (FxCreateCC o' uo) fx -> same_but_own_finalizer o o'.
Proof.
  unfold sync_cc. intros H o' uo He. destruct (o_deleting o).
  - pose proof (delete_writes_only_own_finalizer _ _ _ _ _ _ H _ He) as Hs. destruct Hs.
  - unfold reconcile_create in H. destruct (need_finalizer o || negb (is_mapped_obj m o))%bool.
    + exact (create_writes_only_own_finalizer _ _ _ _ _ _ _ _ H _ He).
    + inversion H; subst. destruct He.
Qed.

Lemma bootstrap_create_same os : forall m outs m' fx, bootstrap_ccs m os outs = (m', fx) ->
  forall o' uo, In (FxCreateCC o' uo) fx -> exists o, In o os /\ same_but_own_finalizer o o'.
Proof.
  induction os as [|o os IH]; intros m outs m' fx H o' uo He; cbn in H; [inversion H; subst; destruct He|].
  destruct (reconcile_bootstrap m o (match outs with x :: _ => x | [] => UOk end)) as [[m1 r1] fx1] eqn:E1.
  destruct (bootstrap_ccs m1 os (tl outs)) as [m2 fx2] eqn:E2. inversion H; subst.
  apply in_app_or in He. destruct He as [He|He].
  - exists o. split; [left; reflexivity|]. exact (create_writes_only_own_finalizer _ _ _ _ _ _ _ _ E1 _ He).
  - destruct (IH _ _ _ _ E2 _ _ He) as (x & Hx & Hs). exists x. split; [right; exact Hx|exact Hs].
Qed.

Lemma same_good o o' : same_but_own_finalizer o o' -> good_obj o -> good_obj o'.
Proof. intros (_ & A & B & C & _) H. eapply good_obj_fields; eassumption. Qed.

Lemma sync_node_fx_good po lab svcs canp apisame held m cached reread outs m' r fx :
  sync_node po lab svcs canp apisame held m cached reread outs = (m', r, fx) -> fx_good fx.
Proof. intros Es o' uo Hin. pose proof (sync_node_no_cc_write _ _ _ _ _ _ _ _ _ _ _ _ _ Es _ Hin) as Hp. discriminate Hp. Qed.

Lemma sync_cc_fx_good m key cached out m' r fx :
  (forall o, cached = Some o -> good_obj o) -> sync_cc m key cached out = (m', r, fx) -> fx_good fx.
Proof.
  intros Hc Es o' uo Hin. destruct cached as [o|]; [|cbn in Es; inversion Es; subst; destruct Hin].
  eapply same_good; [eapply sync_cc_create_same; eassumption|apply Hc; reflexivity].
Qed.

Lemma construct_fx_good po lab ccs outs s1 s2 ns m fx pan :
  Forall good_obj ccs -> construct po lab ccs outs s1 s2 ns = (m, fx, pan) -> fx_good fx.
Proof.
  intros Hg Ec o' uo Hin. unfold construct in Ec.
  destruct (bootstrap_ccs [] ccs outs) as [m1 fx1] eqn:Eb.
  match type of Ec with context [occupy_nodes po lab ?m3 ?ns] => destruct (occupy_nodes po lab m3 ns) as [m4 p4] end.
  inversion Ec; subst. destruct (bootstrap_create_same _ _ _ _ _ Eb _ _ Hin) as (o & Ho & Hs).
  eapply same_good; [exact Hs|]. rewrite Forall_forall in Hg. apply Hg. exact Ho.
Qed.

Lemma crashed_winv w : WInv w -> WInv (crashed w).
Proof. intros I. wsplit I; try assumption; try constructor; try (intros; contradiction). all: try (intros; discriminate). Qed.

Lemma after_call_winv {A} w (r : res A) m' : WInv w -> MapInv m' -> WInv (after_call w r m').
Proof.
  intros I M. unfold after_call. destruct r; try (apply crashed_winv; exact I).
  all: wsplit I; try assumption; intros m0 E; inversion E; subst; exact M.
Qed.

(* ---------- controller calls on the world ---------- *)
Section WorldInv.
  Variable po : parse_oracle.
  Variable lab : label_oracle.

  Lemma sync_node_patches_wf svcs canp apisame held m cached reread outs m' r fx :
    MapInv m -> sync_node po lab svcs canp apisame held m cached reread outs = (m', r, fx) ->
    forall nm cs o, In (FxPatch nm cs o) fx -> Forall wf_cidr cs.
  Proof.
    unfold sync_node. intros M H nm cs o He.
    destruct cached as [node|]; [|inversion H; subst; destruct He].
    destruct (n_deleting node).
    { destruct (release_cidr svcs m node) as [m1 r1]. inversion H; subst. destruct He. }
    unfold allocate_or_occupy in H.
    destruct (n_cidrs node) as [|c0 cs0] eqn:En.
    2:{ destruct reread; [destruct (occupy_cidrs po lab m node) as [m1 r1]|]; inversion H; subst; destruct He. }
    destruct (prioritized_cidrs po lab held m node) as [m1 rp] eqn:Ep.
    destruct rp as [[cs1 p1]|e|].
    - destruct cs1 as [|c1 cs1'].
      + inversion H; subst. destruct He as [He|[]]. discriminate He.
      + assert (Hw : Forall wf_cidr (c1 :: cs1')).
        { unfold prioritized_cidrs in Ep. destruct (ordered_matching po lab m (n_labels node) true) as [ps|e|]; try discriminate.
          destruct (prioritized_try_inv held ps m m1 (Ok (c1 :: cs1', p1)) M Ep) as [_ Hw]. exact Hw. }
        destruct (update_patches_only_unassigned _ _ _ _ _ _ _ _ _ _ _ H _ He eq_refl) as [_ (o' & Ho')].
        inversion Ho'; subst. exact Hw.
    - inversion H; subst. destruct He as [He|[]]. discriminate He.
    - inversion H; subst. destruct He.
  Qed.

  Lemma run_node_sync_winv w cached key outs :
    WInv w -> (forall n, cached = Some n -> wf_node n) -> WInv (fst (run_node_sync po lab w cached key outs)).
  Proof.
    intros I Hc. unfold run_node_sync. destruct (w_ctl w) as [m|] eqn:Em; [|exact I].
    destruct (sync_node po lab (svc_list (w_svc w)) (can_patch w key) (api_same w key) (held_cidrs (w_ncache w)) m cached (find_node key (w_ncache w)) outs)
      as [[m' r] fx] eqn:Es.
    cbn [fst]. pose proof (wi_ctl w I m Em) as M.
    apply apply_effects_winv.
    - apply after_call_winv; [exact I|]. eapply sync_node_inv; [exact M|exact (wi_svc w I)|exact Hc|exact Es].
    - intros n cs o Hin. eapply sync_node_patches_wf; eassumption.
    - eapply sync_node_fx_good; exact Es.
  Qed.

  Lemma set_delseen_winv w d : WInv w -> WInv (set_delseen w d).
  Proof. intros I. wsplit I; assumption. Qed.

  Lemma run_cc_sync_winv w key cached out :
    WInv w -> (forall o, cached = Some o -> good_obj o) -> WInv (fst (run_cc_sync w key cached out)).
  Proof.
    intros I Hc. unfold run_cc_sync. destruct (w_ctl w) as [m|] eqn:Em; [|exact I].
    match goal with |- context [sync_cc m key cached ?o] => destruct (sync_cc m key cached o) as [[m' r] fx] eqn:Es end.
    cbn [fst]. pose proof (wi_ctl w I m Em) as M.
    assert (M' : MapInv m') by (eapply sync_cc_inv; eassumption).
    apply apply_effects_winv.
    - destruct cached as [o|]; [|apply after_call_winv; assumption].
      match goal with |- context [if ?b then _ else _] => destruct b end;
        [apply set_delseen_winv|]; apply after_call_winv; assumption.
    - intros n cs o Hin. pose proof (sync_cc_no_patch _ _ _ _ _ _ _ Es _ Hin) as Hp. discriminate Hp.
    - eapply sync_cc_fx_good; eassumption.
  Qed.

  (* informer notifications *)
  Lemma handle_nevent_winv w e : WInv w -> wf_node (nev_node e) -> WInv (fst (handle_nevent w e)).
  Proof.
    intros I He. unfold handle_nevent. destruct e as [n|n|n]; cbn [nev_node] in He.
    - destruct (w_ctl w) eqn:Em; cbn [set_caches w_ctl]; rewrite Em; cbn [fst];
        wsplit I; try assumption; apply Forall_put_node; assumption.
    - destruct (w_ctl w) eqn:Em; cbn [set_caches w_ctl]; rewrite Em; cbn [fst];
        wsplit I; try assumption; apply Forall_put_node; assumption.
    - cbn [set_caches w_ctl]. destruct (w_ctl w) as [m|] eqn:Em.
      + pose proof (wi_ctl w I m Em) as M.
        destruct (release_cidr (svc_list (w_svc w)) m n) as [m' r] eqn:Er.
        pose proof (release_cidr_inv _ _ _ _ _ M (wi_svc w I) He Er) as M'.
        destruct r; cbn [fst].
        * wsplit I; try assumption; [apply Forall_del_node; assumption|intros m0 E; inversion E; subst; exact M'].
        * wsplit I; try assumption; [apply Forall_del_node; assumption|intros m0 E; inversion E; subst; exact M'].
        * apply crashed_winv. wsplit I; try assumption. apply Forall_del_node; assumption.
      + cbn [fst]. wsplit I; try assumption. apply Forall_del_node; assumption.
  Qed.

  Lemma handle_cevent_winv w e : WInv w -> good_obj (cev_obj e) -> WInv (fst (handle_cevent w e)).
  Proof.
    intros I He. unfold handle_cevent.
    destruct e as [o|o|o]; cbn [cev_obj] in He; cbn [set_caches w_ctl]; destruct (w_ctl w) eqn:Em; cbn [fst];
      wsplit I; try assumption; first [apply Forall_put_cc; assumption|apply Forall_del_cc; assumption].
  Qed.

  Lemma deliver_all_n_winv es : forall w acc, WInv w -> Forall (fun e => wf_node (nev_node e)) es -> WInv (fst (deliver_all_n w es acc)).
  Proof.
    induction es as [|e es IH]; intros w acc I H; cbn [deliver_all_n]; [exact I|].
    inversion H; subst. pose proof (handle_nevent_winv w e I H2) as I1.
    destruct (handle_nevent w e) as [w1 ob]. cbn [fst] in I1.
    destruct (ob_res ob =? 3); [exact I1|]. apply IH; assumption.
  Qed.

  Lemma deliver_all_c_winv es : forall w, WInv w -> Forall (fun e => good_obj (cev_obj e)) es -> WInv (deliver_all_c w es).
  Proof.
    induction es as [|e es IH]; intros w I H; cbn [deliver_all_c]; [exact I|].
    inversion H; subst. apply IH; [apply handle_cevent_winv; assumption|assumption].
  Qed.

  Lemma relist_nevents_wf w : WInv w -> Forall (fun e => wf_node (nev_node e)) (relist_nevents w).
  Proof.
    intros I. unfold relist_nevents. apply Forall_app. split.
    - rewrite Forall_forall. intros e He. apply in_map_iff in He. destruct He as (a & <- & Ha). cbn.
      pose proof (wi_nodes w I) as H. rewrite Forall_forall in H. apply wf_node_view. apply H. exact Ha.
    - rewrite Forall_forall. intros e He. apply in_flat_map in He. destruct He as (k & _ & Hk).
      destruct (find_anode k (w_nodes w)); [destruct Hk|].
      destruct (find_node k (w_ncache w)) as [n|] eqn:En; [|destruct Hk].
      destruct Hk as [<-|[]]. cbn. pose proof (wi_ncache w I) as H. rewrite Forall_forall in H. apply H. eapply find_node_in. exact En.
  Qed.

  Lemma relist_cevents_wf w : WInv w -> Forall (fun e => good_obj (cev_obj e)) (relist_cevents w).
  Proof.
    intros I. unfold relist_cevents. apply Forall_app. split.
    - rewrite Forall_forall. intros e He. apply in_map_iff in He. destruct He as (a & <- & Ha). cbn.
      pose proof (wi_ccs w I) as H. rewrite Forall_forall in H. apply H. exact Ha.
    - rewrite Forall_forall. intros e He. apply in_flat_map in He. destruct He as (k & _ & Hk).
      destruct (find_cc k (w_ccs w)); [destruct Hk|].
      destruct (find_cc k (w_ccache w)) as [n|] eqn:En; [|destruct Hk].
      destruct Hk as [<-|[]]. cbn. pose proof (wi_ccache w I) as H. rewrite Forall_forall in H. apply H. eapply find_cc_in. exact En.
  Qed.

  Lemma set_queues_winv w a b : WInv w -> WInv (set_queues w a b).
  Proof. intros I. wsplit I; assumption. Qed.

  Lemma in_anodes_wf w a : WInv w -> In a (w_nodes w) -> wf_anode a.
  Proof. intros I H. pose proof (wi_nodes w I) as F. rewrite Forall_forall in F. apply F. exact H. Qed.
  Lemma in_ccs_good w o : WInv w -> In o (w_ccs w) -> good_obj o.
  Proof. intros I H. pose proof (wi_ccs w I) as F. rewrite Forall_forall in F. apply F. exact H. Qed.
  Lemma cached_node_wf w k n : WInv w -> find_node k (w_ncache w) = Some n -> wf_node n.
  Proof. intros I H. pose proof (wi_ncache w I) as F. rewrite Forall_forall in F. apply F. eapply find_node_in. exact H. Qed.
  Lemma cached_cc_good w k o : WInv w -> find_cc k (w_ccache w) = Some o -> good_obj o.
  Proof. intros I H. pose proof (wi_ccache w I) as F. rewrite Forall_forall in F. apply F. eapply find_cc_in. exact H. Qed.

  Theorem step_winv w o : WInv w -> wf_op o -> WInv (fst (step po lab w o)).
  Proof.
    intros I Ho. destruct o; cbn [step wf_op] in *.
    - (* UCreateNode *)
      destruct (find_anode name (w_nodes w)); [exact I|]. cbn [fst].
      assert (Hw : wf_anode (mkANode name ls cs false)) by exact Ho.
      wsplit I; try assumption; [apply Forall_snoc; assumption|apply push_nev_wf; [assumption|exact Hw]].
    - (* ULabelNode *)
      destruct (find_anode name (w_nodes w)) as [a|] eqn:Ea; [|exact I]. cbn [fst].
      assert (Hw : wf_anode (mkANode name ls (an_cidrs a) (an_deleting a))) by (apply (in_anodes_wf w a I); eapply find_anode_in; exact Ea).
      wsplit I; try assumption; [apply Forall_upd_anode; assumption|apply push_nev_wf; [assumption|exact Hw]].
    - (* UDeleteNode *)
      destruct (find_anode name (w_nodes w)) as [a|] eqn:Ea; [|exact I]. cbn [fst].
      assert (Hw : wf_anode a) by (apply (in_anodes_wf w a I); eapply find_anode_in; exact Ea).
      wsplit I; try assumption; [apply Forall_del_anode; assumption|apply push_nev_wf; [assumption|exact Hw]].
    - (* UMarkNodeDeleting *)
      destruct (find_anode name (w_nodes w)) as [a|] eqn:Ea; [|exact I]. cbn [fst].
      assert (Hw : wf_anode (mkANode name (an_labels a) (an_cidrs a) true)) by (apply (in_anodes_wf w a I); eapply find_anode_in; exact Ea).
      wsplit I; try assumption; [apply Forall_upd_anode; assumption|apply push_nev_wf; [assumption|exact Hw]].
    - (* UCreateCC *)
      destruct (find_cc (o_name o) (w_ccs w)); [exact I|]. cbn [fst].
      assert (Hg : good_obj (with_rv o (w_rv w + 1))) by (eapply good_obj_fields; [..|exact Ho]; reflexivity).
      wsplit I; try assumption; [apply Forall_snoc; assumption|apply push_cev_wf; assumption].
    - (* UDeleteCC *)
      destruct (find_cc name (w_ccs w)) as [c|] eqn:Ec; [|exact I].
      assert (Hg : good_obj c) by (apply (in_ccs_good w c I); eapply find_cc_in; exact Ec).
      destruct (o_fins c).
      + cbn [fst]. assert (Hg' : good_obj (with_rv c (w_rv w + 1))) by (eapply good_obj_fields; [..|exact Hg]; reflexivity).
        wsplit I; try assumption; [apply Forall_del_cc; assumption|apply push_cev_wf; assumption].
      + destruct (o_deleting c); [exact I|]. cbn [fst].
        assert (Hg' : good_obj (with_rv (with_deleting c) (w_rv w + 1))) by (eapply good_obj_fields; [..|exact Hg]; reflexivity).
        wsplit I; try assumption; [apply Forall_put_cc; assumption|apply push_cev_wf; assumption].
    - (* USetCCFinalizers *)
      destruct (find_cc name (w_ccs w)) as [c|] eqn:Ec; [|exact I].
      assert (Hg : good_obj c) by (apply (in_ccs_good w c I); eapply find_cc_in; exact Ec).
      match goal with |- context [with_rv ?x ?r] => assert (Hg' : good_obj (with_rv x r)) by (eapply good_obj_fields; [..|exact Hg]; reflexivity) end.
      match goal with |- context [if ?b then _ else _] => destruct b end; cbn [fst];
        wsplit I; try assumption; first [apply Forall_del_cc; assumption|apply Forall_put_cc; assumption|apply push_cev_wf; assumption].
    - (* DeliverNode *)
      destruct (w_nfeed w) as [|e rest] eqn:Ef; [exact I|].
      pose proof (wi_nfeed w I) as Hf. rewrite Ef in Hf. inversion Hf; subst.
      apply handle_nevent_winv; [|assumption]. wsplit I; assumption.
    - (* DeliverNodeTombstone *)
      destruct (w_nfeed w) as [|[n|n|n] rest] eqn:Ef; try exact I.
      pose proof (wi_nfeed w I) as Hf. rewrite Ef in Hf. inversion Hf; subst.
      apply handle_nevent_winv.
      + wsplit I; assumption.
      + cbn [nev_node]. destruct (find_node (n_name n) (w_ncache w)) as [c|] eqn:En; [eapply cached_node_wf; eassumption|assumption].
    - (* DeliverCC *)
      destruct (w_cfeed w) as [|e rest] eqn:Ef; [exact I|].
      pose proof (wi_cfeed w I) as Hf. rewrite Ef in Hf. inversion Hf; subst.
      apply handle_cevent_winv; [|assumption]. wsplit I; assumption.
    - (* ResyncNodes *)
      destruct (w_ctl w); [|exact I]. cbn [fst]. apply set_queues_winv. exact I.
    - (* ResyncCCs *)
      destruct (w_ctl w); [|exact I]. cbn [fst]. apply set_queues_winv. exact I.
    - (* RelistNodes *)
      destruct (w_synced w); [|exact I]. apply deliver_all_n_winv; [|apply relist_nevents_wf; exact I].
      wsplit I; try assumption. constructor.
    - (* RelistCCs *)
      destruct (w_synced w); [|exact I]. cbn [fst]. apply deliver_all_c_winv; [|apply relist_cevents_wf; exact I].
      wsplit I; try assumption. constructor.
    - (* FetchNode *)
      cbn [fst]. pose proof I as I0. wsplit I; try assumption.
      intros wk k n [E|Hin]; [inversion E; subst; eapply cached_node_wf; eassumption|].
      apply filter_In in Hin. destruct Hin as [Hin _]. eapply Wft. exact Hin.
    - (* RunNode *)
      destruct (find (fun x => fst x =? w0) (w_nfetch w)) as [[wk [key cached]]|] eqn:Ef; [|exact I].
      apply run_node_sync_winv.
      + pose proof I as I0. wsplit I; try assumption. intros wk' k n Hin. apply filter_In in Hin. destruct Hin as [Hin _]. eapply Wft. exact Hin.
      + intros n E. subst cached. apply find_some in Ef. destruct Ef as [Hin _]. eapply (wi_nfetch w I). exact Hin.
    - (* FetchCC *)
      cbn [fst]. pose proof I as I0. wsplit I; try assumption.
      intros wk k n [E|Hin]; [inversion E; subst; eapply cached_cc_good; eassumption|].
      apply filter_In in Hin. destruct Hin as [Hin _]. eapply Wfc. exact Hin.
    - (* RunCC *)
      destruct (find (fun x => fst x =? w0) (w_cfetch w)) as [[wk [key cached]]|] eqn:Ef; [|exact I].
      apply run_cc_sync_winv.
      + pose proof I as I0. wsplit I; try assumption. intros wk' k n Hin. apply filter_In in Hin. destruct Hin as [Hin _]. eapply Wfc. exact Hin.
      + intros n E. subst cached. apply find_some in Ef. destruct Ef as [Hin _]. eapply (wi_cfetch w I). exact Hin.
    - (* ProcNode *)
      destruct (w_ctl w) as [m|] eqn:Em; [|exact I]. destruct (q_ready (w_nq w)) as [|key rest]; [exact I|].
      match goal with |- context [run_node_sync po lab ?w1 ?c ?k ?o] =>
        assert (I2 : WInv (fst (run_node_sync po lab w1 c k o)));
          [|destruct (run_node_sync po lab w1 c k o) as [w2 ob2]] end.
      { apply run_node_sync_winv; [apply set_queues_winv; exact I|].
        cbn [set_queues w_ncache]. intros n E. eapply cached_node_wf; eassumption. }
      cbn [fst] in I2. destruct (ob_res ob2 =? 2); cbn [fst]; [apply set_queues_winv|]; exact I2.
    - (* ProcCC *)
      destruct (w_ctl w) as [m|] eqn:Em; [|exact I]. destruct (q_ready (w_cq w)) as [|key rest]; [exact I|].
      match goal with |- context [run_cc_sync ?w1 ?k ?c ?o] =>
        assert (I2 : WInv (fst (run_cc_sync w1 k c o)));
          [|destruct (run_cc_sync w1 k c o) as [w2 ob2]] end.
      { apply run_cc_sync_winv; [apply set_queues_winv; exact I|].
        cbn [set_queues w_ccache]. intros n E. eapply cached_cc_good; eassumption. }
      cbn [fst] in I2. destruct (ob_res ob2 =? 2); cbn [fst]; [apply set_queues_winv|]; exact I2.
    - (* Tick *) cbn [fst]. apply set_queues_winv. exact I.
    - (* Crash *) cbn [fst]. apply crashed_winv. exact I.
    - (* Construct *)
      destruct (w_ctl w) as [m0|] eqn:Em; [exact I|].
      destruct (construct po lab (with_default dp (w_ccs w)) outs svc1 svc2 (map node_view (w_nodes w))) as [[m fx] pan] eqn:Ec.
      cbn [fst]. destruct Ho as (H1 & H2 & Hdp).
      assert (Hgood : Forall good_obj (with_default dp (w_ccs w))) by (apply with_default_good; [exact Hdp|exact (wi_ccs w I)]).
      assert (M : MapInv m).
      { eapply construct_inv; [exact Hgood| |exact H1|exact H2|exact Ec].
        rewrite Forall_forall. intros n Hn. apply in_map_iff in Hn. destruct Hn as (a & <- & Ha). apply wf_node_view. eapply in_anodes_wf; eassumption. }
      apply apply_effects_winv.
      + wsplit I; [assumption|assumption|constructor|constructor|constructor|constructor|intros; contradiction|intros; contradiction| |].
        * intros m1 E. destruct pan; [discriminate|]. inversion E; subst. exact M.
        * unfold svc_list. cbn [fst snd]. apply Forall_app. split; [destruct svc1 as [s|]; [constructor; [apply H1; reflexivity|constructor]|constructor]|destruct svc2 as [s|]; [constructor; [apply H2; reflexivity|constructor]|constructor]].
      + intros n cs o Hin. unfold construct in Ec.
        destruct (bootstrap_ccs [] (with_default dp (w_ccs w)) outs) as [m1 fx1] eqn:Eb.
        match type of Ec with context [occupy_nodes po lab ?m3 ?ns] => destruct (occupy_nodes po lab m3 ns) as [m4 p4] end.
        inversion Ec; subst. pose proof (bootstrap_no_patch _ _ _ _ _ Eb _ Hin) as Hp. discriminate Hp.
      + eapply construct_fx_good; eassumption.
    - (* StartInformers *)
      destruct (w_ctl w) as [m|] eqn:Em; [|exact I]. destruct (w_synced w); [exact I|]. cbn [fst].
      pose proof I as I0. wsplit I; [assumption|assumption|constructor|constructor| |assumption|assumption|assumption| |assumption].
      + rewrite Forall_forall. intros n Hn. apply in_map_iff in Hn. destruct Hn as (a & <- & Ha). apply wf_node_view. eapply in_anodes_wf; eassumption.
      + intros m1 E. inversion E; subst. apply Wm. exact Em.
  Qed.

  (* every world reachable by well-formed operations satisfies the invariant *)
  Theorem run_winv ops : forall w, WInv w -> Forall wf_op ops -> WInv (run po lab w ops).
  Proof.
    induction ops as [|o ops IH]; intros w I H; [exact I|]. inversion H; subst.
    unfold run. cbn [fold_left]. apply IH; [apply step_winv; assumption|assumption].
  Qed.

  Corollary reachable_state_inv ops m :
    Forall wf_op ops -> w_ctl (run po lab init_world ops) = Some m -> MapInv m.
  Proof. intros H E. exact (wi_ctl _ (run_winv ops init_world winv_init H) m E). Qed.

  (* every PATCH of every step from a world satisfying the invariant carries well-formed CIDRs *)
  Lemma run_node_sync_patch_wf w cached key outs w' ob :
    WInv w -> run_node_sync po lab w cached key outs = (w', ob) ->
    forall nm cs out, In (FxPatch nm cs out) (ob_fx ob) -> Forall wf_cidr cs.
  Proof.
    intros I H nm cs out He. unfold run_node_sync in H. destruct (w_ctl w) as [m|] eqn:Em; [|inversion H; subst; destruct He].
    destruct (sync_node po lab (svc_list (w_svc w)) (can_patch w key) (api_same w key) (held_cidrs (w_ncache w)) m cached (find_node key (w_ncache w)) outs)
      as [[m' r] fx] eqn:Es.
    inversion H; subst. cbn [ob_fx] in He. eapply sync_node_patches_wf; [exact (wi_ctl w I m Em)|exact Es|exact He].
  Qed.

  Theorem step_patch_wf w o w' ob :
    WInv w -> step po lab w o = (w', ob) ->
    forall nm cs out, In (FxPatch nm cs out) (ob_fx ob) -> Forall wf_cidr cs.
  Proof.
    intros I H nm cs out He.
    destruct o; cbn [step] in H;
      try (repeat match type of H with
                  | context [match ?x with _ => _ end] => destruct x
                  end; inversion H; subst; destruct He; fail).
    - destruct (w_nfeed w) as [|e rest]; [inversion H; subst; destruct He|].
      pose proof (handle_nevent_fx (set_caches w (w_ncache w) (w_ccache w) rest (w_cfeed w)) e) as Hf. rewrite H in Hf. cbn [snd] in Hf. rewrite Hf in He. destruct He.
    - destruct (w_nfeed w) as [|[n|n|n] rest]; try (inversion H; subst; destruct He; fail).
      match type of H with handle_nevent ?a ?b = _ => pose proof (handle_nevent_fx a b) as Hf end. rewrite H in Hf. cbn [snd] in Hf. rewrite Hf in He. destruct He.
    - destruct (w_cfeed w) as [|e rest]; [inversion H; subst; destruct He|].
      unfold handle_cevent in H. destruct e;
        repeat match type of H with
               | context [match ?x with _ => _ end] => destruct x
               end; inversion H; subst; destruct He.
    - rewrite (relist_nodes_fx _ _ _ H) in He. destruct He.
    - destruct (find (fun x => fst x =? w0) (w_nfetch w)) as [[wk [key cached]]|] eqn:Ef; [|inversion H; subst; destruct He].
      eapply run_node_sync_patch_wf; [|exact H|exact He].
      pose proof I as I0. wsplit I; try assumption. intros wk' k n Hin. apply filter_In in Hin. destruct Hin as [Hin _]. eapply Wft. exact Hin.
    - destruct (find (fun x => fst x =? w0) (w_cfetch w)) as [[wk [key cached]]|]; [|inversion H; subst; destruct He].
      pose proof (run_cc_sync_no_patch _ _ _ _ _ _ H _ He) as Hp. discriminate Hp.
    - destruct (w_ctl w) as [m|]; [|inversion H; subst; destruct He].
      destruct (q_ready (w_nq w)) as [|key rest]; [inversion H; subst; destruct He|].
      match type of H with context [run_node_sync po lab ?w1 ?c ?k ?o] =>
        destruct (run_node_sync po lab w1 c k o) as [w2 ob2] eqn:Er end.
      assert (He2 : In (FxPatch nm cs out) (ob_fx ob2)).
      { destruct (ob_res ob2 =? 2); inversion H; subst; exact He. }
      eapply run_node_sync_patch_wf; [|exact Er|exact He2]. apply set_queues_winv. exact I.
    - destruct (w_ctl w) as [m|]; [|inversion H; subst; destruct He].
      destruct (q_ready (w_cq w)) as [|key rest]; [inversion H; subst; destruct He|].
      match type of H with context [run_cc_sync ?w1 ?k ?c ?o] =>
        destruct (run_cc_sync w1 k c o) as [w2 ob2] eqn:Er end.
      assert (He2 : In (FxPatch nm cs out) (ob_fx ob2)).
      { destruct (ob_res ob2 =? 2); inversion H; subst; exact He. }
      pose proof (run_cc_sync_no_patch _ _ _ _ _ _ Er _ He2) as Hp. discriminate Hp.
    - destruct (w_ctl w) as [m|]; [inversion H; subst; destruct He|].
      unfold construct in H.
      destruct (bootstrap_ccs [] (with_default dp (w_ccs w)) outs) as [m1 fx] eqn:Eb.
      match type of H with context [occupy_nodes po lab ?m3 ?ns] => destruct (occupy_nodes po lab m3 ns) as [m4 pan] end.
      inversion H; subst. cbn [ob_fx] in He.
      pose proof (bootstrap_no_patch _ _ _ _ _ Eb _ He) as Hp. discriminate Hp.
  Qed.
End WorldInv.
