(* ConvCC_proofs.v -- C11, the ClusterCIDR-deletion half as a round: from a world in which the controller and the informers
   run and the ClusterCIDR feed is empty, one fair fault-free round -- every ClusterCIDR whose deletion was requested and
   that still carries the controller's finalizer is fetched, its work item run with a successful write, the resulting
   notifications delivered -- leaves only such ClusterCIDRs on whose entry the controller still sees a node. *)
From NIPAM Require Import Sys Alloc_proofs Prio_proofs Inv_proofs Sys_proofs World_proofs Path_proofs NoPanic_proofs Resv_proofs Svc_proofs Uniq_proofs
  Conv_proofs Coh_proofs Default_proofs.
From Coq Require Import Lia.
Open Scope N_scope.

(* the controller still sees a dependant: some entry of that name under the object's selector has an associated node
   (or the selector cannot be converted, and the deletion is refused) *)
Definition busy_in (m : cidrmap) (o : ccobj) : Prop :=
  o_selkey o = None \/
  exists k l c, o_selkey o = Some k /\ find_key k m = Some l /\ In c l /\ cc_name c = o_name o /\ cc_assoc c <> [].

Lemma busy_at_in m o : busy_at m o -> busy_in m o.
Proof.
  intros [H|(k & l & i & c & Hk & Hl & Hn & Ha)]; [left; exact H|right].
  destruct (find_name_spec _ _ _ _ _ Hn) as (_ & Hnth & Hname).
  exists k, l, c. repeat split; try assumption. eapply nth_error_In. exact Hnth.
Qed.

Lemma find_key_del_key_other k k' m : k' <> k -> find_key k' (del_key k m) = find_key k' m.
Proof.
  intros Hne. induction m as [|[k0 l0] m IH]; cbn; [reflexivity|].
  destruct (str_eqb k k0) eqn:E.
  - apply str_eqb_eq in E. subst k0. destruct (str_eqb k' k) eqn:E2; [apply str_eqb_eq in E2; contradiction|]. reflexivity.
  - cbn. destruct (str_eqb k' k0); [reflexivity|exact IH].
Qed.

(* handling the deletion of another ClusterCIDR does not touch the dependants of this one *)
Lemma delete_other_keeps_busy m o2 o m' r :
  delete_cluster_cidr m o2 = (m', r) -> o_name o2 <> o_name o -> busy_in m o -> busy_in m' o.
Proof.
  intros Hd Hne [H|(k & l & c & Hk & Hl & Hin & Hname & Ha)]; [left; exact H|right].
  unfold delete_cluster_cidr in Hd. destruct (o_selkey o2) as [k2|] eqn:Hk2; [|inversion Hd; subst; exists k, l, c; repeat split; assumption].
  destruct (find_key k2 m) as [l2|] eqn:Hl2; [|inversion Hd; subst; exists k, l, c; repeat split; assumption].
  destruct (find_name (o_name o2) l2 0) as [[i c2]|] eqn:Hn2; [|inversion Hd; subst; exists k, l, c; repeat split; assumption].
  destruct (find_name_spec _ _ _ _ _ Hn2) as (_ & Hnth & Hname2). replace (i - 0)%nat with i in Hnth by lia.
  destruct (str_eqb k k2) eqn:Ek.
  - (* same selector: the list loses (or re-marks) the other entry only *)
    apply str_eqb_eq in Ek. subst k2. rewrite Hl in Hl2. inversion Hl2; subst l2.
    assert (Hc : c <> c2) by (intros ->; apply Hne; rewrite <- Hname, Hname2; reflexivity).
    assert (Hct : c <> with_term c2 true) by (intros ->; apply Hne; rewrite <- Hname; cbn; exact (eq_sym Hname2)).
    assert (Hin1 : In c (set_nth i (with_term c2 true) l)).
    { destruct (in_set_nth_cover i c c2 (with_term c2 true) l Hnth Hin) as [H|H]; [exact H|contradiction]. }
    assert (Hm1 : find_key k (set_entry m (k, i) (with_term c2 true)) = Some (set_nth i (with_term c2 true) l)).
    { unfold set_entry. cbn [fst snd]. rewrite Hl. apply find_key_set_key_same. }
    destruct (cc_assoc c2) eqn:Ha2.
    + destruct l as [|x [|y t]].
      * destruct Hin.
      * (* the single entry would be the other one *)
        exfalso. destruct i; cbn in Hnth; [inversion Hnth; subst; destruct Hin as [E|[]]; apply Hc; symmetry; exact E|destruct i; discriminate].
      * inversion Hd; subst. exists k, (remove_nth i (set_nth i (with_term c2 true) (x :: y :: t))), c.
        split; [exact Hk|]. split; [apply find_key_set_key_same|]. split; [|split; assumption].
        destruct (in_remove_nth_cover i c _ Hin1) as [H|H]; [exact H|].
        rewrite (nth_error_set_nth i (with_term c2 true) c2 _ Hnth) in H. exfalso. apply Hct. congruence.
    + inversion Hd; subst. exists k, (set_nth i (with_term c2 true) l), c. repeat split; assumption.
  - (* another selector: this key's list is untouched *)
    assert (Hkne : k <> k2) by (intros ->; rewrite str_eqb_refl in Ek; discriminate).
    assert (Hm1 : find_key k (set_entry m (k2, i) (with_term c2 true)) = Some l).
    { unfold set_entry. cbn [fst snd]. rewrite Hl2. rewrite find_key_set_key_other; assumption. }
    destruct (cc_assoc c2); [|inversion Hd; subst; exists k, l, c; repeat split; assumption].
    destruct l2 as [|x [|y t]]; inversion Hd; subst; exists k, l, c; (split; [exact Hk|]); (split; [|split; [exact Hin|split; assumption]]).
    + rewrite find_key_set_key_other; assumption.
    + rewrite find_key_del_key_other; assumption.
    + rewrite find_key_set_key_other; assumption.
Qed.

Lemma delete_self_busy m o m' r : delete_cluster_cidr m o = (m', r) -> busy_at m o -> busy_in m' o.
Proof.
  intros Hd [H|(k & l & i & c & Hk & Hl & Hn & Ha)]; [left; exact H|right].
  unfold delete_cluster_cidr in Hd. rewrite Hk, Hl, Hn in Hd.
  destruct (find_name_spec _ _ _ _ _ Hn) as (_ & Hnth & Hname). replace (i - 0)%nat with i in Hnth by lia.
  destruct (cc_assoc c) as [|a0 al] eqn:Ea; [contradiction|]. inversion Hd; subst.
  exists k, (set_nth i (with_term c true) l), (with_term c true). split; [exact Hk|]. split.
  - unfold set_entry. cbn [fst snd]. rewrite Hl. apply find_key_set_key_same.
  - split; [eapply in_set_nth_new; exact Hnth|]. split; [exact Hname|]. cbn. rewrite Ea. discriminate.
Qed.

(* ---------- frame facts of ClusterCIDR work items ---------- *)
Lemma apply_patch_synced w nm cs o : w_synced (apply_patch w nm cs o) = w_synced w.
Proof. unfold apply_patch. destruct o; try reflexivity; destruct (find_anode nm (w_nodes w)) as [a|]; try reflexivity; destruct (an_cidrs a); reflexivity. Qed.
Lemma apply_update_cc_synced' w o out : w_synced (apply_update_cc w o out) = w_synced w.
Proof.
  unfold apply_update_cc. destruct out; try reflexivity; destruct (find_cc (o_name o) (w_ccs w)) as [c0|]; try reflexivity;
    destruct (negb (o_rv c0 =? o_rv o)); try reflexivity; match goal with |- context [if ?b then _ else _] => destruct b end; reflexivity.
Qed.
Lemma apply_effects_synced fx : forall w, w_synced (apply_effects w fx) = w_synced w.
Proof.
  induction fx as [|e fx IH]; intros w; [reflexivity|]. destruct e as [nd cs po|? ?|? ?|o' out|o' out]; cbn [apply_effects]; rewrite IH; try reflexivity.
  - apply apply_patch_synced.
  - apply apply_update_cc_synced'.
  - destruct (apply_create_cc_frame w o' out) as (_ & _ & _ & _ & _ & _ & _ & H & _). exact H.
Qed.

(* objects of other names are not touched by the writes of a work item for [nm] *)
Lemma in_put_cc_other a l x : In x (put_cc a l) -> o_name x <> o_name a -> In x l.
Proof.
  unfold put_cc. destruct (find_cc (o_name a) l).
  - intros H Hne. apply in_map_iff in H. destruct H as (y & E & Hy). destruct (str_eqb (o_name y) (o_name a)); [subst; contradiction|subst; exact Hy].
  - intros H Hne. apply in_app_or in H. destruct H as [H|[<-|[]]]; [exact H|contradiction].
Qed.
Lemma in_del_cc name l x : In x (del_cc name l) -> In x l.
Proof. unfold del_cc. intros H. apply filter_In in H. apply H. Qed.

Lemma apply_update_cc_others w o out x : In x (w_ccs (apply_update_cc w o out)) -> o_name x <> o_name o -> In x (w_ccs w).
Proof.
  unfold apply_update_cc. destruct out; try (intros H _; exact H);
    (destruct (find_cc (o_name o) (w_ccs w)) as [cur|] eqn:Ec; [|intros H _; exact H]; destruct (negb (o_rv cur =? o_rv o)); [intros H _; exact H|]);
    pose proof (find_cc_name _ _ _ Ec) as Hn;
    (match goal with |- context [if ?b then _ else _] => destruct b end; cbn [set_api w_ccs]; intros H Hne;
     [eapply in_del_cc; exact H|eapply in_put_cc_other; [exact H|cbn [with_rv o_name]; rewrite Hn; exact Hne]]).
Qed.

Lemma in_put_cc_fwd a l x : In x l -> o_name x <> o_name a -> In x (put_cc a l).
Proof.
  intros H Hne. unfold put_cc. destruct (find_cc (o_name a) l); [|apply in_or_app; left; exact H].
  apply in_map_iff. exists x. split; [|exact H]. destruct (str_eqb (o_name x) (o_name a)) eqn:E; [apply str_eqb_eq in E; contradiction|reflexivity].
Qed.
Lemma in_del_cc_fwd name l x : In x l -> o_name x <> name -> In x (del_cc name l).
Proof.
  intros H Hne. unfold del_cc. apply filter_In. split; [exact H|]. destruct (str_eqb (o_name x) name) eqn:E; [apply str_eqb_eq in E; contradiction|reflexivity].
Qed.
Lemma apply_update_cc_others_fwd w o out x : In x (w_ccs w) -> o_name x <> o_name o -> In x (w_ccs (apply_update_cc w o out)).
Proof.
  unfold apply_update_cc. destruct out; try (intros H _; exact H);
    (destruct (find_cc (o_name o) (w_ccs w)) as [cur|] eqn:Ec; [|intros H _; exact H]; destruct (negb (o_rv cur =? o_rv o)); [intros H _; exact H|]);
    pose proof (find_cc_name _ _ _ Ec) as Hn;
    (match goal with |- context [if ?b then _ else _] => destruct b end; cbn [set_api w_ccs]; intros H Hne;
     [apply in_del_cc_fwd; [exact H|rewrite Hn; exact Hne]|apply in_put_cc_fwd; [exact H|cbn [with_rv o_name]; rewrite Hn; exact Hne]]).
Qed.

Lemma delete_no_panic m o m' : delete_cluster_cidr m o <> (m', Panic).
Proof.
  unfold delete_cluster_cidr. destruct (o_selkey o) as [k|]; [|discriminate]. destruct (find_key k m) as [l|]; [|discriminate].
  destruct (find_name (o_name o) l 0) as [[i c]|]; [|discriminate]. destruct (cc_assoc c); [|discriminate]. destruct l as [|x [|y t]]; discriminate.
Qed.

Section CCWork.
  Variable po : parse_oracle.
  Variable lab : label_oracle.

  (* a fault-free run of the work item of a ClusterCIDR whose deletion was requested, on the object as the API has it *)
  Lemma run_cc_sync_deleting_frame W m o :
    w_ctl W = Some m -> find_cc (o_name o) (w_ccs W) = Some o -> o_deleting o = true ->
    let W2 := fst (run_cc_sync W (o_name o) (Some o) UOk) in
    w_ctl W2 = Some (fst (delete_cluster_cidr m o)) /\ w_synced W2 = w_synced W /\
    (forall x, In x (w_ccs W2) -> o_name x <> o_name o -> In x (w_ccs W)).
  Proof.
    intros Em Hcur Hd. unfold run_cc_sync. rewrite Em, Hcur, N.eqb_refl.
    unfold sync_cc. rewrite Hd. unfold reconcile_delete.
    destruct (delete_cluster_cidr m o) as [m1 r1] eqn:Hdel. cbn [fst].
    destruct r1 as [[]|e|]; [| |exfalso; exact (delete_no_panic m o m1 Hdel)].
    - destruct (has_str finalizer (o_fins o)); cbn [after_call res_code fst snd].
      + match goal with |- context [if ?b then _ else _] => destruct b end;
          (split; [rewrite apply_effects_ctl; reflexivity|]); (split; [rewrite apply_effects_synced; reflexivity|]);
          intros x Hx Hne; cbn [apply_effects] in Hx; apply (apply_update_cc_others _ _ _ x) in Hx; [exact Hx|cbn [with_fins o_name]; exact Hne|exact Hx|cbn [with_fins o_name]; exact Hne].
      + match goal with |- context [if ?b then _ else _] => destruct b end; cbn [apply_effects];
          (split; [reflexivity|]); (split; [reflexivity|]); intros x Hx _; exact Hx.
    - cbn [after_call res_code fst snd apply_effects].
      match goal with |- context [if ?b then _ else _] => destruct b end; (split; [reflexivity|]); (split; [reflexivity|]); intros x Hx _; exact Hx.
  Qed.

  Lemma run_cc_sync_deleting_fwd W m o :
    w_ctl W = Some m -> find_cc (o_name o) (w_ccs W) = Some o -> o_deleting o = true ->
    forall x, In x (w_ccs W) -> o_name x <> o_name o -> In x (w_ccs (fst (run_cc_sync W (o_name o) (Some o) UOk))).
  Proof.
    intros Em Hcur Hd x Hx Hne. unfold run_cc_sync. rewrite Em, Hcur, N.eqb_refl.
    unfold sync_cc. rewrite Hd. unfold reconcile_delete.
    destruct (delete_cluster_cidr m o) as [m1 r1] eqn:Hdel. cbn [fst].
    destruct r1 as [[]|e|]; [| |exfalso; exact (delete_no_panic m o m1 Hdel)].
    - destruct (has_str finalizer (o_fins o)); cbn [after_call res_code fst snd].
      + match goal with |- context [if ?b then _ else _] => destruct b end; cbn [apply_effects];
          apply apply_update_cc_others_fwd; [exact Hx|cbn [with_fins o_name]; exact Hne|exact Hx|cbn [with_fins o_name]; exact Hne].
      + match goal with |- context [if ?b then _ else _] => destruct b end; cbn [apply_effects]; exact Hx.
    - cbn [after_call res_code fst snd apply_effects].
      match goal with |- context [if ?b then _ else _] => destruct b end; exact Hx.
  Qed.
End CCWork.

(* ---------- draining the ClusterCIDR feed ---------- *)
Section DrainC.
  Variable po : parse_oracle.
  Variable lab : label_oracle.

  Lemma deliver_c_step w e rest : w_cfeed w = e :: rest ->
    let w' := fst (step po lab w DeliverCC) in
    w_cfeed w' = rest /\ w_synced w' = w_synced w /\ w_ccs w' = w_ccs w /\ w_ctl w' = w_ctl w.
  Proof.
    intros Ef. cbn [step]. rewrite Ef. unfold handle_cevent.
    destruct e; cbn [set_caches w_ctl w_ncache w_ccache w_nfeed w_cfeed]; destruct (w_ctl w) eqn:Em; cbn; repeat split; try reflexivity; first [exact Em|symmetry; exact Em].
  Qed.

  Definition drain_c (w : world) : world := run po lab w (repeat DeliverCC (length (w_cfeed w))).

  Lemma drain_c_spec : forall n w, length (w_cfeed w) = n -> WInv w -> WK w -> CohC w -> CN w -> w_synced w = true ->
    let w' := run po lab w (repeat DeliverCC n) in
    WInv w' /\ WK w' /\ CohC w' /\ CN w' /\ w_cfeed w' = [] /\ w_synced w' = true /\ w_ccs w' = w_ccs w /\ w_ctl w' = w_ctl w.
  Proof.
    induction n as [|n IH]; intros w Hl I K C N Hs; cbn [repeat run fold_left].
    - cbv zeta. destruct (w_cfeed w) eqn:Ef; [|discriminate]. split; [exact I|]. split; [exact K|]. split; [exact C|]. split; [exact N|]. split; [first [exact Ef|reflexivity]|]. split; [exact Hs|]. split; reflexivity.
    - destruct (w_cfeed w) as [|e rest] eqn:Ef; [discriminate|]. cbn in Hl. injection Hl as Hl.
      destruct (deliver_c_step w e rest Ef) as (A & B & D & E).
      pose proof (step_cohc po lab w DeliverCC C Logic.I) as C1.
      pose proof (step_cn po lab w DeliverCC N) as N1.
      pose proof (step_winv po lab w DeliverCC I Logic.I) as I1.
      pose proof (proj1 (step_no_panic po lab w DeliverCC I K Logic.I)) as K1.
      unfold run. cbn [fold_left].
      destruct (IH (fst (step po lab w DeliverCC)) ltac:(rewrite A; exact Hl) I1 K1 C1 N1 ltac:(rewrite B; exact Hs)) as (I' & K' & C' & N' & F' & S' & X' & M').
      unfold run in *. split; [exact I'|]. split; [exact K'|]. split; [exact C'|]. split; [exact N'|]. split; [exact F'|]. split; [exact S'|].
      split; [rewrite X'; exact D|rewrite M'; exact E].
  Qed.

  (* controller and informers running, nothing pending in the ClusterCIDR feed *)
  Record QuietC (w : world) : Prop := {
    qc_winv : WInv w; qc_wk : WK w; qc_coh : CohC w; qc_cn : CN w;
    qc_ctl : exists m, w_ctl w = Some m; qc_sync : w_synced w = true; qc_feed : w_cfeed w = []
  }.

  Lemma quietc_cache w : QuietC w -> w_ccache w = w_ccs w.
  Proof. intros Q. pose proof (cc_sync w (qc_coh w Q) (qc_sync w Q)) as H. rewrite (qc_feed w Q) in H. exact H. Qed.

  Lemma find_cc_in_nodup l o : NoDup (map o_name l) -> In o l -> find_cc (o_name o) l = Some o.
  Proof.
    induction l as [|h t IH]; intros Hnd Hin; [destruct Hin|]. cbn in *. inversion Hnd; subst.
    destruct Hin as [->|Hin]; [rewrite str_eqb_refl; reflexivity|].
    destruct (str_eqb (o_name h) (o_name o)) eqn:E; [|apply IH; assumption].
    exfalso. apply str_eqb_eq in E. apply H1. rewrite E. apply in_map. exact Hin.
  Qed.

  Definition release_one (w : world) (name : str) : world := drain_c (run po lab w [FetchCC 0 name; RunCC 0 UOk]).

  Definition wants_release (o : ccobj) : bool := o_deleting o && has_str finalizer (o_fins o).

  Lemma release_one_spec w o : QuietC w -> In o (w_ccs w) -> wants_release o = true ->
    let w' := release_one w (o_name o) in
    QuietC w' /\
    ctl_of w' = fst (delete_cluster_cidr (ctl_of w) o) /\
    (forall x, In x (w_ccs w') -> o_name x <> o_name o -> In x (w_ccs w)) /\
    (forall x, In x (w_ccs w) -> o_name x <> o_name o -> In x (w_ccs w')) /\
    ((forall o2, find_cc (o_name o) (w_ccs w') = Some o2 -> has_str finalizer (o_fins o2) = false) \/
     (w_ccs w' = w_ccs w /\ busy_at (ctl_of w) o)).
  Proof.
    intros Q Hin Hw. unfold wants_release in Hw. apply andb_prop in Hw. destruct Hw as [Hd Hf].
    destruct Q as [I K C N (m & Em) Hsy Hfe].
    assert (Hcache : w_ccache w = w_ccs w) by (pose proof (cc_sync w C Hsy) as H; rewrite Hfe in H; exact H).
    assert (Hfind : find_cc (o_name o) (w_ccs w) = Some o) by (apply find_cc_in_nodup; assumption).
    set (w2 := run po lab w [FetchCC 0 (o_name o); RunCC 0 UOk]).
    (* invariants of the two steps *)
    assert (Hinv : WInv w2 /\ WK w2 /\ CohC w2 /\ CN w2).
    { unfold w2, run. cbn [fold_left].
      pose proof (step_winv po lab w (FetchCC 0 (o_name o)) I Logic.I) as I1. pose proof (proj1 (step_no_panic po lab w (FetchCC 0 (o_name o)) I K Logic.I)) as K1.
      pose proof (step_cohc po lab w (FetchCC 0 (o_name o)) C Logic.I) as C1. pose proof (step_cn po lab w (FetchCC 0 (o_name o)) N) as N1.
      pose proof (step_winv po lab _ (RunCC 0 UOk) I1 Logic.I) as I2. pose proof (proj1 (step_no_panic po lab _ (RunCC 0 UOk) I1 K1 Logic.I)) as K2.
      pose proof (step_cohc po lab _ (RunCC 0 UOk) C1 Logic.I) as C2. pose proof (step_cn po lab _ (RunCC 0 UOk) N1) as N2.
      split; [exact I2|]. split; [exact K2|]. split; [exact C2|exact N2]. }
    destruct Hinv as (I2 & K2 & C2 & N2).
    (* the world the work item runs on *)
    set (W1 := set_fetch (set_fetch w (w_nfetch w) ((0, (o_name o, find_cc (o_name o) (w_ccache w))) :: filter (fun x => negb (fst x =? 0)) (w_cfetch w)))
                 (w_nfetch w) (filter (fun x => negb (fst x =? 0)) ((0, (o_name o, find_cc (o_name o) (w_ccache w))) :: filter (fun x => negb (fst x =? 0)) (w_cfetch w)))).
    assert (Hrun : w2 = fst (run_cc_sync W1 (o_name o) (Some o) UOk)).
    { unfold w2, run. cbn [fold_left step fst set_fetch w_nfetch w_cfetch find]. cbn [N.eqb]. rewrite Hcache, Hfind. reflexivity. }
    destruct (run_cc_sync_deleting_frame W1 m o Em Hfind Hd) as (Hctl & Hsyn & Hoth).
    pose proof (run_cc_sync_deleting W1 m o Em Hfind Hd Hf) as Hcase. cbv zeta in Hcase.
    pose proof (run_cc_sync_deleting_fwd W1 m o Em Hfind Hd) as Hfwd.
    rewrite <- Hrun in Hctl, Hsyn, Hoth, Hcase, Hfwd.
    assert (Hs2 : w_synced w2 = true) by (rewrite Hsyn; exact Hsy).
    destruct (drain_c_spec (length (w_cfeed w2)) w2 eq_refl I2 K2 C2 N2 Hs2) as (I' & K' & C' & N' & F' & S' & X' & M').
    unfold release_one. fold w2. unfold drain_c.
    split; [constructor; try assumption; rewrite M', Hctl; eexists; reflexivity|].
    split; [unfold ctl_of; rewrite M', Hctl, Em; reflexivity|].
    split; [intros x Hx Hne; rewrite X' in Hx; exact (Hoth x Hx Hne)|].
    split; [intros x Hx Hne; rewrite X'; exact (Hfwd x Hx Hne)|].
    rewrite X'. destruct Hcase as [[Hrel _]|(Hsame & _ & Hb)]; [left; exact Hrel|right].
    split; [exact Hsame|]. unfold ctl_of. rewrite Em. exact Hb.
  Qed.
End DrainC.

(* ---------- the round ---------- *)
Section RoundC.
  Variable po : parse_oracle.
  Variable lab : label_oracle.

  Definition pending (w : world) : list ccobj := filter wants_release (w_ccs w).
  Definition round_c (w : world) : world := fold_left (release_one po lab) (map o_name (pending w)) w.

  (* every ClusterCIDR whose deletion was requested and that still carries the controller's finalizer is one the controller
     still sees a dependant of *)
  Definition settled_c (w : world) : Prop :=
    forall o, In o (w_ccs w) -> wants_release o = true -> busy_in (ctl_of w) o.

  Lemma release_all_spec L : forall w, QuietC w -> NoDup (map o_name L) ->
    (forall a, In a L -> In a (w_ccs w) /\ wants_release a = true) ->
    (forall o, In o (w_ccs w) -> wants_release o = true -> In (o_name o) (map o_name L) \/ busy_in (ctl_of w) o) ->
    let w' := fold_left (release_one po lab) (map o_name L) w in
    QuietC w' /\ settled_c w'.
  Proof.
    induction L as [|a L IH]; intros w Q Hnd HL Hrest; cbn [map fold_left].
    - split; [exact Q|]. intros o Ho Hw. destruct (Hrest o Ho Hw) as [[]|H]; exact H.
    - inversion Hnd as [|x l Hna HndL]; subst.
      destruct (HL a (or_introl eq_refl)) as [Hin Hwa].
      destruct (release_one_spec po lab w a Q Hin Hwa) as (Q1 & Hctl & Hback & Hfwd & Hcase).
      apply IH; [exact Q1|exact HndL| |].
      + intros b Hb. destruct (HL b (or_intror Hb)) as [Hbin Hbw]. split; [|exact Hbw].
        apply Hfwd; [exact Hbin|]. intros E. apply Hna. rewrite <- E. apply in_map. exact Hb.
      + intros o Ho Hwo.
        destruct (str_eqb (o_name o) (o_name a)) eqn:En.
        * (* the ClusterCIDR just handled *)
          apply str_eqb_eq in En. right.
          assert (Hfo : find_cc (o_name a) (w_ccs (release_one po lab w (o_name a))) = Some o)
            by (pose proof (find_cc_in_nodup _ o (qc_cn _ Q1) Ho) as H; rewrite En in H; exact H).
          destruct Hcase as [Hrel|[Hsame Hb]].
          -- exfalso. pose proof (Hrel o Hfo) as Hnf. unfold wants_release in Hwo. rewrite Hnf, Bool.andb_false_r in Hwo. discriminate Hwo.
          -- assert (o = a).
             { rewrite Hsame in Hfo. rewrite (find_cc_in_nodup (w_ccs w) a (qc_cn _ Q) Hin) in Hfo. inversion Hfo. reflexivity. }
             subst o. rewrite Hctl. destruct (delete_cluster_cidr (ctl_of w) a) as [m1 r1] eqn:Hd. cbn [fst].
             eapply delete_self_busy; eassumption.
        * assert (Hne : o_name o <> o_name a) by (intros E; rewrite E, str_eqb_refl in En; discriminate).
          pose proof (Hback o Ho Hne) as Hoin.
          destruct (Hrest o Hoin Hwo) as [Hl|Hb].
          -- left. cbn [map] in Hl. destruct Hl as [E|Hl]; [exfalso; apply Hne; symmetry; exact E|exact Hl].
          -- right. rewrite Hctl. destruct (delete_cluster_cidr (ctl_of w) a) as [m1 r1] eqn:Hd. cbn [fst].
             eapply delete_other_keeps_busy; [exact Hd| |exact Hb]. intros E. apply Hne. symmetry. exact E.
  Qed.

  (* C11, the ClusterCIDR-deletion half: ONE fair fault-free round from a quiet world settles it *)
  Theorem round_c_settles w : QuietC w -> QuietC (round_c w) /\ settled_c (round_c w).
  Proof.
    intros Q. unfold round_c. apply release_all_spec; [exact Q| | |].
    - unfold pending. apply NoDup_map_filter. exact (qc_cn _ Q).
    - intros a Ha. unfold pending in Ha. apply filter_In in Ha. exact Ha.
    - intros o Ho Hw. left. apply in_map. unfold pending. apply filter_In. split; assumption.
  Qed.

  (* what "settled" excludes: a ClusterCIDR whose deletion was requested, that carries only the controller's finalizer and on
     whose entry no node depends is not there any more *)
  Corollary round_c_releases w o : QuietC w -> In o (w_ccs (round_c w)) -> wants_release o = true ->
    forall k, o_selkey o = Some k ->
    exists l c, find_key k (ctl_of (round_c w)) = Some l /\ In c l /\ cc_name c = o_name o /\ cc_assoc c <> [].
  Proof.
    intros Q Ho Hw k Hk. destruct (proj2 (round_c_settles w Q) o Ho Hw) as [H|(k' & l & c & Hk' & Hl & Hc & Hn & Ha)]; [congruence|].
    rewrite Hk in Hk'. inversion Hk'; subst k'. exists l, c. repeat split; assumption.
  Qed.
End RoundC.
