(* Hist3_proofs.v -- C01 and C03 over whole histories ACROSS RESTARTS.  Universe: any number of incarnations of the
   controller (crash at any point, construction from the API objects, informers started later); nodes are created
   without pod CIDRs under names used once, relabelled and deleted at any time, also while the controller is down;
   deletions are delivered in order as ordinary delete notifications; node work items may be arbitrarily stale;
   ClusterCIDRs of any shape come and go; writes fail and time out in any pattern.
   Invariant HInv: every holder (existing node, or deleted node whose notification is still on its way) is protected:
   its CIDR is a reserved key of an entry it is associated with (written by this incarnation), or the node cache
   shows it (listed at start-up) -- and every cached or pending copy of a node shows each CIDR the node holds unless
   that CIDR is reserved.  Theorem: no two holders ever overlap, in any incarnation.
   Outside (monitored): tombstones, relists, nodes marked deleting, pre-set pod CIDRs. *)
From NIPAM Require Import Sys Geom_proofs Pool_proofs Prio_proofs Alloc_proofs Inv_proofs Sys_proofs World_proofs Complete_proofs Resv_proofs Hist_proofs Hist2_proofs.
From Coq Require Import Lia.
Open Scope N_scope.

Definition shows (y : nodeobj) (c : cidr) : Prop := exists cn, In (PGood c cn) (n_cidrs y).
Definition reserved (w : world) (nm : str) (c : cidr) : Prop := exists m, w_ctl w = Some m /\ Held m nm c.
Definition cached_c (w : world) (nm : str) (c : cidr) : Prop := exists y, In y (w_ncache w) /\ n_name y = nm /\ shows y c.
Definition copy_of (w : world) (y : nodeobj) : Prop := In y (w_ncache w) \/ In (NAdd y) (w_nfeed w) \/ In (NUpd y) (w_nfeed w).

Record HInv (w : world) : Prop := {
  h_w : WInv w;
  h_names : NoDup (map an_name (w_nodes w));
  h_nodel : forall a, In a (w_nodes w) -> an_deleting a = false;
  h_feed_nd : forall e, In e (w_nfeed w) -> n_deleting (nev_node e) = false;
  h_cache_nd : forall n, In n (w_ncache w) -> n_deleting n = false;
  h_fetch : forall wk key n, In (wk, (key, Some n)) (w_nfetch w) -> n_deleting n = false;
  h_dead : forall x, In (NDel x) (w_nfeed w) -> ~ In (n_name x) (map an_name (w_nodes w));
  h_dead_nodup : NoDup (dead_names (w_nfeed w));
  h_disj : forall n1 c1 n2 c2, holder w n1 c1 -> holder w n2 c2 -> n1 <> n2 -> overlapb c1 c2 = false;
  h_prot : w_synced w = true -> forall nm c, holder w nm c -> reserved w nm c \/ cached_c w nm c;
  h_copy : forall y, copy_of w y -> forall c, holder w (n_name y) c -> reserved w (n_name y) c \/ shows y c;
  h_uns : w_synced w = false -> w_ncache w = [] /\ w_nfeed w = [] /\ forall wk key o, In (wk, (key, o)) (w_nfetch w) -> o = None;
  h_down : w_ctl w = None -> w_synced w = false
}.

Definition tame3_op (o : op) : Prop :=
  match o with
  | UMarkNodeDeleting _ | DeliverNodeTombstone | RelistNodes => False
  | UCreateNode _ _ cs => cs = []
  | UCreateCC obj => good_obj obj
  | Construct s1 s2 _ dp => (forall s, s1 = Some s -> wf_cidr s) /\ (forall s, s2 = Some s -> wf_cidr s) /\ wf_dp dp
  | _ => True
  end.
Lemma tame3_wf o : tame3_op o -> wf_op o.
Proof. destruct o; cbn; try tauto. intros ->. constructor. Qed.

Ltac hsplit I :=
  let a := fresh "Hw" in let b := fresh "Hnm" in let c := fresh "Hnd" in let d := fresh "Hfd" in
  let e := fresh "Hca" in let f := fresh "Hft" in let g := fresh "Hde" in let h := fresh "Hdn" in
  let i := fresh "Hdj" in let j := fresh "Hpr" in let k := fresh "Hcp" in let l := fresh "Hun" in let m := fresh "Hdw" in
  destruct I as [a b c d e f g h i j k l m]; constructor;
  cbn [w_nodes w_ccs w_rv w_nfeed w_cfeed w_ncache w_ccache w_nq w_cq w_ctl w_synced w_nfetch w_cfetch w_svc w_delseen
       set_api set_ctl set_caches set_queues set_fetch set_delseen crashed] in *.

Lemma hinv_init : HInv init_world.
Proof.
  constructor; cbn.
  - apply winv_init.
  - apply NoDup_nil.
  - intros a [].
  - intros e [].
  - intros n [].
  - intros wk key n [].
  - intros x [].
  - apply NoDup_nil.
  - intros n1 c1 n2 c2 [(a & [] & _)|(x & cn & [] & _)].
  - discriminate.
  - intros y [[]|[[]|[]]].
  - intros _. split; [reflexivity|]. split; [reflexivity|intros wk key o []].
  - reflexivity.
Qed.

(* fields the invariant reads *)
Lemma hinv_same w w' :
  HInv w -> WInv w' -> w_nodes w' = w_nodes w -> w_nfeed w' = w_nfeed w -> w_ncache w' = w_ncache w ->
  w_nfetch w' = w_nfetch w -> w_ctl w' = w_ctl w -> w_synced w' = w_synced w -> HInv w'.
Proof.
  intros I W' E1 E2 E3 E4 E5 E6. destruct I as [a b c d e f g h i j k l m].
  assert (Hh : forall nm c0, holder w' nm c0 <-> holder w nm c0) by (intros; unfold holder; rewrite E1, E2; tauto).
  assert (Hr : forall nm c0, reserved w' nm c0 <-> reserved w nm c0) by (intros; unfold reserved; rewrite E5; tauto).
  assert (Hc : forall nm c0, cached_c w' nm c0 <-> cached_c w nm c0) by (intros; unfold cached_c; rewrite E3; tauto).
  assert (Hy : forall y, copy_of w' y <-> copy_of w y) by (intros; unfold copy_of; rewrite E2, E3; tauto).
  constructor; rewrite ?E1, ?E2, ?E3, ?E4, ?E5, ?E6; try assumption.
  - intros n1 c1 n2 c2 H1 H2. apply i; apply Hh; assumption.
  - intros Hs nm c0 Hc0. apply Hh in Hc0. destruct (j Hs nm c0 Hc0) as [H|H]; [left; apply Hr; exact H|right; apply Hc; exact H].
  - intros y Hy0 c0 Hc0. apply Hy in Hy0. apply Hh in Hc0. destruct (k y Hy0 c0 Hc0) as [H|H]; [left; apply Hr; exact H|right; exact H].
Qed.

Lemma crashed_hinv_of w X : HInv w -> WInv X -> w_nodes X = w_nodes w -> HInv (crashed X).
Proof.
  intros I WX E. pose proof (crashed_winv X WX) as W'. destruct I as [a b c d e f g h i j k l m]. constructor; cbn; try assumption.
  - rewrite E. exact b.
  - rewrite E. exact c.
  - intros e0 [].
  - intros n [].
  - intros wk key n [].
  - intros x [].
  - apply NoDup_nil.
  - intros n1 c1 n2 c2 H1 H2. apply i.
    + destruct H1 as [H1|(x & cn & [] & _)]. left. cbn in H1. rewrite E in H1. exact H1.
    + destruct H2 as [H2|(x & cn & [] & _)]. left. cbn in H2. rewrite E in H2. exact H2.
  - discriminate.
  - intros y [[]|[[]|[]]].
  - intros _. split; [reflexivity|]. split; [reflexivity|intros wk key o []].
  - reflexivity.
Qed.
Lemma crashed_hinv w : HInv w -> HInv (crashed w).
Proof. intros I. apply (crashed_hinv_of w w I (h_w w I) eq_refl). Qed.

Lemma patched_hinv w nm cs a :
  HInv w -> Forall wf_cidr cs ->
  (forall n2 d, holder w n2 d -> n2 <> nm -> forall x, In x cs -> overlapb x d = false) ->
  (forall x, In x cs -> reserved w nm x) ->
  find_anode nm (w_nodes w) = Some a -> an_cidrs a = [] ->
  let a' := mkANode (an_name a) (an_labels a) (map (fun c => PGood c true) cs) (an_deleting a) in
  WInv (set_api w (upd_anode a' (w_nodes w)) (w_ccs w) (w_rv w) (push_nev w (NUpd (node_view a'))) (w_cfeed w)) ->
  HInv (set_api w (upd_anode a' (w_nodes w)) (w_ccs w) (w_rv w) (push_nev w (NUpd (node_view a'))) (w_cfeed w)).
Proof.
  intros I Hw Hav Hres Ea Ec a' W'.
  pose proof (find_anode_name _ _ _ Ea) as Hnm. pose proof (find_anode_in _ _ _ Ea) as Hina.
  assert (Hnmapi : In nm (map an_name (w_nodes w))) by (rewrite <- Hnm; apply in_map; exact Hina).
  set (w' := set_api w (upd_anode a' (w_nodes w)) (w_ccs w) (w_rv w) (push_nev w (NUpd (node_view a'))) (w_cfeed w)) in *.
  assert (Hhold : forall n c, holder w' n c -> (n = nm /\ In c cs) \/ (holder w n c /\ n <> nm)).
  { intros n c [(b & Hb & Hn & Hc)|(x & cn & Hx & Hn & Hc)].
    - cbn [w' set_api w_nodes] in Hb. destruct (in_upd_anode a' _ b (h_names w I) Hb) as [->|[Hb' Hbn]].
      + left. split; [cbn in Hn; congruence|eapply node_cidr_written; exact Hc].
      + right. split; [left; exists b; repeat split; assumption|cbn in Hbn; congruence].
    - cbn [w' set_api w_nfeed] in Hx. apply in_push_ndel in Hx; [|exact Logic.I].
      right. split; [right; exists x, cn; repeat split; assumption|].
      intros ->. apply (h_dead w I x Hx). rewrite Hn. exact Hnmapi. }
  assert (Hres' : forall n c, reserved w' n c <-> reserved w n c) by (intros; unfold reserved; cbn; tauto).
  pose proof I as I0. unfold w' in *. clear w'. hsplit I.
  - exact W'.
  - rewrite upd_anode_names. exact Hnm0.
  - intros x Hx. destruct (in_upd_anode a' _ x Hnm0 Hx) as [->|[Hx' _]]; [cbn; apply Hnd; exact Hina|apply Hnd; exact Hx'].
  - intros e He. unfold push_nev in He. destruct (w_synced w); [|apply Hfd; exact He].
    apply in_app_or in He. destruct He as [He|[<-|[]]]; [apply Hfd; exact He|cbn; apply Hnd; exact Hina].
  - exact Hca.
  - exact Hft.
  - intros x Hx. apply in_push_ndel in Hx; [|exact Logic.I]. rewrite upd_anode_names. apply Hde. exact Hx.
  - rewrite dead_names_push; [exact Hdn|exact Logic.I].
  - intros n1 c1 n2 c2 H1 H2 Hne. destruct (Hhold _ _ H1) as [[-> Hc1]|[H1' Hn1]]; destruct (Hhold _ _ H2) as [[-> Hc2]|[H2' Hn2]].
    + contradiction.
    + apply (Hav n2 c2 H2' Hn2 c1 Hc1).
    + rewrite overlapb_sym. apply (Hav n1 c1 H1' Hn1 c2 Hc2).
    + exact (Hdj n1 c1 n2 c2 H1' H2' Hne).
  - intros Hs n c Hc. destruct (Hhold _ _ Hc) as [[-> Hc1]|[Hc' _]].
    + left. apply Hres'. apply Hres. exact Hc1.
    + destruct (Hpr Hs n c Hc') as [H|H]; [left; apply Hres'; exact H|right; exact H].
  - intros y Hy c Hc.
    assert (Hy' : copy_of w y \/ y = node_view a').
    { destruct Hy as [Hy|[Hy|Hy]]; [left; left; exact Hy| |].
      - unfold push_nev in Hy. destruct (w_synced w); [|left; right; left; exact Hy].
        apply in_app_or in Hy. destruct Hy as [Hy|[E|[]]]; [left; right; left; exact Hy|discriminate E].
      - unfold push_nev in Hy. destruct (w_synced w); [|left; right; right; exact Hy].
        apply in_app_or in Hy. destruct Hy as [Hy|[E|[]]]; [left; right; right; exact Hy|inversion E; right; reflexivity]. }
    destruct (Hhold _ _ Hc) as [[En Hc1]|[Hc' Hne]].
    + left. apply Hres'. rewrite En. apply Hres. exact Hc1.
    + destruct Hy' as [Hy'| ->]; [|cbn in Hne; congruence].
      destruct (Hcp y Hy' c Hc') as [H|H]; [left; apply Hres'; exact H|right; exact H].
  - intros Hs. destruct (Hun Hs) as (A & B & C). split; [exact A|]. split; [|exact C]. unfold push_nev. rewrite Hs. exact B.
  - exact Hdw.
Qed.

Lemma apply_patch_hinv w nm cs o :
  HInv w -> Forall wf_cidr cs ->
  (forall n2 d, holder w n2 d -> n2 <> nm -> forall x, In x cs -> overlapb x d = false) ->
  (o = POk \/ o = PTimeoutApplied -> forall x, In x cs -> reserved w nm x) ->
  HInv (apply_patch w nm cs o).
Proof.
  intros I Hw Hav Hres. pose proof (apply_patch_winv w nm cs o (h_w w I) Hw) as W'.
  unfold apply_patch in *.
  destruct o; try exact I;
    (destruct (find_anode nm (w_nodes w)) as [a|] eqn:Ea; [|exact I]; destruct (an_cidrs a) eqn:Ec; [|exact I]);
    (eapply patched_hinv; try eassumption; apply Hres; auto).
Qed.

Lemma apply_patch_other_holders3 w nm cs o n2 d :
  HInv w -> holder (apply_patch w nm cs o) n2 d -> n2 <> nm -> holder w n2 d.
Proof.
  intros I H Hne. unfold apply_patch in H.
  destruct o; try exact H;
    (destruct (find_anode nm (w_nodes w)) as [a|] eqn:Ea; [|exact H]; destruct (an_cidrs a) eqn:Ec; [|exact H]).
  all: destruct H as [(b & Hb & Hn & Hc)|(x & cn & Hx & Hn & Hc)].
  all: try (cbn [set_api w_nodes] in Hb; destruct (in_upd_anode _ _ b (h_names w I) Hb) as [->|[Hb' _]];
            [cbn in Hn; rewrite (find_anode_name _ _ _ Ea) in Hn; congruence|left; exists b; repeat split; assumption]).
  all: cbn [set_api w_nfeed] in Hx; apply in_push_ndel in Hx; [|exact Logic.I]; right; exists x, cn; repeat split; assumption.
Qed.

Lemma apply_update_cc_synced w o out : w_synced (apply_update_cc w o out) = w_synced w.
Proof.
  unfold apply_update_cc. destruct out; try reflexivity; destruct (find_cc (o_name o) (w_ccs w)) as [c0|]; try reflexivity;
    destruct (negb (o_rv c0 =? o_rv o)); try reflexivity; match goal with |- context [if ?b then _ else _] => destruct b end; reflexivity.
Qed.
Lemma apply_update_cc_ncache w o out : w_ncache (apply_update_cc w o out) = w_ncache w.
Proof.
  unfold apply_update_cc. destruct out; try reflexivity; destruct (find_cc (o_name o) (w_ccs w)) as [c0|]; try reflexivity;
    destruct (negb (o_rv c0 =? o_rv o)); try reflexivity; match goal with |- context [if ?b then _ else _] => destruct b end; reflexivity.
Qed.
Lemma apply_update_cc_nfetch3 w o out : w_nfetch (apply_update_cc w o out) = w_nfetch w.
Proof.
  unfold apply_update_cc. destruct out; try reflexivity; destruct (find_cc (o_name o) (w_ccs w)) as [c0|]; try reflexivity;
    destruct (negb (o_rv c0 =? o_rv o)); try reflexivity; match goal with |- context [if ?b then _ else _] => destruct b end; reflexivity.
Qed.

Lemma apply_update_cc_hinv w o out : HInv w -> HInv (apply_update_cc w o out).
Proof.
  intros I. pose proof (apply_update_cc_winv w o out (h_w w I)) as W'.
  apply (hinv_same w); try assumption.
  - apply apply_update_cc_nodes.
  - apply apply_update_cc_feed.
  - apply apply_update_cc_ncache.
  - apply apply_update_cc_nfetch3.
  - apply apply_update_cc_ctl.
  - apply apply_update_cc_synced.
Qed.

Lemma apply_patch_reserved w nm cs o n c : reserved (apply_patch w nm cs o) n c <-> reserved w n c.
Proof. unfold reserved. rewrite apply_patch_ctl. tauto. Qed.
Lemma apply_update_cc_reserved w o out n c : reserved (apply_update_cc w o out) n c <-> reserved w n c.
Proof. unfold reserved. rewrite apply_update_cc_ctl. tauto. Qed.

Lemma apply_create_cc_hinv w o out : HInv w -> good_obj o -> HInv (apply_create_cc w o out).
Proof.
  intros I Hg. pose proof (apply_create_cc_winv w o out (h_w w I) Hg) as W'.
  destruct (apply_create_cc_frame w o out) as (E1 & E2 & _ & E3 & _ & _ & E4 & E6 & E5 & _).
  apply (hinv_same w); assumption.
Qed.
Lemma apply_create_cc_reserved w o out n c : reserved (apply_create_cc w o out) n c <-> reserved w n c.
Proof. unfold reserved. rewrite apply_create_cc_ctl. tauto. Qed.

Lemma apply_effects_hinv fx : forall w nm cs, HInv w -> Forall wf_cidr cs -> fx_good fx ->
  (forall nm' cs' o, In (FxPatch nm' cs' o) fx -> nm' = nm /\ cs' = cs) ->
  (forall n2 d, holder w n2 d -> n2 <> nm -> forall x, In x cs -> overlapb x d = false) ->
  ((exists o, In (FxPatch nm cs o) fx /\ (o = POk \/ o = PTimeoutApplied)) -> forall x, In x cs -> reserved w nm x) ->
  HInv (apply_effects w fx).
Proof.
  induction fx as [|e fx IH]; intros w nm cs I Hw Hg Hsame Hav Hres; [exact I|].
  pose proof (fx_good_tail _ _ Hg) as Hg'.
  destruct e; cbn [apply_effects].
  - destruct (Hsame _ _ _ (or_introl eq_refl)) as [-> ->].
    apply (IH _ nm cs); [|exact Hw|exact Hg'| | |].
    + apply apply_patch_hinv; [exact I|exact Hw|exact Hav|]. intros Ho. apply Hres. exists o. split; [left; reflexivity|exact Ho].
    + intros nm' cs' o' Hin. apply (Hsame nm' cs' o'). right. exact Hin.
    + intros n2 d Hh Hne. apply (Hav n2 d); [|exact Hne]. eapply apply_patch_other_holders3; eassumption.
    + intros (o' & Hin & Ho') x Hx. apply apply_patch_reserved. apply Hres; [|exact Hx]. exists o'. split; [right; exact Hin|exact Ho'].
  - apply (IH _ nm cs); try assumption. intros; eapply Hsame; right; eassumption.
    intros (o' & Hin & Ho'). apply Hres. exists o'. split; [right; exact Hin|exact Ho'].
  - apply (IH _ nm cs); try assumption. intros; eapply Hsame; right; eassumption.
    intros (o' & Hin & Ho'). apply Hres. exists o'. split; [right; exact Hin|exact Ho'].
  - apply (IH _ nm cs); [apply apply_update_cc_hinv; exact I|exact Hw|exact Hg'| | |].
    + intros; eapply Hsame; right; eassumption.
    + intros n2 d Hh. apply (Hav n2 d). apply apply_update_cc_holders in Hh. exact Hh.
    + intros (o'' & Hin & Ho') x Hx. apply apply_update_cc_reserved. apply Hres; [|exact Hx]. exists o''. split; [right; exact Hin|exact Ho'].
  - apply (IH _ nm cs); [apply apply_create_cc_hinv; [exact I|exact (fx_good_head _ _ _ Hg)]|exact Hw|exact Hg'| | |].
    + intros; eapply Hsame; right; eassumption.
    + intros n2 d Hh. apply (Hav n2 d). apply apply_create_cc_holders in Hh. exact Hh.
    + intros (o'' & Hin & Ho') x Hx. apply apply_create_cc_reserved. apply Hres; [|exact Hx]. exists o''. split; [right; exact Hin|exact Ho'].
Qed.

Lemma cached_in_held w nm c : cached_c w nm c -> In c (held_cidrs (w_ncache w)).
Proof.
  intros (y & Hy & _ & (cn & Hc)). unfold held_cidrs. apply in_flat_map. exists y. split; [exact Hy|].
  apply in_flat_map. exists (PGood c cn). split; [exact Hc|left; reflexivity].
Qed.

Section Hist3.
  Variable po : parse_oracle.
  Variable lab : label_oracle.

  Lemma set_ctl_hinv w m m' :
    HInv w -> w_ctl w = Some m -> MapInv m' -> mono m m' -> HInv (set_ctl w (Some m')).
  Proof.
    intros I Em M' Hmono.
    assert (W' : WInv (set_ctl w (Some m'))).
    { pose proof (h_w w I) as Ww. destruct Ww as [a1 b1 c1 d1 e1 f1 g1 h1 i1 j1]. constructor; cbn; try assumption.
      intros m0 E0. inversion E0; subst. exact M'. }
    assert (Hres : forall n c, reserved w n c -> reserved (set_ctl w (Some m')) n c).
    { intros n c (m0 & E0 & Hh). rewrite Em in E0. inversion E0; subst m0. exists m'. split; [reflexivity|apply Hmono; exact Hh]. }
    destruct I as [a b c d e f g h i j k l mm]. constructor; cbn [set_ctl w_nodes w_nfeed w_ncache w_nfetch w_ctl w_synced]; try assumption.
    - intros Hs nm c0 Hc0. destruct (j Hs nm c0 Hc0) as [H|H]; [left; apply Hres; exact H|right; exact H].
    - intros y Hy c0 Hc0. destruct (k y Hy c0 Hc0) as [H|H]; [left; apply Hres; exact H|right; exact H].
    - intros E. discriminate E.
  Qed.

  Lemma run_node_sync_hinv w cached key outs :
    HInv w -> (forall n, cached = Some n -> wf_node n /\ n_deleting n = false) -> (w_synced w = false -> cached = None) ->
    HInv (fst (run_node_sync po lab w cached key outs)).
  Proof.
    intros I Hc Huns. unfold run_node_sync. destruct (w_ctl w) as [m|] eqn:Em; [|exact I].
    destruct (sync_node po lab (svc_list (w_svc w)) (can_patch w key) (api_same w key) (held_cidrs (w_ncache w)) m cached (find_node key (w_ncache w)) outs)
      as [[m' r] fx] eqn:Es.
    cbn [fst]. pose proof (wi_ctl w (h_w w I) m Em) as M.
    destruct (res_eq_panic r) as [->|Hnp].
    { rewrite (sync_node_panic_writes_nothing _ _ _ _ _ _ _ _ _ _ _ _ M Es). cbn. apply crashed_hinv. exact I. }
    destruct (sync_node_keeps _ _ _ _ _ _ _ _ _ _ _ _ _ M Hc Hnp Es) as (Hmono & Havoid & Hkept).
    assert (M' : MapInv m') by (eapply sync_node_inv; [exact M|exact (wi_svc w (h_w w I))|intros n E; apply (Hc n E)|exact Es]).
    assert (Hac : after_call w r m' = set_ctl w (Some m')) by (unfold after_call; destruct r; [reflexivity|reflexivity|contradiction]).
    assert (IA : HInv (after_call w r m')) by (rewrite Hac; eapply set_ctl_hinv; eassumption).
    assert (Hholders : forall n c, holder (after_call w r m') n c <-> holder w n c) by (intros; rewrite Hac; unfold holder; cbn; tauto).
    destruct (patch_dec fx) as [(nm & cs & o & Hin)|Hno].
    - (* a PATCH exists: the informers run, and every other holder is protected *)
      assert (Hs : w_synced w = true).
      { destruct (w_synced w) eqn:E; [reflexivity|]. rewrite (Huns eq_refl) in Es. cbn in Es. inversion Es; subst. destruct Hin. }
      pose proof (sync_node_patches po lab _ _ _ _ _ _ _ _ _ _ _ Es _ _ _ Hin) as (_ & _ & Hunheld).
      apply (apply_effects_hinv fx _ nm cs IA).
      + exact (sync_node_patches_wf po lab _ _ _ _ _ _ _ _ _ _ _ M Es nm cs o Hin).
      + eapply sync_node_fx_good; exact Es.
      + intros nm' cs' o' Hin'. exact (sync_node_patches_same _ _ _ _ _ _ _ _ _ _ _ _ _ Es _ _ _ _ _ _ Hin' Hin).
      + intros n2 d Hh Hne x Hx. apply Hholders in Hh. destruct (h_prot w I Hs n2 d Hh) as [(m0 & E0 & Hheld)|Hcached].
        * rewrite Em in E0. inversion E0; subst m0. eapply Havoid; [exact Hin|exact Hheld|exact Hx].
        * unfold all_unheld in Hunheld. rewrite Forall_forall in Hunheld.
          apply (in_use_by_node_false _ _ (Hunheld x Hx)). eapply cached_in_held. exact Hcached.
      + intros (o' & Hin' & Ho') x Hx. rewrite Hac. exists m'. split; [reflexivity|].
        eapply Hkept; [exact Hin'| |exact Hx].
        exact (sync_node_applied_is_kept _ _ _ _ _ _ _ _ _ _ _ _ _ M Es _ _ _ Hin' Ho').
    - apply (apply_effects_hinv fx _ key [] IA); [constructor|eapply sync_node_fx_good; exact Es| | |].
      + intros nm' cs' o' Hin'. destruct (Hno _ _ _ Hin').
      + intros n2 d _ _ x [].
      + intros _ x [].
  Qed.

  Lemma run_cc_sync_hinv w key cached out :
    HInv w -> (forall o, cached = Some o -> good_obj o) -> HInv (fst (run_cc_sync w key cached out)).
  Proof.
    intros I Hc. pose proof (run_cc_sync_winv w key cached out (h_w w I) Hc) as W'.
    unfold run_cc_sync in *. destruct (w_ctl w) as [m|] eqn:Em; [|exact I].
    match goal with |- context [sync_cc m key cached ?o] => destruct (sync_cc m key cached o) as [[m' r] fx] eqn:Es end.
    cbn [fst] in *. pose proof (sync_cc_keeps _ _ _ _ _ _ _ Es) as Hmono.
    assert (Hnp : forall nm cs o, ~ In (FxPatch nm cs o) fx).
    { intros nm cs o Hin. pose proof (sync_cc_no_patch _ _ _ _ _ _ _ Es _ Hin) as Hp. discriminate Hp. }
    assert (IA : HInv (after_call w r m')).
    { unfold after_call. destruct r; try (apply crashed_hinv; exact I).
      all: assert (M' : MapInv m') by (eapply sync_cc_inv; [exact (wi_ctl w (h_w w I) m Em)|exact Hc|exact Es]).
      all: eapply set_ctl_hinv; eassumption. }
    assert (IB : forall w1, HInv w1 -> HInv (apply_effects w1 fx)).
    { intros w1 I1. apply (apply_effects_hinv fx w1 key [] I1); [constructor|eapply sync_cc_fx_good; eassumption| | |].
      - intros nm' cs' o' Hin'. destruct (Hnp _ _ _ Hin').
      - intros n2 d _ _ x [].
      - intros _ x []. }
    apply IB. destruct cached as [o|]; [|exact IA].
    match goal with |- context [if ?b then _ else _] => destruct b end; [|exact IA].
    apply (hinv_same (after_call w r m')); try reflexivity; [exact IA|]. apply set_delseen_winv. exact (h_w _ IA).
  Qed.

  Lemma holder_names w nm c : holder w nm c -> In nm (map an_name (w_nodes w)) \/ In nm (dead_names (w_nfeed w)).
  Proof.
    intros [(a & Ha & Hn & _)|(x & cn & Hx & Hn & _)]; [left; rewrite <- Hn; apply in_map; exact Ha|right; apply dead_names_in; exists x; split; assumption].
  Qed.

  Lemma api_node_unique w a b : NoDup (map an_name (w_nodes w)) -> In a (w_nodes w) -> In b (w_nodes w) -> an_name a = an_name b -> a = b.
  Proof.
    intros Hnd. induction (w_nodes w) as [|h t IH]; [intros []|]. cbn in Hnd. inversion Hnd; subst. intros [->|Ha] [->|Hb] E; try reflexivity.
    - exfalso. apply H1. rewrite E. apply in_map. exact Hb.
    - exfalso. apply H1. rewrite <- E. apply in_map. exact Ha.
    - apply IH; assumption.
  Qed.

  Lemma deliver_all_c_synced es : forall w, w_synced (deliver_all_c w es) = w_synced w.
  Proof.
    induction es as [|e es IH]; intros w; cbn [deliver_all_c]; [reflexivity|]. rewrite IH.
    unfold handle_cevent. destruct e; cbn; destruct (w_ctl w); reflexivity.
  Qed.

  Lemma deliver_put_hinv w e rest n :
    e = NAdd n \/ e = NUpd n -> HInv w -> w_nfeed w = e :: rest -> w_synced w = true ->
    HInv (fst (handle_nevent (set_caches w (w_ncache w) (w_ccache w) rest (w_cfeed w)) e)).
  Proof.
    intros He I Ef Hsy.
    assert (Hwe : wf_node n).
    { pose proof (wi_nfeed w (h_w w I)) as Hf. rewrite Ef in Hf. inversion Hf; subst. destruct He as [-> | ->]; assumption. }
    assert (Hdel : n_deleting n = false).
    { pose proof (h_feed_nd w I e ltac:(rewrite Ef; left; reflexivity)) as H. destruct He as [-> | ->]; exact H. }
    assert (W0 : WInv (set_caches w (w_ncache w) (w_ccache w) rest (w_cfeed w))).
    { pose proof (h_w w I) as Ww. destruct Ww as [a1 b1 c1 d1 e1 f1 g1 h1 i1 j1]. constructor; cbn; try assumption. rewrite Ef in c1. inversion c1; assumption. }
    assert (Hen : nev_node e = n) by (destruct He as [-> | ->]; reflexivity).
    pose proof (handle_nevent_winv (set_caches w (w_ncache w) (w_ccache w) rest (w_cfeed w)) e W0 ltac:(rewrite Hen; exact Hwe)) as Wh.
    assert (Hcopy_n : copy_of w n) by (destruct He as [-> | ->]; [right; left|right; right]; rewrite Ef; left; reflexivity).
    assert (Hnd_rest : dead_names rest = dead_names (w_nfeed w)) by (rewrite Ef; destruct He as [-> | ->]; reflexivity).
    (* the resulting world, uniformly for add and update *)
    assert (Hres : exists wq, fst (handle_nevent (set_caches w (w_ncache w) (w_ccache w) rest (w_cfeed w)) e) = wq /\
              w_nodes wq = w_nodes w /\ w_nfeed wq = rest /\ w_ncache wq = put_node n (w_ncache w) /\ w_nfetch wq = w_nfetch w /\
              w_ctl wq = w_ctl w /\ w_synced wq = w_synced w).
    { eexists. split; [reflexivity|]. unfold handle_nevent. destruct He as [-> | ->]; cbn [set_caches w_ctl]; destruct (w_ctl w) eqn:Ectl; cbn; rewrite ?Ectl; repeat split; reflexivity. }
    destruct Hres as (wq & Eq & E1 & E2 & E3 & E4 & E5 & E6). rewrite Eq in *. clear Eq.
    assert (Hhold : forall nm c, holder wq nm c -> holder w nm c).
    { intros nm c [(a & Ha & Hn & Hc)|(x & cn & Hx & Hn & Hc)].
      - left. exists a. rewrite <- E1. repeat split; assumption.
      - right. exists x, cn. split; [rewrite Ef; right; rewrite <- E2; exact Hx|split; assumption]. }
    assert (Hr : forall nm c, reserved w nm c -> reserved wq nm c) by (intros nm c (m & Em & Hh); exists m; split; [congruence|exact Hh]).
    destruct I as [a b c d e0 f g h i j k l mm]. constructor; rewrite ?E1, ?E2, ?E3, ?E4, ?E5, ?E6; try assumption.
    - intros e1 He1. apply d. rewrite Ef. right. exact He1.
    - intros x Hx. unfold put_node in Hx. destruct (find_node (n_name n) (w_ncache w)).
      + apply in_map_iff in Hx. destruct Hx as (y & <- & Hy). destruct (str_eqb (n_name y) (n_name n)); [exact Hdel|apply e0; exact Hy].
      + apply in_app_or in Hx. destruct Hx as [Hx|[<-|[]]]; [apply e0; exact Hx|exact Hdel].
    - intros x Hx. apply g. rewrite Ef. right. exact Hx.
    - rewrite Hnd_rest. exact h.
    - intros n1 c1 n2 c2 H1 H2. apply i; apply Hhold; assumption.
    - intros Hs nm c0 Hc0. pose proof (Hhold _ _ Hc0) as Hc1. destruct (j Hs nm c0 Hc1) as [H|(y & Hy & Hn & Hsh)]; [left; apply Hr; exact H|].
      (* the cached copy may just have been replaced by the delivered one *)
      destruct (list_eq_dec N.eq_dec (n_name y) (n_name n)) as [E|E].
      + destruct (k n Hcopy_n c0 ltac:(rewrite <- E, Hn; exact Hc1)) as [H|H]; [left; apply Hr; rewrite <- Hn, E; exact H|].
        right. exists n. split; [|split; [congruence|exact H]]. rewrite E3. unfold put_node.
        destruct (find_node (n_name n) (w_ncache w)) eqn:Efn.
        * apply in_map_iff. exists y. split; [|exact Hy]. rewrite E, str_eqb_refl. reflexivity.
        * apply in_or_app. right. left. reflexivity.
      + right. exists y. split; [|split; assumption]. rewrite E3. unfold put_node. destruct (find_node (n_name n) (w_ncache w)).
        * apply in_map_iff. exists y. split; [|exact Hy]. destruct (str_eqb (n_name y) (n_name n)) eqn:E'; [apply str_eqb_eq in E'; contradiction|reflexivity].
        * apply in_or_app. left. exact Hy.
    - intros y Hy c0 Hc0. pose proof (Hhold _ _ Hc0) as Hc1.
      assert (Hy' : copy_of w y).
      { destruct Hy as [Hy|[Hy|Hy]].
        - rewrite E3 in Hy. unfold put_node in Hy. destruct (find_node (n_name n) (w_ncache w)).
          + apply in_map_iff in Hy. destruct Hy as (z & Ez & Hz). destruct (str_eqb (n_name z) (n_name n)); [subst y; exact Hcopy_n|subst y; left; exact Hz].
          + apply in_app_or in Hy. destruct Hy as [Hy|[<-|[]]]; [left; exact Hy|exact Hcopy_n].
        - right. left. rewrite Ef. right. rewrite <- E2. exact Hy.
        - right. right. rewrite Ef. right. rewrite <- E2. exact Hy. }
      destruct (k y Hy' c0 Hc1) as [H|H]; [left; apply Hr; exact H|right; exact H].
    - intros Hs. rewrite Hsy in Hs. discriminate Hs.
  Qed.

  Theorem step_hinv w o :
    HInv w -> tame3_op o ->
    (forall nm, In nm (created o) -> ~ In nm (dead_names (w_nfeed w))) ->
    HInv (fst (step po lab w o)).
  Proof.
    intros I Hq Hfresh. pose proof (step_winv po lab w o (h_w w I) (tame3_wf o Hq)) as W'.
    destruct o; cbn [step tame3_op] in *; try contradiction.
    - (* UCreateNode *)
      subst cs. destruct (find_anode name (w_nodes w)) eqn:Ef; [exact I|]. cbn [fst] in *.
      set (a' := mkANode name ls [] false) in *.
      assert (Hhold : forall n c, holder (set_api w (w_nodes w ++ [a']) (w_ccs w) (w_rv w) (push_nev w (NAdd (node_view a'))) (w_cfeed w)) n c -> holder w n c).
      { intros n c [(b & Hb & Hn & Hc)|(x & cn & Hx & Hn & Hc)].
        - cbn [set_api w_nodes] in Hb. apply in_app_or in Hb. destruct Hb as [Hb|[<-|[]]]; [left; exists b; repeat split; assumption|destruct Hc as (cn & [])].
        - cbn [set_api w_nfeed] in Hx. apply in_push_ndel in Hx; [|exact Logic.I]. right. exists x, cn. repeat split; assumption. }
      assert (Hnoh : forall c, ~ holder w name c).
      { intros c Hc. destruct (holder_names _ _ _ Hc) as [H|H]; [exact (find_anode_none _ _ Ef H)|exact (Hfresh name (or_introl eq_refl) H)]. }
      pose proof I as I0. hsplit I; try assumption.
      + rewrite map_app. cbn. apply NoDup_app_snoc; [exact Hnm|apply find_anode_none; exact Ef].
      + intros x Hx. apply in_app_or in Hx. destruct Hx as [Hx|[<-|[]]]; [apply Hnd; exact Hx|reflexivity].
      + intros e He. unfold push_nev in He. destruct (w_synced w); [|apply Hfd; exact He].
        apply in_app_or in He. destruct He as [He|[<-|[]]]; [apply Hfd; exact He|reflexivity].
      + intros x Hx. apply in_push_ndel in Hx; [|exact Logic.I]. rewrite map_app. intros Hin. apply in_app_or in Hin.
        destruct Hin as [Hin|[E|[]]]; [exact (Hde x Hx Hin)|]. cbn in E.
        apply (Hfresh name (or_introl eq_refl)). apply dead_names_in. exists x. split; [exact Hx|symmetry; exact E].
      + rewrite dead_names_push; [exact Hdn|exact Logic.I].
      + intros n1 c1 n2 c2 H1 H2. apply Hdj; apply Hhold; assumption.
      + intros Hs nm c Hc. apply (Hpr Hs nm c). apply Hhold. exact Hc.
      + intros y Hy c Hc. apply Hhold in Hc.
        assert (Hy' : copy_of w y \/ y = node_view a').
        { destruct Hy as [Hy|[Hy|Hy]]; [left; left; exact Hy| |].
          - unfold push_nev in Hy. destruct (w_synced w); [|left; right; left; exact Hy].
            apply in_app_or in Hy. destruct Hy as [Hy|[E|[]]]; [left; right; left; exact Hy|inversion E; right; reflexivity].
          - unfold push_nev in Hy. destruct (w_synced w); [|left; right; right; exact Hy].
            apply in_app_or in Hy. destruct Hy as [Hy|[E|[]]]; [left; right; right; exact Hy|discriminate E]. }
        destruct Hy' as [Hy'| ->]; [exact (Hcp y Hy' c Hc)|]. cbn in Hc. destruct (Hnoh c Hc).
      + intros Hs. destruct (Hun Hs) as (A & B & C). split; [exact A|]. split; [|exact C]. unfold push_nev. rewrite Hs. exact B.
    - (* ULabelNode *)
      destruct (find_anode name (w_nodes w)) as [a|] eqn:Ea; [|exact I]. cbn [fst] in *.
      pose proof (find_anode_name _ _ _ Ea) as Hnam. pose proof (find_anode_in _ _ _ Ea) as Hina.
      set (a' := mkANode name ls (an_cidrs a) (an_deleting a)) in *.
      assert (Hhold : forall n c, holder (set_api w (upd_anode a' (w_nodes w)) (w_ccs w) (w_rv w) (push_nev w (NUpd (node_view a'))) (w_cfeed w)) n c -> holder w n c).
      { intros n c [(b & Hb & Hn & Hc)|(x & cn & Hx & Hn & Hc)].
        - cbn [set_api w_nodes] in Hb. destruct (in_upd_anode a' _ b (h_names w I) Hb) as [->|[Hb' _]].
          + left. exists a. split; [exact Hina|]. split; [cbn in Hn; congruence|exact Hc].
          + left. exists b. repeat split; assumption.
        - cbn [set_api w_nfeed] in Hx. apply in_push_ndel in Hx; [|exact Logic.I]. right. exists x, cn. repeat split; assumption. }
      pose proof I as I0. hsplit I; try assumption.
      + rewrite upd_anode_names. exact Hnm.
      + intros x Hx. destruct (in_upd_anode a' _ x Hnm Hx) as [->|[Hx' _]]; [cbn; apply Hnd; exact Hina|apply Hnd; exact Hx'].
      + intros e He. unfold push_nev in He. destruct (w_synced w); [|apply Hfd; exact He].
        apply in_app_or in He. destruct He as [He|[<-|[]]]; [apply Hfd; exact He|cbn; apply Hnd; exact Hina].
      + intros x Hx. apply in_push_ndel in Hx; [|exact Logic.I]. rewrite upd_anode_names. apply Hde. exact Hx.
      + rewrite dead_names_push; [exact Hdn|exact Logic.I].
      + intros n1 c1 n2 c2 H1 H2. apply Hdj; apply Hhold; assumption.
      + intros Hs nm c Hc. apply (Hpr Hs nm c). apply Hhold. exact Hc.
      + intros y Hy c Hc. apply Hhold in Hc.
        assert (Hy' : copy_of w y \/ y = node_view a').
        { destruct Hy as [Hy|[Hy|Hy]]; [left; left; exact Hy| |].
          - unfold push_nev in Hy. destruct (w_synced w); [|left; right; left; exact Hy].
            apply in_app_or in Hy. destruct Hy as [Hy|[E|[]]]; [left; right; left; exact Hy|discriminate E].
          - unfold push_nev in Hy. destruct (w_synced w); [|left; right; right; exact Hy].
            apply in_app_or in Hy. destruct Hy as [Hy|[E|[]]]; [left; right; right; exact Hy|inversion E; right; reflexivity]. }
        destruct Hy' as [Hy'| ->]; [exact (Hcp y Hy' c Hc)|]. right. cbn in Hc.
        (* the holder of that name is the API node a itself *)
        destruct Hc as [(b & Hb & Hn & Hcb)|(x & cn & Hx & Hn & _)].
        * assert (b = a) by (apply (api_node_unique w b a Hnm Hb Hina); congruence). subst b. exact Hcb.
        * exfalso. apply (Hde x Hx). rewrite Hn, <- Hnam. apply in_map. exact Hina.
      + intros Hs. destruct (Hun Hs) as (A & B & C). split; [exact A|]. split; [|exact C]. unfold push_nev. rewrite Hs. exact B.
    - (* UDeleteNode *)
      destruct (find_anode name (w_nodes w)) as [a|] eqn:Ea; [|exact I]. cbn [fst] in *.
      pose proof (find_anode_name _ _ _ Ea) as Hnam. pose proof (find_anode_in _ _ _ Ea) as Hina.
      assert (Hhold : forall n c, holder (set_api w (del_anode name (w_nodes w)) (w_ccs w) (w_rv w) (push_nev w (NDel (node_view a))) (w_cfeed w)) n c -> holder w n c).
      { intros n c [(b & Hb & Hn & Hc)|(x & cn & Hx & Hn & Hc)].
        - cbn [set_api w_nodes] in Hb. destruct (in_del_anode _ _ _ Hb) as [Hb' _]. left. exists b. repeat split; assumption.
        - cbn [set_api w_nfeed] in Hx. unfold push_nev in Hx. destruct (w_synced w); [|right; exists x, cn; repeat split; assumption].
          apply in_app_or in Hx. destruct Hx as [Hx|[E|[]]]; [right; exists x, cn; repeat split; assumption|].
          inversion E; subst x. left. exists a. split; [exact Hina|]. split; [exact Hn|exists cn; exact Hc]. }
      pose proof I as I0. hsplit I; try assumption.
      + apply NoDup_del_anode. exact Hnm.
      + intros x Hx. destruct (in_del_anode _ _ _ Hx) as [Hx' _]. apply Hnd. exact Hx'.
      + intros e He. unfold push_nev in He. destruct (w_synced w); [|apply Hfd; exact He].
        apply in_app_or in He. destruct He as [He|[<-|[]]]; [apply Hfd; exact He|cbn; apply Hnd; exact Hina].
      + intros x Hx Hin. destruct (del_anode_names _ _ _ Hin) as [Hin' Hne].
        unfold push_nev in Hx. destruct (w_synced w); [|exact (Hde x Hx Hin')].
        apply in_app_or in Hx. destruct Hx as [Hx|[E|[]]]; [exact (Hde x Hx Hin')|]. inversion E; subst x. cbn in Hne. congruence.
      + unfold push_nev. destruct (w_synced w); [|exact Hdn]. rewrite dead_names_app. cbn. apply NoDup_app_snoc; [exact Hdn|].
        intros Hin. apply dead_names_in in Hin. destruct Hin as (x & Hx & Hn). apply (Hde x Hx). rewrite Hn. cbn. apply in_map. exact Hina.
      + intros n1 c1 n2 c2 H1 H2. apply Hdj; apply Hhold; assumption.
      + intros Hs nm c Hc. apply (Hpr Hs nm c). apply Hhold. exact Hc.
      + intros y Hy c Hc. apply Hhold in Hc. apply (Hcp y); [|exact Hc].
        destruct Hy as [Hy|[Hy|Hy]]; [left; exact Hy| |].
        * unfold push_nev in Hy. destruct (w_synced w); [|right; left; exact Hy].
          apply in_app_or in Hy. destruct Hy as [Hy|[E|[]]]; [right; left; exact Hy|discriminate E].
        * unfold push_nev in Hy. destruct (w_synced w); [|right; right; exact Hy].
          apply in_app_or in Hy. destruct Hy as [Hy|[E|[]]]; [right; right; exact Hy|discriminate E].
      + intros Hs. destruct (Hun Hs) as (A & B & C). split; [exact A|]. split; [|exact C]. unfold push_nev. rewrite Hs. exact B.
    - (* UCreateCC *)
      destruct (find_cc (o_name o) (w_ccs w)); [exact I|]. apply (hinv_same w); try reflexivity; assumption.
    - (* UDeleteCC *)
      destruct (find_cc name (w_ccs w)) as [c|]; [|exact I]. destruct (o_fins c); [apply (hinv_same w); try reflexivity; assumption|].
      destruct (o_deleting c); [exact I|apply (hinv_same w); try reflexivity; assumption].
    - (* USetCCFinalizers *)
      destruct (find_cc name (w_ccs w)) as [c|]; [|exact I].
      match goal with |- context [if ?b then _ else _] => destruct b end; apply (hinv_same w); try reflexivity; assumption.
    - (* DeliverNode *)
      destruct (w_nfeed w) as [|e rest] eqn:Ef; [exact I|].
      assert (Hsy : w_synced w = true).
      { destruct (w_synced w) eqn:E; [reflexivity|]. destruct (h_uns w I E) as (_ & B & _). rewrite Ef in B. discriminate B. }
      assert (Hwe : wf_node (nev_node e)) by (pose proof (wi_nfeed w (h_w w I)) as Hf; rewrite Ef in Hf; inversion Hf; assumption).
      assert (Hdel : n_deleting (nev_node e) = false) by (apply (h_feed_nd w I); rewrite Ef; left; reflexivity).
      assert (W0 : WInv (set_caches w (w_ncache w) (w_ccache w) rest (w_cfeed w))).
      { pose proof (h_w w I) as Ww. destruct Ww as [a1 b1 c1 d1 e1 f1 g1 h1 i1 j1]. constructor; cbn; try assumption. rewrite Ef in c1. inversion c1; assumption. }
      pose proof (handle_nevent_winv (set_caches w (w_ncache w) (w_ccache w) rest (w_cfeed w)) e W0 Hwe) as Wh.
      destruct e as [n|n|n]; [exact (deliver_put_hinv w (NAdd n) rest n (or_introl eq_refl) I Ef Hsy)|exact (deliver_put_hinv w (NUpd n) rest n (or_intror eq_refl) I Ef Hsy)|].
      unfold handle_nevent in *. cbn [nev_node] in *.
      (* delete *)
      {
        assert (Hdn' : NoDup (n_name n :: dead_names rest)) by (pose proof (h_dead_nodup w I) as H; rewrite Ef in H; exact H).
        assert (Hhold : forall nm c, holder (set_caches w (del_node (n_name n) (w_ncache w)) (w_ccache w) rest (w_cfeed w)) nm c -> holder w nm c /\ nm <> n_name n).
        { intros nm c [(b & Hb & Hn & Hc)|(x & cn & Hx & Hn & Hc)].
          - split; [left; exists b; repeat split; assumption|]. intros E. apply (h_dead w I n ltac:(rewrite Ef; left; reflexivity)).
            rewrite <- E, <- Hn. apply in_map. exact Hb.
          - split; [right; exists x, cn; split; [rewrite Ef; right; exact Hx|split; assumption]|].
            intros E. inversion Hdn'; subst. apply H1. apply dead_names_in. exists x. split; [exact Hx|congruence]. }
        assert (Hcopies : forall y, copy_of (set_caches w (del_node (n_name n) (w_ncache w)) (w_ccache w) rest (w_cfeed w)) y -> copy_of w y).
        { intros y [Hy|[Hy|Hy]]; [left; unfold del_node in Hy; apply filter_In in Hy; apply Hy|right; left; rewrite Ef; right; exact Hy|right; right; rewrite Ef; right; exact Hy]. }
        assert (Hcached : forall nm c, nm <> n_name n -> cached_c w nm c -> cached_c (set_caches w (del_node (n_name n) (w_ncache w)) (w_ccache w) rest (w_cfeed w)) nm c).
        { intros nm c Hne (y & Hy & Hn & Hc). exists y. split; [|split; assumption]. cbn. unfold del_node. apply filter_In. split; [exact Hy|].
          destruct (str_eqb (n_name y) (n_name n)) eqn:E; [apply str_eqb_eq in E; congruence|reflexivity]. }
        cbn [set_caches w_ctl w_svc] in *. destruct (w_ctl w) as [m|] eqn:Em.
        * pose proof (wi_ctl w (h_w w I) m Em) as M.
          destruct (release_cidr (svc_list (w_svc w)) m n) as [m' r] eqn:Er.
          assert (Hkeep : forall nm c, holder w nm c -> nm <> n_name n -> Held m nm c -> Held m' nm c).
          { intros nm c Hc Hne Hh. eapply (release_cidr_keeps _ m n m' r M (wi_svc w (h_w w I)) Hwe Er nm c Hh Hne).
            intros c0 canon Hc0. apply (h_disj w I (n_name n) c0 nm c); [|exact Hc|congruence].
            right. exists n, canon. split; [rewrite Ef; left; reflexivity|split; [reflexivity|exact Hc0]]. }
          assert (Hres : forall nm c w1, w_ctl w1 = Some m' -> holder w nm c -> nm <> n_name n -> reserved w nm c -> reserved w1 nm c).
          { intros nm c w1 E1 Hc Hne (m0 & E0 & Hh). rewrite Em in E0. inversion E0; subst m0. exists m'. split; [exact E1|apply Hkeep; assumption]. }
          destruct r; cbn [fst] in *.
          -- pose proof I as I0. hsplit I; try assumption.
             ++ intros e0 He0. apply Hfd. rewrite Ef. right. exact He0.
             ++ intros x Hx. unfold del_node in Hx. apply filter_In in Hx. apply Hca. apply Hx.
             ++ intros x Hx. apply Hde. rewrite Ef. right. exact Hx.
             ++ inversion Hdn'; assumption.
             ++ intros n1 c1 n2 c2 H1 H2. apply Hdj; [apply (Hhold n1 c1 H1)|apply (Hhold n2 c2 H2)].
             ++ intros Hs nm c Hc. destruct (Hhold nm c Hc) as [Hc' Hne]. destruct (Hpr Hs nm c Hc') as [H|H].
                ** left. eapply Hres; [reflexivity|exact Hc'|exact Hne|exact H].
                ** right. apply Hcached; assumption.
             ++ intros y Hy c Hc. destruct (Hhold _ c Hc) as [Hc' Hne]. destruct (Hcp y (Hcopies y Hy) c Hc') as [H|H]; [left; eapply Hres; [reflexivity|exact Hc'|exact Hne|exact H]|right; exact H].
             ++ intros Hs. rewrite Hsy in Hs. discriminate Hs.
             ++ intros E0. discriminate E0.
          -- pose proof I as I0. hsplit I; try assumption.
             ++ intros e0 He0. apply Hfd. rewrite Ef. right. exact He0.
             ++ intros x Hx. unfold del_node in Hx. apply filter_In in Hx. apply Hca. apply Hx.
             ++ intros x Hx. apply Hde. rewrite Ef. right. exact Hx.
             ++ inversion Hdn'; assumption.
             ++ intros n1 c1 n2 c2 H1 H2. apply Hdj; [apply (Hhold n1 c1 H1)|apply (Hhold n2 c2 H2)].
             ++ intros Hs nm c Hc. destruct (Hhold nm c Hc) as [Hc' Hne]. destruct (Hpr Hs nm c Hc') as [H|H].
                ** left. eapply Hres; [reflexivity|exact Hc'|exact Hne|exact H].
                ** right. apply Hcached; assumption.
             ++ intros y Hy c Hc. destruct (Hhold _ c Hc) as [Hc' Hne]. destruct (Hcp y (Hcopies y Hy) c Hc') as [H|H]; [left; eapply Hres; [reflexivity|exact Hc'|exact Hne|exact H]|right; exact H].
             ++ intros Hs. rewrite Hsy in Hs. discriminate Hs.
             ++ intros E0. discriminate E0.
          -- apply (crashed_hinv_of w); [exact I| |reflexivity].
             pose proof (h_w w I) as Ww. destruct Ww as [a1 b1 c1 d1 e1 f1 g1 h1 i1 j1]. constructor; cbn; try assumption.
             ++ rewrite Ef in c1. inversion c1; assumption.
             ++ apply Forall_del_node. exact e1.
        * exfalso. pose proof (h_down w I Em) as Hd. rewrite Hsy in Hd. discriminate Hd.
      }
    - (* DeliverCC *)
      destruct (w_cfeed w) as [|e rest]; [exact I|].
      match goal with |- HInv (fst (handle_cevent ?w0 e)) => destruct (handle_cevent_same w0 e) as (A & B & C & D & E) end.
      apply (hinv_same w); try assumption. unfold handle_cevent. destruct e; cbn; destruct (w_ctl w); reflexivity.
    - (* ResyncNodes *) destruct (w_ctl w); [|exact I]. apply (hinv_same w); try reflexivity; assumption.
    - (* ResyncCCs *) destruct (w_ctl w); [|exact I]. apply (hinv_same w); try reflexivity; assumption.
    - (* RelistCCs *)
      destruct (w_synced w) eqn:Es; [|exact I]. cbn [fst] in *.
      match goal with |- HInv (deliver_all_c ?w0 ?es) => destruct (deliver_all_c_same es w0) as (A & B & C & D & E); pose proof (deliver_all_c_synced es w0) as F end.
      apply (hinv_same w); try assumption.
    - (* FetchNode *)
      cbn [fst] in *. pose proof I as I0. hsplit I; try assumption.
      + intros wk k n [E|Hin].
        * inversion E; subst. match goal with H : find_node _ _ = Some n |- _ => apply find_node_in in H; exact (Hca n H) end.
        * apply filter_In in Hin. destruct Hin as [Hin _]. eapply Hft. exact Hin.
      + intros Hs. destruct (Hun Hs) as (A & B & C). split; [exact A|]. split; [exact B|].
        intros wk k o [E|Hin]; [inversion E; subst; rewrite A; reflexivity|]. apply filter_In in Hin. destruct Hin as [Hin _]. eapply C. exact Hin.
    - (* RunNode *)
      destruct (find (fun x => fst x =? w0) (w_nfetch w)) as [[wk [key cached]]|] eqn:Ef; [|exact I].
      apply find_some in Ef. destruct Ef as [Hin _].
      apply run_node_sync_hinv.
      + pose proof I as I0. hsplit I; try assumption.
        * pose proof (h_w w I0) as Ww. destruct Ww as [a1 b1 c1 d1 e1 f1 g1 h1 i1 j1]. constructor; cbn; try assumption.
          intros wk' k n Hi. apply filter_In in Hi. destruct Hi as [Hi _]. eapply g1. exact Hi.
        * intros wk' k n Hi. apply filter_In in Hi. destruct Hi as [Hi _]. eapply Hft. exact Hi.
        * intros Hs. destruct (Hun Hs) as (A & B & C). split; [exact A|]. split; [exact B|].
          intros wk' k o Hi. apply filter_In in Hi. destruct Hi as [Hi _]. eapply C. exact Hi.
      + intros n E. subst cached. split; [eapply (wi_nfetch w (h_w w I)); exact Hin|eapply (h_fetch w I); exact Hin].
      + cbn [set_fetch w_synced]. intros Hs. destruct (h_uns w I Hs) as (_ & _ & C). eapply C. exact Hin.
    - (* FetchCC *) apply (hinv_same w); try reflexivity; assumption.
    - (* RunCC *)
      destruct (find (fun x => fst x =? w0) (w_cfetch w)) as [[wk [key cached]]|] eqn:Ef; [|exact I].
      apply find_some in Ef. destruct Ef as [Hin _].
      apply run_cc_sync_hinv.
      + apply (hinv_same w); try reflexivity; [exact I|].
        pose proof (h_w w I) as Ww. destruct Ww as [a1 b1 c1 d1 e1 f1 g1 h1 i1 j1]. constructor; cbn; try assumption.
        intros wk' k n Hi. apply filter_In in Hi. destruct Hi as [Hi _]. eapply h1. exact Hi.
      + intros n E. subst cached. eapply (wi_cfetch w (h_w w I)). exact Hin.
    - (* ProcNode *)
      destruct (w_ctl w) as [m|] eqn:Em; [|exact I]. destruct (q_ready (w_nq w)) as [|key rest]; [exact I|].
      match goal with |- context [run_node_sync po lab ?w1 ?c ?k ?o] =>
        assert (I2 : HInv (fst (run_node_sync po lab w1 c k o)));
          [|destruct (run_node_sync po lab w1 c k o) as [w2 ob2]] end.
      { apply run_node_sync_hinv.
        - apply (hinv_same w); try reflexivity; [exact I|apply set_queues_winv; exact (h_w w I)].
        - cbn [set_queues w_ncache]. intros n E. apply find_node_in in E. split; [|exact (h_cache_nd w I n E)].
          pose proof (wi_ncache w (h_w w I)) as F. rewrite Forall_forall in F. apply F. exact E.
        - cbn [set_queues w_synced w_ncache]. intros Hs. destruct (h_uns w I Hs) as (A & _). rewrite A. reflexivity. }
      cbn [fst] in I2. destruct (ob_res ob2 =? 2); cbn [fst]; [|exact I2].
      apply (hinv_same w2); try reflexivity; [exact I2|apply set_queues_winv; exact (h_w w2 I2)].
    - (* ProcCC *)
      destruct (w_ctl w) as [m|] eqn:Em; [|exact I]. destruct (q_ready (w_cq w)) as [|key rest]; [exact I|].
      match goal with |- context [run_cc_sync ?w1 ?k ?c ?o] =>
        assert (I2 : HInv (fst (run_cc_sync w1 k c o)));
          [|destruct (run_cc_sync w1 k c o) as [w2 ob2]] end.
      { apply run_cc_sync_hinv.
        - apply (hinv_same w); try reflexivity; [exact I|apply set_queues_winv; exact (h_w w I)].
        - cbn [set_queues w_ccache]. intros n E. eapply cached_cc_good; [exact (h_w w I)|exact E]. }
      cbn [fst] in I2. destruct (ob_res ob2 =? 2); cbn [fst]; [|exact I2].
      apply (hinv_same w2); try reflexivity; [exact I2|apply set_queues_winv; exact (h_w w2 I2)].
    - (* Tick *) apply (hinv_same w); try reflexivity; assumption.
    - (* Crash *) apply crashed_hinv. exact I.
    - (* Construct: a new incarnation is built from the API objects *)
      destruct (w_ctl w) as [m0|] eqn:Em; [exact I|].
      destruct (construct po lab (with_default dp (w_ccs w)) outs svc1 svc2 (map node_view (w_nodes w))) as [[m fx] pan] eqn:Ec. cbn [fst] in *.
      destruct Hq as (H1 & H2 & Hdp).
      assert (Hgood : Forall good_obj (with_default dp (w_ccs w))) by (apply with_default_good; [exact Hdp|exact (wi_ccs w (h_w w I))]).
      assert (Hnp : forall nm cs o, ~ In (FxPatch nm cs o) fx).
      { intros nm cs o Hin. unfold construct in Ec. destruct (bootstrap_ccs [] (with_default dp (w_ccs w)) outs) as [m1 fx1] eqn:Eb.
        match type of Ec with context [occupy_nodes po lab ?m3 ?ns] => destruct (occupy_nodes po lab m3 ns) as [m4 p4] end.
        inversion Ec; subst. pose proof (bootstrap_no_patch _ _ _ _ _ Eb _ Hin) as Hp. discriminate Hp. }
      assert (IB : forall w1, HInv w1 -> HInv (apply_effects w1 fx)).
      { intros w1 I1. apply (apply_effects_hinv fx w1 [] [] I1); [constructor|eapply construct_fx_good; eassumption| | |].
        - intros nm' cs' o' Hin'. destruct (Hnp _ _ _ Hin').
        - intros n2 d _ _ x [].
        - intros _ x []. }
      apply IB.
      assert (M : forall m1, (if pan then None else Some m) = Some m1 -> MapInv m1).
      { intros m1 E. destruct pan; [discriminate|]. inversion E; subst.
        eapply construct_inv; [exact Hgood| |exact H1|exact H2|exact Ec].
        rewrite Forall_forall. intros n Hin. apply in_map_iff in Hin. destruct Hin as (a & <- & Ha). apply wf_node_view. eapply in_anodes_wf; [exact (h_w w I)|exact Ha]. }
      pose proof I as I0. hsplit I; try assumption.
      + pose proof (h_w w I0) as Ww. destruct Ww as [a1 b1 c1 d1 e1 f1 g1 h1 i1 j1].
        constructor; cbn; [assumption|assumption|constructor|constructor|constructor|constructor|intros; contradiction|intros; contradiction|exact M|apply svc_list_wf; assumption].
      + intros e [].
      + intros n [].
      + intros wk key n [].
      + intros x [].
      + apply NoDup_nil.
      + intros n1 c1 n2 c2 Hh1 Hh2. apply Hdj.
        * destruct Hh1 as [Hh1|(x & cn & [] & _)]. left. exact Hh1.
        * destruct Hh2 as [Hh2|(x & cn & [] & _)]. left. exact Hh2.
      + discriminate.
      + intros y [[]|[[]|[]]].
      + intros _. split; [reflexivity|]. split; [reflexivity|intros wk key o []].
      + reflexivity.
    - (* StartInformers: the caches are filled from the API; notifications still on their way are dropped *)
      destruct (w_ctl w) as [m|] eqn:Em; [|exact I]. destruct (w_synced w) eqn:Es; [exact I|]. cbn [fst] in *.
      destruct (h_uns w I Es) as (Hc0 & Hf0 & Hft0).
      set (wn := mkWorld (w_nodes w) (w_ccs w) (w_rv w) [] [] (map node_view (w_nodes w)) (w_ccs w)
                 (fold_left (fun q n => q_add (n_name n) q) (map node_view (w_nodes w)) (w_nq w))
                 (fold_left (fun q o => q_add (o_name o) q) (w_ccs w) (w_cq w)) (Some m) true (w_nfetch w) (w_cfetch w) (w_svc w) (w_delseen w)) in *.
      assert (Hhold : forall nm c, holder wn nm c -> exists a, In a (w_nodes w) /\ an_name a = nm /\ node_cidr a c).
      { intros nm c [H|(x & cn & [] & _)]. exact H. }
      pose proof I as I0. unfold wn in *. clear wn. hsplit I; try assumption.
      + intros e [].
      + intros n Hn. apply in_map_iff in Hn. destruct Hn as (a & <- & Ha). cbn. apply Hnd. exact Ha.
      + intros x [].
      + apply NoDup_nil.
      + intros n1 c1 n2 c2 H1 H2. apply Hdj; left; [exact (Hhold _ _ H1)|exact (Hhold _ _ H2)].
      + intros _ nm c Hc. right. destruct (Hhold _ _ Hc) as (a & Ha & Hn & Hca0).
        exists (node_view a). split; [apply in_map; exact Ha|]. split; [exact Hn|exact Hca0].
      + intros y [Hy|[[]|[]]] c Hc. right. apply in_map_iff in Hy. destruct Hy as (a & <- & Ha).
        destruct (Hhold _ _ Hc) as (b & Hb & Hn & Hcb). cbn in Hn.
        assert (b = a) by (apply (api_node_unique w b a Hnm Hb Ha); exact Hn). subst b. exact Hcb.
      + discriminate.
      + intros E0. discriminate E0.
  Qed.

  Lemma step_names3 w o : tame3_op o -> names_ok w (fst (step po lab w o)) (created o).
  Proof.
    intros Hq. destruct o; try (apply (step_names po lab w _); exact Hq); cbn [tame3_op] in Hq; try contradiction.
    (* Construct *)
    cbn [step created]. destruct (w_ctl w); [apply names_ok_refl|].
      destruct (construct po lab (with_default dp (w_ccs w)) outs svc1 svc2 (map node_view (w_nodes w))) as [[m fx] pan]. cbn [fst].
    match goal with |- names_ok w (apply_effects ?X fx) [] => destruct (apply_effects_names fx X) as [A B] end.
    split; intros nm H; [rewrite A in H; left; exact H|rewrite B in H; destruct H].
  Qed.

  Theorem run_hinv ops : forall w, HInv w -> Forall tame3_op ops -> NoDup (flat_map created ops) -> Fresh (flat_map created ops) w ->
    HInv (run po lab w ops).
  Proof.
    induction ops as [|o ops IH]; intros w I H Hnd Hf; [exact I|]. inversion H; subst.
    unfold run. cbn [fold_left]. cbn [flat_map] in Hnd, Hf. apply IH.
    - apply step_hinv; [exact I|exact H2|]. intros nm Hin. apply (Hf nm). apply in_or_app. left. exact Hin.
    - exact H3.
    - apply NoDup_app_r in Hnd. exact Hnd.
    - intros nm Hin. destruct (step_names3 w o H2) as [A B]. split.
      + intros Hx. destruct (A nm Hx) as [Hx'|Hx']; [apply (proj1 (Hf nm (in_or_app _ _ _ (or_intror Hin)))); exact Hx'|].
        clear - Hnd Hin Hx'. induction (created o) as [|c l IHl]; [destruct Hx'|]. cbn in Hnd. inversion Hnd; subst.
        destruct Hx' as [->|Hx']; [apply H1; apply in_or_app; right; exact Hin|exact (IHl H2 Hx')].
      + intros Hx. destruct (B nm Hx) as [Hx'|Hx'].
        * apply (proj2 (Hf nm (in_or_app _ _ _ (or_intror Hin)))); exact Hx'.
        * apply (proj1 (Hf nm (in_or_app _ _ _ (or_intror Hin)))); exact Hx'.
  Qed.

  (* C01 / C03 over whole histories, any number of incarnations *)
  Theorem no_overlap_across_restarts ops :
    Forall tame3_op ops -> NoDup (flat_map created ops) ->
    let w := run po lab init_world ops in
    forall n1 c1 n2 c2, holder w n1 c1 -> holder w n2 c2 -> n1 <> n2 -> overlapb c1 c2 = false.
  Proof.
    intros Hops Hnd w. apply h_disj. subst w. apply run_hinv; [apply hinv_init|exact Hops|exact Hnd|intros nm _; split; intros []].
  Qed.

  (* ---------- the general form: validity of each operation is judged in the state it is applied to ----------
     Nodes may also be created WITH pod CIDRs while no informer is watching (controller down, or up but informers not yet
     started), provided those CIDRs overlap nothing another holder holds; a name may be used again once the deletion of
     its previous bearer has been processed. *)
  Definition op_ok (w : world) (o : op) : Prop :=
    match o with
    | UMarkNodeDeleting _ | DeliverNodeTombstone | RelistNodes => False
    | UCreateNode name _ cs =>
        ~ In name (dead_names (w_nfeed w)) /\ Forall wf_pcidr cs /\
        (cs = [] \/ (w_synced w = false /\ forall c cn, In (PGood c cn) cs -> forall n2 d, holder w n2 d -> n2 <> name -> overlapb c d = false))
    | UCreateCC obj => good_obj obj
    | Construct s1 s2 _ dp => (forall s, s1 = Some s -> wf_cidr s) /\ (forall s, s2 = Some s -> wf_cidr s) /\ wf_dp dp
    | _ => True
    end.

  Fixpoint valid (w : world) (ops : list op) : Prop :=
    match ops with
    | [] => True
    | o :: r => op_ok w o /\ valid (fst (step po lab w o)) r
    end.

  Lemma create_preset_hinv w name ls cs :
    HInv w -> Forall wf_pcidr cs -> w_synced w = false ->
    (forall c cn, In (PGood c cn) cs -> forall n2 d, holder w n2 d -> n2 <> name -> overlapb c d = false) ->
    HInv (fst (step po lab w (UCreateNode name ls cs))).
  Proof.
    intros I Hwf Hs Hav. pose proof (step_winv po lab w (UCreateNode name ls cs) (h_w w I) Hwf) as W'.
    cbn [step] in *. destruct (find_anode name (w_nodes w)) eqn:Ef; [exact I|]. cbn [fst] in *.
    destruct (h_uns w I Hs) as (Hc0 & Hf0 & Hft0).
    set (a' := mkANode name ls cs false) in *.
    assert (Hpush : push_nev w (NAdd (node_view a')) = []) by (unfold push_nev; rewrite Hs; exact Hf0).
    rewrite Hpush in *.
    assert (Hhold : forall n c, holder (set_api w (w_nodes w ++ [a']) (w_ccs w) (w_rv w) [] (w_cfeed w)) n c ->
              (n = name /\ exists cn, In (PGood c cn) cs) \/ (holder w n c /\ n <> name)).
    { intros n c [(b & Hb & Hn & Hc)|(x & cn & [] & _)].
      cbn [set_api w_nodes] in Hb. apply in_app_or in Hb. destruct Hb as [Hb|[<-|[]]].
      - right. split; [left; exists b; repeat split; assumption|]. intros E. apply (find_anode_none _ _ Ef). rewrite <- E, <- Hn. apply in_map. exact Hb.
      - left. split; [symmetry; exact Hn|exact Hc]. }
    pose proof I as I0. hsplit I; try assumption.
    - rewrite map_app. cbn. apply NoDup_app_snoc; [exact Hnm|apply find_anode_none; exact Ef].
    - intros x Hx. apply in_app_or in Hx. destruct Hx as [Hx|[<-|[]]]; [apply Hnd; exact Hx|reflexivity].
    - intros e [].
    - intros x [].
    - apply NoDup_nil.
    - intros n1 c1 n2 c2 H1 H2 Hne. destruct (Hhold _ _ H1) as [[-> (cn1 & Hc1)]|[H1' Hn1]]; destruct (Hhold _ _ H2) as [[-> (cn2 & Hc2)]|[H2' Hn2]].
      + contradiction.
      + exact (Hav c1 cn1 Hc1 n2 c2 H2' Hn2).
      + rewrite overlapb_sym. exact (Hav c2 cn2 Hc2 n1 c1 H1' Hn1).
      + exact (Hdj n1 c1 n2 c2 H1' H2' Hne).
    - intros E. rewrite Hs in E. discriminate E.
    - intros y Hy. exfalso. unfold copy_of in Hy. cbn [set_api w_ncache w_nfeed] in Hy. rewrite Hc0 in Hy. destruct Hy as [[]|[[]|[]]].
    - intros _. split; [exact Hc0|]. split; [reflexivity|exact Hft0].
  Qed.

  Lemma op_ok_step w o : HInv w -> op_ok w o -> HInv (fst (step po lab w o)).
  Proof.
    intros I Hok. destruct o; try (apply step_hinv; [exact I|exact Hok|intros nm []]); cbn [op_ok] in Hok; try contradiction.
    - (* UCreateNode *)
      destruct Hok as (Hfr & Hwf & [->|[Hs Hav]]).
      + apply step_hinv; [exact I|reflexivity|]. intros nm [<-|[]]. exact Hfr.
      + apply create_preset_hinv; assumption.
  Qed.

  Theorem valid_hinv ops : forall w, HInv w -> valid w ops -> HInv (run po lab w ops).
  Proof.
    induction ops as [|o ops IH]; intros w I H; [exact I|]. destruct H as [H1 H2].
    unfold run. cbn [fold_left]. apply IH; [apply op_ok_step; assumption|exact H2].
  Qed.

  (* C01 / C03 in their general form *)
  Theorem no_overlap_in_valid_histories ops :
    valid init_world ops ->
    let w := run po lab init_world ops in
    forall n1 c1 n2 c2, holder w n1 c1 -> holder w n2 c2 -> n1 <> n2 -> overlapb c1 c2 = false.
  Proof. intros H w. apply h_disj. subst w. apply valid_hinv; [apply hinv_init|exact H]. Qed.
End Hist3.
