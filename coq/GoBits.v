(* GoBits.v -- the bit-level Go code of multi_cidr_set.go transliterated, with the
   fixed-width wrap-around of uint32/uint64 written out.  Definitions only. *)
From NIPAM Require Export Net.
Open Scope N_scope.

(* ---- fixed-width arithmetic as Go does it ---- *)
Definition u32 (x : N) : N := x mod 2 ^ 32.
Definition u64 (x : N) : N := x mod 2 ^ 64.

(* uint32(a - b) for Go ints a, b >= 0 (wraps when b > a) *)
Definition sub_u32 (a b : N) : N := if b <=? a then u32 (a - b) else u32 (2 ^ 32 - (b - a) mod 2 ^ 32).
(* uint(a - b): 64-bit *)
Definition sub_u64 (a b : N) : N := if b <=? a then u64 (a - b) else u64 (2 ^ 64 - (b - a) mod 2 ^ 64).

(* x << s on uint32 / uint64: a shift count >= the width gives 0 *)
Definition shl32 (x s : N) : N := if s <? 32 then u32 (N.shiftl x s) else 0.
Definition shr32 (x s : N) : N := if s <? 32 then N.shiftr x s else 0.
Definition shl64 (x s : N) : N := if s <? 64 then u64 (N.shiftl x s) else 0.
Definition shr64 (x s : N) : N := if s <? 64 then N.shiftr x s else 0.

(* 64 - bits.LeadingZeros64(x) : number of significant bits *)
Definition bitlen (x : N) : N := match x with N0 => 0 | Npos p => N.succ (N.log2 (Npos p)) end.

(* 1 << uint32(n - c) on a 64-bit Go int (getMaxCIDRs, multi_cidr_set.go:356) *)
Definition go_max_cidrs (n c : N) : N := shl64 1 (sub_u32 n c).

(* ---- geometry of one pool: range gbase/gclen cut into /gnlen blocks ---- *)
Record geom := mkGeom { gf : fam; gbase : N; gclen : N; gnlen : N }.

Definition gW (g : geom) : N := width (gf g).
Definition gmax (g : geom) : N := go_max_cidrs (gnlen g) (gclen g).

(* indexToCIDRBlock, multi_cidr_set.go:150-193.  The error branch ("invalid IP") is
   unreachable for a 4- or 16-byte address, i.e. for every geom. *)
Definition go_index_to_block (g : geom) (index : N) : cidr :=
  match gf g with
  | V4 =>
      let j := shl32 (u32 index) (sub_u32 32 (gnlen g)) in
      mkCidr V4 (N.lor (gbase g) j) (gnlen g)
  | V6 =>
      let left := gbase g / 2 ^ 64 in
      let right := gbase g mod 2 ^ 64 in
      let i64 := u64 index in
      if gnlen g <=? 64 then
        let left' := N.lor left (shl64 i64 (sub_u64 64 (gnlen g))) in
        mkCidr V6 (left' * 2 ^ 64 + right) (gnlen g)
      else
        let left' :=
          if gclen g <? 64 then
            let btl := sub_u64 (gnlen g) 64 in
            if btl <? bitlen i64 then N.lor left (shr64 i64 btl) else left
          else left in
        let right' := N.lor right (shl64 i64 (sub_u64 128 (gnlen g))) in
        mkCidr V6 (left' * 2 ^ 64 + right') (gnlen g)
  end.

(* a 16-byte address of the form ::ffff:a.b.c.d -- net.IP.To4() is non-nil for it *)
Definition v4mapped (a : N) : bool := a / 2 ^ 32 =? 0xffff.

(* getIndexForIP, multi_cidr_set.go:327-347, for an address of the pool's own family.
   The Go code picks the branch by ip.To4() != nil, NOT by the pool's family: an IPv4-mapped
   IPv6 address handed to an IPv6 pool runs through the uint32 branch, which reads the first
   four bytes of the 16-byte range base and the last four bytes of the address.
   IPv4: all in uint32.  IPv6: unbounded XOR and shift; the range test is made on the unbounded
   value (IsUint64 && Uint64() < MaxCIDRs) since the repair of finding D13 -- the pinned tree
   truncated to 64 bits first. *)
Definition go_get_index (g : geom) (a : N) : option N :=
  match gf g with
  | V4 =>
      let idx := shr32 (N.lxor (u32 (gbase g)) (u32 a)) (sub_u32 32 (gnlen g)) in
      if u32 (gmax g) <=? idx then None else Some idx
  | V6 =>
      if v4mapped a then
        let idx := shr32 (N.lxor (u32 (gbase g / 2 ^ 96)) (u32 a)) (sub_u32 32 (gnlen g)) in
        if u32 (gmax g) <=? idx then None else Some idx
      else
        let big := N.shiftr (N.lxor (gbase g) a) (sub_u64 128 (gnlen g)) in
        if (2 ^ 64 <=? big) || (u64 (gmax g) <=? u64 big) then None else Some (u64 big)
  end.

(* last address of a CIDR: ip | ^mask  (multi_cidr_set.go:252-262) *)
Definition last_addr (c : cidr) : N := N.lor (ca c) (hostsz (cf c) (cl c) - 1).

(* getBeginningAndEndIndices, multi_cidr_set.go:228-269.  A CIDR of the other family fails
   the containment test both ways (IP.Mask of mismatching lengths yields nil). *)
Definition grange (g : geom) : cidr := mkCidr (gf g) (gbase g) (gclen g).

Definition go_begin_end (g : geom) (c : cidr) : option (N * N) :=
  if negb (overlapb (grange g) c) then None
  else if gclen g <? cl c then
    match go_get_index g (mask_addr (gf g) (gnlen g) (ca c)) with
    | None => None
    | Some b =>
        match go_get_index g (mask_addr (gf g) (gnlen g) (last_addr c)) with
        | None => None
        | Some e => Some (b, e)
        end
    end
  else Some (0, gmax g - 1).
