(* Conv_proofs.v -- C11, progress steps of the closed loop: one fault-free run of the queued work item serves a servable
   node (its API object has pod CIDRs afterwards); one fault-free run of the work item of a ClusterCIDR whose deletion was
   requested and on which no node depends removes the entry and the object. *)
From NIPAM Require Import Sys Geom_proofs Pool_proofs Prio_proofs Alloc_proofs Inv_proofs Sys_proofs Complete_proofs Resv_proofs Path_proofs Hist_proofs Progress_proofs.
From Coq Require Import Lia.
Open Scope N_scope.

(* ---------- the same for the closed loop: one fault-free run of the queued item serves a servable node ---------- *)
Lemma find_anode_upd a' l a : find_anode (an_name a') l = Some a -> find_anode (an_name a') (upd_anode a' l) = Some a'.
Proof.
  induction l as [|x l IH]; cbn; [discriminate|]. destruct (str_eqb (an_name x) (an_name a')) eqn:E; cbn.
  - intros _. rewrite str_eqb_refl. reflexivity.
  - rewrite E. exact IH.
Qed.

Section WorldProgress.
  Variable po : parse_oracle.
  Variable lab : label_oracle.

  Theorem proc_node_serves w m key rest outs node a ps :
    w_ctl w = Some m -> MapInv m -> KU m ->
    q_ready (w_nq w) = key :: rest ->
    find_node key (w_ncache w) = Some node -> n_cidrs node = [] -> n_deleting node = false ->
    find_anode key (w_nodes w) = Some a -> an_cidrs a = [] ->
    ordered_matching po lab m (n_labels node) true = Ok ps ->
    (exists p c, In p ps /\ get_entry m p = Some c /\ ~ no_room m (held_cidrs (w_ncache w)) c) ->
    let w' := fst (step po lab w (ProcNode (POk :: outs))) in
    exists a' cs, cs <> [] /\ find_anode key (w_nodes w') = Some a' /\ an_cidrs a' = map (fun c => PGood c true) cs /\
                  ob_res (snd (step po lab w (ProcNode (POk :: outs)))) = 1.
  Proof.
    intros Em M HK Hq Hn Hc Hd Ha Hac Ho Hroom. cbn [step]. rewrite Em, Hq.
    unfold run_node_sync. cbn [set_queues w_ctl w_ncache w_svc]. rewrite Em, Hn.
    assert (Hname : n_name node = key) by (eapply find_node_name; exact Hn).
    assert (Hcanp : forall cs, can_patch (set_queues w (mkQ rest (q_retry (w_nq w))) (w_cq w)) key cs = true).
    { intros cs. unfold can_patch. cbn [set_queues w_nodes]. rewrite Ha, Hac. reflexivity. }
    destruct (servable_node_is_served po lab (svc_list (w_svc w)) _ (api_same (set_queues w (mkQ rest (q_retry (w_nq w))) (w_cq w)) key)
                (held_cidrs (w_ncache w)) m node node outs ps M HK Hc Hd Hc Hcanp Ho Hroom) as (m' & cs & Hne & Hs).
    rewrite Hs. cbn [apply_effects after_call ob_res res_code N.eqb fst snd]. cbn [Pos.eqb].
    exists (mkANode (an_name a) (an_labels a) (map (fun c => PGood c true) cs) (an_deleting a)), cs.
    split; [exact Hne|].
    assert (Han : an_name a = key) by (eapply find_anode_name; exact Ha).
    unfold apply_patch. rewrite Hname. cbn [set_ctl set_queues w_nodes]. rewrite Ha, Hac. cbn [fst snd set_api w_nodes ob_res].
    split; [|split; [reflexivity|reflexivity]].
    rewrite <- Han at 1. change (an_name a) with (an_name (mkANode (an_name a) (an_labels a) (map (fun c => PGood c true) cs) (an_deleting a))) at 1.
    eapply find_anode_upd. cbn. rewrite Han. exact Ha.
  Qed.

  Lemma find_cc_del_cc name l : find_cc name (del_cc name l) = None.
  Proof.
    unfold del_cc. induction l as [|x l IH]; cbn; [reflexivity|]. destruct (str_eqb (o_name x) name) eqn:E; cbn; [exact IH|rewrite E; exact IH].
  Qed.

  (* the deletion half: the work item of a ClusterCIDR whose deletion was requested, that carries only the controller's
     finalizer and on whose entry no node depends, removes the object from the API when its write succeeds *)
  Theorem proc_cc_releases w m key rest o cur k l i c :
    w_ctl w = Some m -> q_ready (w_cq w) = key :: rest ->
    find_cc key (w_ccache w) = Some o -> o_deleting o = true -> o_fins o = [finalizer] ->
    find_cc (o_name o) (w_ccs w) = Some cur -> o_rv cur = o_rv o -> o_deleting cur = true ->
    o_selkey o = Some k -> find_key k m = Some l -> find_name (o_name o) l 0 = Some (i, c) -> cc_assoc c = [] ->
    let w' := fst (step po lab w (ProcCC UOk)) in
    find_cc (o_name o) (w_ccs w') = None /\ ob_res (snd (step po lab w (ProcCC UOk))) = 1 /\
    exists m', w_ctl w' = Some m' /\ delete_cluster_cidr m o = (m', Ok tt).
  Proof.
    intros Em Hq Hc Hd Hf Hcur Hrv Hdc Hk Hfk Hfn Ha. cbn [step]. rewrite Em, Hq.
    unfold run_cc_sync. cbn [set_queues w_ctl w_ccache w_ccs]. rewrite Em, Hc, Hcur, Hrv, N.eqb_refl.
    unfold sync_cc. rewrite Hd. unfold reconcile_delete.
    assert (Hdel : exists m1, delete_cluster_cidr m o = (m1, Ok tt)).
    { unfold delete_cluster_cidr. rewrite Hk, Hfk, Hfn, Ha. destruct l as [|c0 [|c1 lt]]; eexists; reflexivity. }
    destruct Hdel as (m1 & Hdel). rewrite Hdel, Hf.
    assert (Hh : has_str finalizer [finalizer] = true) by (vm_compute; reflexivity).
    assert (Hr : remove_str finalizer [finalizer] = []) by (vm_compute; reflexivity).
    rewrite Hh, Hr. cbn [after_call res_code fst snd ob_res]. change (1 =? 2) with false. cbn [andb].
    assert (Hae : forall w0, w_ccs w0 = w_ccs w -> w_ctl w0 = Some m1 ->
              find_cc (o_name o) (w_ccs (apply_effects w0 [FxUpdateCC (with_fins o []) UOk])) = None /\
              w_ctl (apply_effects w0 [FxUpdateCC (with_fins o []) UOk]) = Some m1).
    { intros w0 E1 E2. cbn [apply_effects]. unfold apply_update_cc. cbn [with_fins o_name o_rv o_fins]. rewrite E1, Hcur, Hrv, N.eqb_refl. cbn [negb].
      cbn [with_rv o_deleting o_fins]. rewrite Hdc. cbn [andb]. cbn [set_api w_ccs w_ctl].
      assert (En : o_name cur = o_name o) by (clear - Hcur; induction (w_ccs w) as [|x t IH]; cbn in Hcur; [discriminate|]; destruct (str_eqb (o_name x) (o_name o)) eqn:E; [inversion Hcur; subst; apply str_eqb_eq; exact E|exact (IH Hcur)]).
      rewrite En. split; [apply find_cc_del_cc|exact E2]. }
    match goal with |- context [if negb ?b then _ else _] => destruct (negb b) end.
    - destruct (Hae (set_delseen (set_ctl (set_queues w (w_nq w) (mkQ rest (q_retry (w_cq w)))) (Some m1)) (o_name o :: w_delseen (set_ctl (set_queues w (w_nq w) (mkQ rest (q_retry (w_cq w)))) (Some m1)))) eq_refl eq_refl) as [A B].
      cbn [N.eqb Pos.eqb fst snd]. split; [exact A|]. split; [reflexivity|]. exists m1. split; [exact B|reflexivity].
    - destruct (Hae (set_ctl (set_queues w (w_nq w) (mkQ rest (q_retry (w_cq w)))) (Some m1)) eq_refl eq_refl) as [A B].
      cbn [N.eqb Pos.eqb fst snd]. split; [exact A|]. split; [reflexivity|]. exists m1. split; [exact B|reflexivity].
  Qed.
End WorldProgress.
