(* Conv_proofs.v -- C11, progress steps of the closed loop: one fault-free run of the queued work item serves a servable
   node (its API object has pod CIDRs afterwards); one fault-free run of the work item of a ClusterCIDR whose deletion was
   requested and on which no node depends removes the entry and the object. *)
From NIPAM Require Import Sys Geom_proofs Pool_proofs Prio_proofs Alloc_proofs Inv_proofs Sys_proofs World_proofs Complete_proofs Resv_proofs Path_proofs NoPanic_proofs Hist_proofs Hist2_proofs Hist3_proofs Hist4_proofs Store_proofs Progress_proofs.
From Coq Require Import Lia.
Open Scope N_scope.

(* ---------- the same for the closed loop: one fault-free run of the queued item serves a servable node ---------- *)
Lemma find_anode_upd a' l a : find_anode (an_name a') l = Some a -> find_anode (an_name a') (upd_anode a' l) = Some a'.
Proof.
  induction l as [|x l IH]; cbn; [discriminate|]. destruct (str_eqb (an_name x) (an_name a')) eqn:E; cbn.
  - intros _. rewrite str_eqb_refl. reflexivity.
  - rewrite E. exact IH.
Qed.

Section WorldProgress.
  Variable po : parse_oracle.
  Variable lab : label_oracle.

  Theorem proc_node_serves w m key rest outs node a ps :
    w_ctl w = Some m -> MapInv m -> KU m ->
    q_ready (w_nq w) = key :: rest ->
    find_node key (w_ncache w) = Some node -> n_cidrs node = [] -> n_deleting node = false ->
    find_anode key (w_nodes w) = Some a -> an_cidrs a = [] ->
    ordered_matching po lab m (n_labels node) true = Ok ps ->
    (exists p c, In p ps /\ get_entry m p = Some c /\ ~ no_room m (held_cidrs (w_ncache w)) c) ->
    let w' := fst (step po lab w (ProcNode (POk :: outs))) in
    exists a' cs, cs <> [] /\ find_anode key (w_nodes w') = Some a' /\ an_cidrs a' = map (fun c => PGood c true) cs /\
                  ob_res (snd (step po lab w (ProcNode (POk :: outs)))) = 1.
  Proof.
    intros Em M HK Hq Hn Hc Hd Ha Hac Ho Hroom. cbn [step]. rewrite Em, Hq.
    unfold run_node_sync. cbn [set_queues w_ctl w_ncache w_svc]. rewrite Em, Hn.
    assert (Hname : n_name node = key) by (eapply find_node_name; exact Hn).
    assert (Hcanp : forall cs, can_patch (set_queues w (mkQ rest (q_retry (w_nq w))) (w_cq w)) key cs = true).
    { intros cs. unfold can_patch. cbn [set_queues w_nodes]. rewrite Ha, Hac. reflexivity. }
    destruct (servable_node_is_served po lab (svc_list (w_svc w)) _ (api_same (set_queues w (mkQ rest (q_retry (w_nq w))) (w_cq w)) key)
                (held_cidrs (w_ncache w)) m node node outs ps M HK Hc Hd Hc Hcanp Ho Hroom) as (m' & cs & Hne & Hs).
    rewrite Hs. cbn [apply_effects after_call ob_res res_code N.eqb fst snd]. cbn [Pos.eqb].
    exists (mkANode (an_name a) (an_labels a) (map (fun c => PGood c true) cs) (an_deleting a)), cs.
    split; [exact Hne|].
    assert (Han : an_name a = key) by (eapply find_anode_name; exact Ha).
    unfold apply_patch. rewrite Hname. cbn [set_ctl set_queues w_nodes]. rewrite Ha, Hac. cbn [fst snd set_api w_nodes ob_res].
    split; [|split; [reflexivity|reflexivity]].
    rewrite <- Han at 1. change (an_name a) with (an_name (mkANode (an_name a) (an_labels a) (map (fun c => PGood c true) cs) (an_deleting a))) at 1.
    eapply find_anode_upd. cbn. rewrite Han. exact Ha.
  Qed.

  Lemma find_cc_del_cc name l : find_cc name (del_cc name l) = None.
  Proof.
    unfold del_cc. induction l as [|x l IH]; cbn; [reflexivity|]. destruct (str_eqb (o_name x) name) eqn:E; cbn; [exact IH|rewrite E; exact IH].
  Qed.

  (* the deletion half: the work item of a ClusterCIDR whose deletion was requested, that carries only the controller's
     finalizer and on whose entry no node depends, removes the object from the API when its write succeeds *)
  Theorem proc_cc_releases w m key rest o cur k l i c :
    w_ctl w = Some m -> q_ready (w_cq w) = key :: rest ->
    find_cc key (w_ccache w) = Some o -> o_deleting o = true -> o_fins o = [finalizer] ->
    find_cc (o_name o) (w_ccs w) = Some cur -> o_rv cur = o_rv o -> o_deleting cur = true ->
    o_selkey o = Some k -> find_key k m = Some l -> find_name (o_name o) l 0 = Some (i, c) -> cc_assoc c = [] ->
    let w' := fst (step po lab w (ProcCC UOk)) in
    find_cc (o_name o) (w_ccs w') = None /\ ob_res (snd (step po lab w (ProcCC UOk))) = 1 /\
    exists m', w_ctl w' = Some m' /\ delete_cluster_cidr m o = (m', Ok tt).
  Proof.
    intros Em Hq Hc Hd Hf Hcur Hrv Hdc Hk Hfk Hfn Ha. cbn [step]. rewrite Em, Hq.
    unfold run_cc_sync. cbn [set_queues w_ctl w_ccache w_ccs]. rewrite Em, Hc, Hcur, Hrv, N.eqb_refl.
    unfold sync_cc. rewrite Hd. unfold reconcile_delete.
    assert (Hdel : exists m1, delete_cluster_cidr m o = (m1, Ok tt)).
    { unfold delete_cluster_cidr. rewrite Hk, Hfk, Hfn, Ha. destruct l as [|c0 [|c1 lt]]; eexists; reflexivity. }
    destruct Hdel as (m1 & Hdel). rewrite Hdel, Hf.
    assert (Hh : has_str finalizer [finalizer] = true) by (vm_compute; reflexivity).
    assert (Hr : remove_str finalizer [finalizer] = []) by (vm_compute; reflexivity).
    rewrite Hh, Hr. cbn [after_call res_code fst snd ob_res]. change (1 =? 2) with false. cbn [andb].
    assert (Hae : forall w0, w_ccs w0 = w_ccs w -> w_ctl w0 = Some m1 ->
              find_cc (o_name o) (w_ccs (apply_effects w0 [FxUpdateCC (with_fins o []) UOk])) = None /\
              w_ctl (apply_effects w0 [FxUpdateCC (with_fins o []) UOk]) = Some m1).
    { intros w0 E1 E2. cbn [apply_effects]. unfold apply_update_cc. cbn [with_fins o_name o_rv o_fins]. rewrite E1, Hcur, Hrv, N.eqb_refl. cbn [negb].
      cbn [with_rv o_deleting o_fins]. rewrite Hdc. cbn [andb]. cbn [set_api w_ccs w_ctl].
      assert (En : o_name cur = o_name o) by (clear - Hcur; induction (w_ccs w) as [|x t IH]; cbn in Hcur; [discriminate|]; destruct (str_eqb (o_name x) (o_name o)) eqn:E; [inversion Hcur; subst; apply str_eqb_eq; exact E|exact (IH Hcur)]).
      rewrite En. split; [apply find_cc_del_cc|exact E2]. }
    match goal with |- context [if negb ?b then _ else _] => destruct (negb b) end.
    - destruct (Hae (set_delseen (set_ctl (set_queues w (w_nq w) (mkQ rest (q_retry (w_cq w)))) (Some m1)) (o_name o :: w_delseen (set_ctl (set_queues w (w_nq w) (mkQ rest (q_retry (w_cq w)))) (Some m1)))) eq_refl eq_refl) as [A B].
      cbn [N.eqb Pos.eqb fst snd]. split; [exact A|]. split; [reflexivity|]. exists m1. split; [exact B|reflexivity].
    - destruct (Hae (set_ctl (set_queues w (w_nq w) (mkQ rest (q_retry (w_cq w)))) (Some m1)) eq_refl eq_refl) as [A B].
      cbn [N.eqb Pos.eqb fst snd]. split; [exact A|]. split; [reflexivity|]. exists m1. split; [exact B|reflexivity].
  Qed.
End WorldProgress.

Lemma prioritized_try_nonempty held ps : forall m m1 q, MapInv m -> prioritized_try held m ps = (m1, Ok ([], q)) -> False.
Proof.
  induction ps as [|p0 ps IH]; intros m m1 q M Ep; cbn [prioritized_try] in Ep; [discriminate|].
  destruct (get_entry m p0) as [c0|] eqn:Eg; [|discriminate]. pose proof (get_entry_inv m p0 c0 M Eg) as Ec.
  destruct (cc_v4 c0) as [p4|] eqn:E4.
  - destruct (allocate_cidr held m p0 V4) as [ma r4] eqn:Ea. pose proof (allocate_cidr_inv _ _ _ _ _ _ M Ea) as Ma.
    destruct r4 as [x4|e4|]; [|eapply IH; eassumption|discriminate].
    destruct (cc_v6 c0); [|discriminate]. destruct (allocate_cidr held ma p0 V6) as [mb r6] eqn:Eb. pose proof (allocate_cidr_inv _ _ _ _ _ _ Ma Eb) as Mb.
    destruct r6 as [x6|e6|]; [discriminate| |discriminate].
    eapply IH; [|exact Ep]. destruct (get_entry mb p0) as [c'|] eqn:Eg2; [|exact Mb].
    destruct (cc_release c' x4) as [c''| |] eqn:Er; try exact Mb.
    apply set_entry_inv; [exact Mb|]. eapply cc_release_inv; [exact (get_entry_inv mb p0 c' Mb Eg2)| |exact Er].
    destruct (allocate_cidr_wf _ _ _ _ _ _ M Ea) as [Hw _]. exact Hw.
  - destruct (cc_v6 c0) as [p6|] eqn:E6.
    + destruct (allocate_cidr held m p0 V6) as [mb r6] eqn:Eb. pose proof (allocate_cidr_inv _ _ _ _ _ _ M Eb) as Mb.
      destruct r6 as [x6|e6|]; [discriminate|eapply IH; eassumption|discriminate].
    + destruct (ei_some c0 Ec) as [H|H]; congruence.
Qed.

(* ---------- what a fault-free run of the work item of a node without pod CIDRs can do ---------- *)
Definition refused_at (po : parse_oracle) (lab : label_oracle) (m : cidrmap) (held : list cidr) (ls : labels) : Prop :=
  forall ps, ordered_matching po lab m ls true = Ok ps -> forall p c, In p ps -> get_entry m p = Some c -> no_room m held c.

Theorem sync_node_pok_outcome po lab svcs canp apisame held m node nr outs m' r fx :
  MapInv m -> KU m -> n_cidrs node = [] -> n_deleting node = false -> n_cidrs nr = [] -> (forall cs, canp cs = true) ->
  sync_node po lab svcs canp apisame held m (Some node) (Some nr) (POk :: outs) = (m', r, fx) ->
  (exists cs, cs <> [] /\ r = Ok tt /\ fx = [FxPatch (n_name node) cs POk]) \/
  (fx = [FxEvent 1 (n_name node)] /\ msim m m' /\ refused_at po lab m held (n_labels node)).
Proof.
  intros M HK Hn Hd Hnr Hcanp H. unfold sync_node in H. rewrite Hd in H. unfold allocate_or_occupy in H. rewrite Hn in H.
  unfold prioritized_cidrs in H.
  pose proof (ordered_matching_no_panic po lab m (n_labels node) true M) as Hnpo.
  destruct (ordered_matching po lab m (n_labels node) true) as [ps|e|] eqn:Ho; [| |contradiction].
  2:{ inversion H; subst. right. split; [reflexivity|]. split; [apply msim_refl|]. intros ps Hps. rewrite Ho in Hps. discriminate Hps. }
  pose proof (prioritized_try_no_panic held ps m M (ordered_matching_valid _ _ _ _ _ _ HK Ho)) as Hnp.
  destruct (prioritized_try held m ps) as [m1 rp] eqn:Ep. cbn [snd] in Hnp.
  destruct rp as [[cs q]|e|]; [| |contradiction].
  2:{ inversion H; subst. right. split; [reflexivity|]. split; [exact (prioritized_try_result _ _ _ _ _ M Ep)|].
      intros ps' Hps' p c Hin Hg. rewrite Ho in Hps'. inversion Hps'; subst ps'. exact (prioritized_try_refusal held ps m m m' e M (msim_refl m) Ep p c Hin Hg). }
  pose proof (prioritized_try_result held ps m m1 _ M Ep) as (_ & _ & (e1 & Hg1 & Hkeys)).
  destruct cs as [|x cs].
  { exfalso. exact (prioritized_try_nonempty held ps m m1 q M Ep). }
  left. unfold update_cidrs_allocation in H. rewrite Hnr in H. cbn [length Nat.eqb andb] in H.
  cbn [patch_loop] in H. rewrite Hcanp in H. rewrite Hg1 in H. inversion H; subst.
  exists (x :: cs). split; [discriminate|split; reflexivity].
Qed.

(* ---------- a fair, fault-free round over the nodes that have no pod CIDRs ---------- *)
Lemma find_node_view l a : NoDup (map an_name l) -> In a l -> find_node (an_name a) (map node_view l) = Some (node_view a).
Proof.
  induction l as [|h t IH]; intros Hnd Hin; [destruct Hin|]. cbn in *. inversion Hnd; subst.
  destruct Hin as [->|Hin]; [rewrite str_eqb_refl; reflexivity|].
  destruct (str_eqb (an_name h) (an_name a)) eqn:E; [|exact (IH H2 Hin)].
  apply str_eqb_eq in E. exfalso. apply H1. rewrite E. apply in_map. exact Hin.
Qed.
Lemma find_anode_in_nodup l a : NoDup (map an_name l) -> In a l -> find_anode (an_name a) l = Some a.
Proof.
  induction l as [|h t IH]; intros Hnd Hin; [destruct Hin|]. cbn in *. inversion Hnd; subst.
  destruct Hin as [->|Hin]; [rewrite str_eqb_refl; reflexivity|].
  destruct (str_eqb (an_name h) (an_name a)) eqn:E; [|exact (IH H2 Hin)].
  apply str_eqb_eq in E. exfalso. apply H1. rewrite E. apply in_map. exact Hin.
Qed.
Lemma put_node_view l a' : NoDup (map an_name l) -> (exists a, In a l /\ an_name a = an_name a') ->
  put_node (node_view a') (map node_view l) = map node_view (upd_anode a' l).
Proof.
  intros Hnd (a & Ha & Hn). unfold put_node. cbn [node_view n_name].
  assert (Hf : exists n, find_node (an_name a') (map node_view l) = Some n).
  { clear - Ha Hn. induction l as [|h t IH]; [destruct Ha|]. cbn. destruct (str_eqb (an_name h) (an_name a')) eqn:E; [eexists; reflexivity|].
    destruct Ha as [->|Ha]; [rewrite Hn, str_eqb_refl in E; discriminate|exact (IH Ha)]. }
  destruct Hf as (n & Hf). rewrite Hf. clear - Hnd. induction l as [|h t IH]; [reflexivity|]. cbn in *. inversion Hnd; subst.
  destruct (str_eqb (an_name h) (an_name a')) eqn:E; cbn.
  - f_equal. rewrite map_map. apply map_ext_in. intros x Hx. cbn.
    destruct (str_eqb (an_name x) (an_name a')) eqn:Ex; [|reflexivity].
    exfalso. apply str_eqb_eq in E. apply str_eqb_eq in Ex. apply H1. rewrite E, <- Ex. apply in_map. exact Hx.
  - rewrite (IH H2). reflexivity.
Qed.

Definition with_cidrs (a : anode) (cs : list cidr) : anode :=
  mkANode (an_name a) (an_labels a) (map (fun c => PGood c true) cs) (an_deleting a).

Section Round.
  Variable po : parse_oracle.
  Variable lab : label_oracle.

  (* one fault-free run of the work item of node a (no pod CIDRs, known as it is) on a world whose node feed is empty *)
  Lemma run_node_sync_quiet W m a outs :
    w_ctl W = Some m -> MapInv m -> KU m -> w_synced W = true -> w_nfeed W = [] ->
    seq (w_ncache W) (map node_view (w_nodes W)) -> NoDup (map an_name (w_nodes W)) ->
    In a (w_nodes W) -> an_cidrs a = [] -> an_deleting a = false ->
    (exists cs m', cs <> [] /\
       fst (run_node_sync po lab W (Some (node_view a)) (an_name a) (POk :: outs)) =
         set_api (set_ctl W (Some m')) (upd_anode (with_cidrs a cs) (w_nodes W)) (w_ccs W) (w_rv W) [NUpd (node_view (with_cidrs a cs))] (w_cfeed W)) \/
    (exists m', fst (run_node_sync po lab W (Some (node_view a)) (an_name a) (POk :: outs)) = set_ctl W (Some m') /\
                msim m m' /\ refused_at po lab m (held_cidrs (w_ncache W)) (an_labels a)).
  Proof.
    intros Em M HK Hsy Hf Hca Hnd Hin Hc Hd. unfold run_node_sync. rewrite Em.
    assert (Hfa : find_anode (an_name a) (w_nodes W) = Some a) by (apply find_anode_in_nodup; assumption).
    assert (Hfn : find_node (an_name a) (w_ncache W) = Some (node_view a)) by (apply (find_node_seq _ (w_nodes W)); assumption).
    rewrite Hfn.
    assert (Hcanp : forall cs, can_patch W (an_name a) cs = true) by (intros cs; unfold can_patch; rewrite Hfa, Hc; reflexivity).
    destruct (sync_node po lab (svc_list (w_svc W)) (can_patch W (an_name a)) (api_same W (an_name a)) (held_cidrs (w_ncache W)) m
                (Some (node_view a)) (Some (node_view a)) (POk :: outs)) as [[m' r] fx] eqn:Es.
    destruct (sync_node_pok_outcome _ _ _ _ _ _ _ (node_view a) (node_view a) _ _ _ _ M HK Hc Hd Hc Hcanp Es) as [(cs & Hne & -> & ->)|(-> & Hms & Href)].
    - left. exists cs, m'. split; [exact Hne|]. cbn [fst after_call apply_effects node_view n_name].
      unfold apply_patch. cbn [set_ctl w_nodes]. rewrite Hfa, Hc. cbn [set_api set_ctl w_nodes w_ccs w_rv w_cfeed w_nfeed].
      unfold push_nev. cbn [w_synced w_nfeed set_ctl]. rewrite Hsy, Hf. reflexivity.
    - right. exists m'. split; [|split; [exact Hms|exact Href]].
      cbn [fst apply_effects]. unfold after_call. destruct r; try reflexivity.
      exfalso. pose proof (sync_node_no_panic po lab (svc_list (w_svc W)) (can_patch W (an_name a)) (api_same W (an_name a)) (held_cidrs (w_ncache W)) m
                (Some (node_view a)) (Some (node_view a)) (POk :: outs) M HK) as Hnp. rewrite Es in Hnp. cbn in Hnp. contradiction.
  Qed.

  Record Quiet (w : world) : Prop := {
    q_winv : WInv w;
    q_wk : WK w;
    q_ctl : exists m, w_ctl w = Some m;
    q_sync : w_synced w = true;
    q_feed : w_nfeed w = [];
    q_cache : seq (w_ncache w) (map node_view (w_nodes w));     (* the store holds the API objects, in whatever order *)
    q_names : NoDup (map an_name (w_nodes w));
    q_nodel : forall a, In a (w_nodes w) -> an_deleting a = false
  }.

  Definition serve_one (w : world) (key : str) : world := run po lab w [FetchNode 0 key; RunNode 0 [POk]; DeliverNode].

  Definition ctl_of (w : world) : cidrmap := match w_ctl w with Some m => m | None => [] end.

  Lemma serve_one_spec w a : Quiet w -> In a (w_nodes w) -> an_cidrs a = [] ->
    let w3 := serve_one w (an_name a) in
    Quiet w3 /\
    ((exists cs, cs <> [] /\ w_nodes w3 = upd_anode (with_cidrs a cs) (w_nodes w)) \/
     (w_nodes w3 = w_nodes w /\ w_ncache w3 = w_ncache w /\ msim (ctl_of w) (ctl_of w3) /\ refused_at po lab (ctl_of w) (held_cidrs (w_ncache w)) (an_labels a))).
  Proof.
    intros Q Hin Hc. destruct Q as [I K (m & Em) Hsy Hf Hca Hnd Hdel].
    (* the three steps keep the structural invariants *)
    assert (Hinv : WInv (serve_one w (an_name a)) /\ WK (serve_one w (an_name a))).
    { unfold serve_one, run. cbn [fold_left].
      pose proof (step_winv po lab w (FetchNode 0 (an_name a)) I Logic.I) as I1. pose proof (proj1 (step_no_panic po lab w (FetchNode 0 (an_name a)) I K Logic.I)) as K1.
      pose proof (step_winv po lab _ (RunNode 0 [POk]) I1 Logic.I) as I2. pose proof (proj1 (step_no_panic po lab _ (RunNode 0 [POk]) I1 K1 Logic.I)) as K2.
      pose proof (step_winv po lab _ DeliverNode I2 Logic.I) as I3. pose proof (proj1 (step_no_panic po lab _ DeliverNode I2 K2 Logic.I)) as K3.
      split; assumption. }
    destruct Hinv as [I3 K3].
    (* the world the work item runs on *)
    set (W1 := set_fetch (set_fetch w ((0, (an_name a, find_node (an_name a) (w_ncache w))) :: filter (fun x => negb (fst x =? 0)) (w_nfetch w)) (w_cfetch w))
                 (filter (fun x => negb (fst x =? 0)) ((0, (an_name a, find_node (an_name a) (w_ncache w))) :: filter (fun x => negb (fst x =? 0)) (w_nfetch w))) (w_cfetch w)).
    assert (Hfn : find_node (an_name a) (w_ncache w) = Some (node_view a)) by (apply (find_node_seq _ (w_nodes w)); assumption).
    assert (Hrun : serve_one w (an_name a) = fst (step po lab (fst (run_node_sync po lab W1 (Some (node_view a)) (an_name a) [POk])) DeliverNode)).
    { unfold serve_one, run. cbn [fold_left step fst set_fetch w_nfetch w_cfetch find]. cbn [N.eqb]. rewrite Hfn. reflexivity. }
    destruct (run_node_sync_quiet W1 m a [] Em (wi_ctl w I m Em) (K m Em) Hsy Hf Hca Hnd Hin Hc (Hdel a Hin)) as [(cs & m' & Hne & Hr)|(m' & Hr & Hms & Href)].
    - (* served *)
      rewrite Hr in Hrun. cbn [step set_api set_ctl w_nfeed] in Hrun. unfold handle_nevent in Hrun.
      cbn [set_caches set_api set_ctl w_ctl w_ncache w_ccache w_nfeed w_cfeed w_nq w_cq set_queues fst W1 set_fetch] in Hrun.
      assert (Hput : seq (put_node (node_view (with_cidrs a cs)) (w_ncache w)) (map node_view (upd_anode (with_cidrs a cs) (w_nodes w)))).
      { rewrite <- (put_node_view (w_nodes w) (with_cidrs a cs) Hnd); [apply put_node_seq; exact Hca|]. exists a. split; [exact Hin|reflexivity]. }
      rewrite Hrun. split.
      + constructor; try (rewrite <- Hrun; assumption); cbn.
        * exists m'. reflexivity.
        * exact Hsy.
        * reflexivity.
        * exact Hput.
        * rewrite upd_anode_names. exact Hnd.
        * intros x Hx. destruct (in_upd_anode _ _ x Hnd Hx) as [->|[Hx' _]]; [cbn; exact (Hdel a Hin)|exact (Hdel x Hx')].
      + left. exists cs. split; [exact Hne|reflexivity].
    - (* refused *)
      rewrite Hr in Hrun. cbn [step set_ctl w_nfeed W1 set_fetch] in Hrun. rewrite Hf in Hrun. cbn [fst] in Hrun.
      rewrite Hrun. split.
      + constructor; try (rewrite <- Hrun; assumption); cbn; try assumption. exists m'. reflexivity.
      + right. unfold ctl_of. cbn. rewrite Em. split; [reflexivity|split; [reflexivity|split; [exact Hms|exact Href]]].
  Qed.

  Definition unservedb (a : anode) : bool := match an_cidrs a with [] => true | _ => false end.
  Definition unserved_nodes (w : world) : list anode := filter unservedb (w_nodes w).

  Lemma filter_upd_anode_served a' l a : NoDup (map an_name l) -> In a l -> an_name a' = an_name a -> unservedb a = true -> unservedb a' = false ->
    S (length (filter unservedb (upd_anode a' l))) = length (filter unservedb l).
  Proof.
    induction l as [|h t IH]; intros Hnd Hin Hn Hu Hu'; [destruct Hin|]. cbn in *. inversion Hnd; subst.
    destruct (str_eqb (an_name h) (an_name a')) eqn:E.
    - apply str_eqb_eq in E. assert (h = a).
      { destruct Hin as [->|Hin]; [reflexivity|]. exfalso. apply H1. rewrite E, Hn. apply in_map. exact Hin. }
      subst h. cbn. rewrite Hu, Hu'. reflexivity.
    - destruct Hin as [->|Hin]; [rewrite Hn, str_eqb_refl in E; discriminate|].
      cbn. destruct (unservedb h); cbn; rewrite <- (IH H2 Hin Hn Hu Hu'); reflexivity.
  Qed.

  (* a list of nodes without pod CIDRs, processed one after the other *)
  Lemma serve_all_spec L : forall w, Quiet w -> NoDup (map an_name L) -> (forall a, In a L -> In a (w_nodes w) /\ an_cidrs a = []) ->
    let w' := fold_left serve_one (map an_name L) w in
    Quiet w' /\ (length (unserved_nodes w') <= length (unserved_nodes w))%nat /\
    ((length (unserved_nodes w') < length (unserved_nodes w))%nat \/
     (w_nodes w' = w_nodes w /\ w_ncache w' = w_ncache w /\ msim (ctl_of w) (ctl_of w') /\
      forall a, In a L -> exists mk, msim mk (ctl_of w') /\ refused_at po lab mk (held_cidrs (w_ncache w)) (an_labels a))).
  Proof.
    induction L as [|a L IH]; intros w Q Hnd HL; cbn [map fold_left].
    - split; [exact Q|]. split; [apply le_n|]. right. split; [reflexivity|]. split; [reflexivity|]. split; [apply msim_refl|intros a []].
    - inversion Hnd as [|x l Hna HndL]; subst.
      destruct (HL a (or_introl eq_refl)) as [Hin Hc].
      destruct (serve_one_spec w a Q Hin Hc) as (Q1 & Hcase).
      assert (HL1 : forall b, In b L -> In b (w_nodes (serve_one w (an_name a))) /\ an_cidrs b = []).
      { intros b Hb. destruct (HL b (or_intror Hb)) as [Hbin Hbc]. split; [|exact Hbc].
        destruct Hcase as [(cs & _ & ->)|(-> & _)]; [|exact Hbin].
        apply in_upd_anode_old; [exact Hbin|]. cbn. intros E. apply Hna. rewrite <- E. apply in_map. exact Hb. }
      destruct (IH (serve_one w (an_name a)) Q1 HndL HL1) as (Q' & Hle & Hrest).
      split; [exact Q'|].
      destruct Hcase as [(cs & Hne & Hnodes)|(Hnodes & Hcache & Hms & Href)].
      + (* a was served: the count went down and never goes up again *)
        assert (Hdec : S (length (unserved_nodes (serve_one w (an_name a)))) = length (unserved_nodes w)).
        { unfold unserved_nodes. rewrite Hnodes. apply (filter_upd_anode_served (with_cidrs a cs) (w_nodes w) a (q_names w Q) Hin eq_refl).
          - unfold unservedb. rewrite Hc. reflexivity.
          - unfold unservedb, with_cidrs. cbn. destruct cs; [contradiction|reflexivity]. }
        split; [lia|]. left. lia.
      + assert (Hun : unserved_nodes (serve_one w (an_name a)) = unserved_nodes w) by (unfold unserved_nodes; rewrite Hnodes; reflexivity).
        rewrite Hun in Hle, Hrest. split; [exact Hle|].
        destruct Hrest as [Hlt|(Hn' & Hc' & Hms' & Hall)]; [left; exact Hlt|]. right.
        split; [congruence|]. split; [congruence|]. split; [eapply msim_trans; eassumption|].
        intros b [<-|Hb].
        * exists (ctl_of w). split; [eapply msim_trans; eassumption|exact Href].
        * destruct (Hall b Hb) as (mk & A & B). exists mk. split; [exact A|]. rewrite Hcache in B. exact B.
  Qed.

  Definition round (w : world) : world := fold_left serve_one (map an_name (unserved_nodes w)) w.

  (* every node still without pod CIDRs was processed in a state that differs from this one in search cursors only, and
     was refused there: no entry offered for its labels had room *)
  Definition settled (w : world) : Prop :=
    forall a, In a (w_nodes w) -> an_cidrs a = [] ->
      exists mk, msim mk (ctl_of w) /\ refused_at po lab mk (held_cidrs (w_ncache w)) (an_labels a).

  Lemma NoDup_map_filter {A B} (f : A -> B) (g : A -> bool) l : NoDup (map f l) -> NoDup (map f (filter g l)).
  Proof.
    induction l as [|h t IH]; cbn; [auto|]. intros H. inversion H; subst. destruct (g h); cbn; [|apply IH; assumption].
    constructor; [|apply IH; assumption]. intros Hin. apply H2. apply in_map_iff in Hin. destruct Hin as (x & E & Hx). apply filter_In in Hx. rewrite <- E. apply in_map. apply Hx.
  Qed.

  Lemma round_spec w : Quiet w ->
    Quiet (round w) /\ ((length (unserved_nodes (round w)) < length (unserved_nodes w))%nat \/ settled (round w)).
  Proof.
    intros Q. unfold round.
    destruct (serve_all_spec (unserved_nodes w) w Q) as (Q' & _ & Hcase).
    - apply NoDup_map_filter. exact (q_names w Q).
    - intros a Ha. unfold unserved_nodes in Ha. apply filter_In in Ha. destruct Ha as [Ha Hu]. split; [exact Ha|].
      unfold unservedb in Hu. destruct (an_cidrs a); [reflexivity|discriminate].
    - split; [exact Q'|]. destruct Hcase as [Hlt|(Hn & Hcache & _ & Hall)]; [left; exact Hlt|]. right.
      intros a Ha Hc. rewrite Hn in Ha.
      assert (Hau : In a (unserved_nodes w)) by (unfold unserved_nodes; apply filter_In; split; [exact Ha|unfold unservedb; rewrite Hc; reflexivity]).
      destruct (Hall a Hau) as (mk & A & B). exists mk. split; [exact A|].
      rewrite Hcache. exact B.
  Qed.

  Lemma iter_shift {A} (f : A -> A) k x : Nat.iter (S k) f x = Nat.iter k f (f x).
  Proof. induction k as [|k IH]; [reflexivity|]. cbn in *. rewrite IH. reflexivity. Qed.

  (* C11, the measure argument: from a quiet world, at most (number of nodes without pod CIDRs) + 1 fair fault-free rounds
     lead to a settled world *)
  Theorem rounds_converge n : forall w, Quiet w -> (length (unserved_nodes w) <= n)%nat ->
    exists k, (k <= S n)%nat /\ Quiet (Nat.iter k round w) /\ settled (Nat.iter k round w).
  Proof.
    induction n as [|n IH]; intros w Q Hn.
    - destruct (round_spec w Q) as [Q' [Hlt|Hs]]; [lia|]. exists 1%nat. split; [lia|]. split; assumption.
    - destruct (round_spec w Q) as [Q' [Hlt|Hs]].
      + destruct (IH (round w) Q' ltac:(lia)) as (k & Hk & Qk & Sk). exists (S k). split; [lia|].
        rewrite iter_shift. split; assumption.
      + exists 1%nat. split; [lia|]. split; assumption.
  Qed.
End Round.

(* ---------- the ClusterCIDR-deletion half: what a fault-free run of the work item of a ClusterCIDR whose deletion was
   requested can do ---------- *)
Section CCRound.
  Variable po : parse_oracle.
  Variable lab : label_oracle.

  Lemma find_cc_put_cc x l y : find_cc (o_name x) l = Some y -> find_cc (o_name x) (put_cc x l) = Some x.
  Proof.
    intros H. unfold put_cc. rewrite H. revert y H. induction l as [|h t IH]; intros y; cbn; [discriminate|].
    destruct (str_eqb (o_name h) (o_name x)) eqn:E; cbn; intros H; [rewrite str_eqb_refl; reflexivity|rewrite E; eapply IH; exact H].
  Qed.

  Definition busy_at (m : cidrmap) (o : ccobj) : Prop :=
    o_selkey o = None \/
    exists k l i c, o_selkey o = Some k /\ find_key k m = Some l /\ find_name (o_name o) l 0 = Some (i, c) /\ cc_assoc c <> [].

  (* W: controller running, the object as cached is the object in the API (fresh), deletion requested, our finalizer on it *)
  Lemma run_cc_sync_deleting W m o :
    w_ctl W = Some m -> find_cc (o_name o) (w_ccs W) = Some o -> o_deleting o = true -> has_str finalizer (o_fins o) = true ->
    let W2 := fst (run_cc_sync W (o_name o) (Some o) UOk) in
    (* released: our finalizer is off the object (the object is gone when it carried no other finalizer) *)
    ((forall o2, find_cc (o_name o) (w_ccs W2) = Some o2 -> has_str finalizer (o_fins o2) = false) /\ w_ctl W2 <> None) \/
    (* or the controller still sees dependants (or cannot convert the selector): nothing is written *)
    (w_ccs W2 = w_ccs W /\ w_cfeed W2 = w_cfeed W /\ busy_at m o).
  Proof.
    intros Em Hcur Hd Hf. unfold run_cc_sync. rewrite Em, Hcur, N.eqb_refl.
    unfold sync_cc. rewrite Hd. unfold reconcile_delete.
    destruct (delete_cluster_cidr m o) as [m1 r1] eqn:Hdel.
    assert (Hcases : (r1 = Ok tt) \/ (exists e, r1 = Err e /\ busy_at m o)).
    { unfold delete_cluster_cidr in Hdel. destruct (o_selkey o) as [k|] eqn:Hk; [|inversion Hdel; subst; right; exists ESelector; split; [reflexivity|left; exact Hk]].
      destruct (find_key k m) as [l|] eqn:Hfk; [|inversion Hdel; subst; left; reflexivity].
      destruct (find_name (o_name o) l 0) as [[i c]|] eqn:Hfn; [|inversion Hdel; subst; left; reflexivity].
      destruct (cc_assoc c) as [|a0 al] eqn:Ha.
      - destruct l as [|c0 [|c1 lt]]; inversion Hdel; subst; left; reflexivity.
      - inversion Hdel; subst. right. exists EBusy. split; [reflexivity|]. right. exists k, l, i, c. split; [exact Hk|split; [exact Hfk|split; [exact Hfn|rewrite Ha; discriminate]]]. }
    destruct Hcases as [->|(e & -> & Hb)].
    - left. rewrite Hf. cbn [after_call res_code fst snd ob_res]. cbn [andb].
      assert (Hae : forall w0, w_ccs w0 = w_ccs W -> w_ctl w0 = Some m1 ->
                (forall o2, find_cc (o_name o) (w_ccs (apply_effects w0 [FxUpdateCC (with_fins o (remove_str finalizer (o_fins o))) UOk])) = Some o2 -> has_str finalizer (o_fins o2) = false) /\
                w_ctl (apply_effects w0 [FxUpdateCC (with_fins o (remove_str finalizer (o_fins o))) UOk]) <> None).
      { intros w0 E1 E2. cbn [apply_effects]. unfold apply_update_cc. cbn [with_fins o_name o_rv o_fins]. rewrite E1, Hcur, N.eqb_refl. cbn [negb].
        cbn [with_rv o_deleting o_fins]. rewrite Hd. cbn [andb].
        assert (Hrm : has_str finalizer (remove_str finalizer (o_fins o)) = false).
        { unfold has_str, remove_str. apply Bool.not_true_iff_false. intros H. apply existsb_exists in H. destruct H as (x & Hx & Ex).
          apply filter_In in Hx. destruct Hx as [_ Hx]. rewrite Ex in Hx. discriminate Hx. }
        destruct (remove_str finalizer (o_fins o)) as [|f0 fr] eqn:Er; cbn [set_api w_ccs w_ctl].
        - split; [|rewrite E2; discriminate]. intros o2 H2. rewrite find_cc_del_cc in H2. discriminate H2.
        - split; [|rewrite E2; discriminate]. intros o2 H2.
          match type of H2 with find_cc _ (put_cc ?X _) = _ =>
            assert (Hput : find_cc (o_name o) (put_cc X (w_ccs W)) = Some X) by (apply (find_cc_put_cc X (w_ccs W) o); exact Hcur) end.
          rewrite Hput in H2. inversion H2; subst o2. cbn. exact Hrm. }
      match goal with |- context [if negb ?b then _ else _] => destruct (negb b) end; apply Hae; reflexivity.
    - right. cbn [after_call apply_effects fst]. rewrite ?Hd. cbn [andb].
      match goal with |- context [if negb ?b then _ else _] => destruct (negb b) end; cbn; (split; [reflexivity|split; [reflexivity|exact Hb]]).
  Qed.
End CCRound.
