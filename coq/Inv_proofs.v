(* Inv_proofs.v -- the structural invariant of the controller state (every pool of every entry
   satisfies PoolInv, has the family of its slot, lies in the clean domain; every entry has a pool)
   is preserved by every controller call. *)
From NIPAM Require Import Alloc Prio_proofs Geom_proofs Pool_proofs Alloc_proofs.
From Coq Require Import Lia.
Open Scope N_scope.

(* ---------- pools of an entry ---------- *)
Definition PI (f : fam) (p : pool) : Prop := PoolInv p /\ gf (pg p) = f /\ clean_geom (pg p) = true.

Record EntryInv (c : ccset) : Prop := {
  ei_v4 : forall p, cc_v4 c = Some p -> PI V4 p;
  ei_v6 : forall p, cc_v6 c = Some p -> PI V6 p;
  ei_some : cc_v4 c <> None \/ cc_v6 c <> None
}.

Definition MapInv (m : cidrmap) : Prop := forall c, In c (all_entries m) -> EntryInv c.

Lemma pool_of_PI c f p : EntryInv c -> pool_of c f = Some p -> PI f p.
Proof. intros I H. destruct f; cbn in H; [apply (ei_v4 c I)|apply (ei_v6 c I)]; exact H. Qed.

Lemma with_pool_inv c f p : EntryInv c -> PI f p -> EntryInv (with_pool c f p).
Proof.
  intros I Hp. destruct f; constructor; cbn.
  - intros q Hq. inversion Hq; subst. exact Hp.
  - apply (ei_v6 c I).
  - left. discriminate.
  - apply (ei_v4 c I).
  - intros q Hq. inversion Hq; subst. exact Hp.
  - right. discriminate.
Qed.

Lemma with_assoc_inv c a : EntryInv c -> EntryInv (with_assoc c a).
Proof. intros [A B C]. constructor; cbn; assumption. Qed.
Lemma with_term_inv c t : EntryInv c -> EntryInv (with_term c t).
Proof. intros [A B C]. constructor; cbn; assumption. Qed.
Lemma add_assoc_inv n c : EntryInv c -> EntryInv (add_assoc n c).
Proof. intros I. unfold add_assoc. apply with_assoc_inv. exact I. Qed.
Lemma del_assoc_inv n c : EntryInv c -> EntryInv (del_assoc n c).
Proof. intros I. unfold del_assoc. apply with_assoc_inv. exact I. Qed.

Lemma occupy_PI f p x p' : PI f p -> wf_cidr x -> occupy p x = Some p' -> PI f p'.
Proof.
  intros (I & Hf & Hc) Hx Ho. pose proof (occupy_spec p x I Hc Hx) as S. rewrite Ho in S.
  destruct S as (_ & I' & _ & Hg & _). split; [exact I'|]. rewrite Hg. split; assumption.
Qed.
Lemma release_PI f p x p' : PI f p -> wf_cidr x -> release p x = Some p' -> PI f p'.
Proof.
  intros (I & Hf & Hc) Hx Ho. pose proof (release_spec p x I Hc Hx) as S. rewrite Ho in S.
  destruct S as (_ & I' & _ & Hg & _). split; [exact I'|]. rewrite Hg. split; assumption.
Qed.
Lemma next_PI f p blk sk p' : PI f p -> next_candidate p = Cand blk sk p' -> PI f p' /\ wf_cidr blk /\ cf blk = f.
Proof.
  intros (I & Hf & Hc) Hn. pose proof (next_spec p I) as S. rewrite Hn in S.
  destruct S as (i & Hi & -> & _ & _ & _ & _ & -> & I' & _). split; [split; [exact I'|cbn; split; assumption]|].
  split; [apply block_wf; [apply I|exact Hi]|cbn; exact Hf].
Qed.

Lemma cc_occupy_inv c x c' : EntryInv c -> wf_cidr x -> cc_occupy c x = Ok c' -> EntryInv c'.
Proof.
  unfold cc_occupy. intros I Hx H. destruct (pool_of c (cf x)) as [p|] eqn:Ep; [|discriminate].
  destruct (occupy p x) as [p'|] eqn:Eo; [|discriminate]. inversion H; subst.
  apply with_pool_inv; [exact I|]. eapply occupy_PI; [eapply pool_of_PI; eassumption|exact Hx|exact Eo].
Qed.
Lemma cc_release_inv c x c' : EntryInv c -> wf_cidr x -> cc_release c x = Ok c' -> EntryInv c'.
Proof.
  unfold cc_release. intros I Hx H. destruct (pool_of c (cf x)) as [p|] eqn:Ep; [|discriminate].
  destruct (release p x) as [p'|] eqn:Eo; [|discriminate]. inversion H; subst.
  apply with_pool_inv; [exact I|]. eapply release_PI; [eapply pool_of_PI; eassumption|exact Hx|exact Eo].
Qed.

(* ---------- map surgery ---------- *)
Lemma in_set_nth {A} n (x : A) l y : In y (set_nth n x l) -> y = x \/ In y l.
Proof.
  revert l. induction n as [|n IH]; intros [|h t]; cbn; try tauto.
  - intros [H|H]; [left; congruence|right; right; exact H].
  - intros [H|H]; [right; left; exact H|]. destruct (IH t H) as [E|E]; [left; exact E|right; right; exact E].
Qed.

Lemma in_remove_nth {A} n (l : list A) y : In y (remove_nth n l) -> In y l.
Proof.
  revert l. induction n as [|n IH]; intros [|h t]; cbn; try tauto. intros [H|H]; [left; exact H|right; apply IH; exact H].
Qed.

Lemma find_key_in k m l : find_key k m = Some l -> forall c, In c l -> In c (all_entries m).
Proof.
  induction m as [|[k0 l0] m IH]; cbn; [discriminate|]. destruct (str_eqb k k0).
  - intros H c Hc. inversion H; subst. apply in_or_app. left. exact Hc.
  - intros H c Hc. apply in_or_app. right. eapply IH; eassumption.
Qed.

Lemma all_entries_set_key k l m c : In c (all_entries (set_key k l m)) -> In c l \/ In c (all_entries m).
Proof.
  induction m as [|[k0 l0] m IH]; cbn.
  - rewrite app_nil_r. tauto.
  - destruct (str_eqb k k0); cbn; intros H; apply in_app_or in H.
    + destruct H as [H|H]; [left; exact H|right; apply in_or_app; right; exact H].
    + destruct H as [H|H]; [right; apply in_or_app; left; exact H|].
      destruct (IH H) as [E|E]; [left; exact E|right; apply in_or_app; right; exact E].
Qed.

Lemma all_entries_del_key k m c : In c (all_entries (del_key k m)) -> In c (all_entries m).
Proof.
  induction m as [|[k0 l0] m IH]; cbn; [tauto|]. destruct (str_eqb k k0); cbn; intros H.
  - apply in_or_app. right. exact H.
  - apply in_app_or in H. apply in_or_app. destruct H as [H|H]; [left; exact H|right; apply IH; exact H].
Qed.

Lemma set_entry_inv m p c : MapInv m -> EntryInv c -> MapInv (set_entry m p c).
Proof.
  intros M I x Hx. unfold set_entry in Hx. destruct (find_key (fst p) m) as [l|] eqn:Ef; [|apply M; exact Hx].
  apply all_entries_set_key in Hx. destruct Hx as [Hx|Hx]; [|apply M; exact Hx].
  apply in_set_nth in Hx. destruct Hx as [->|Hx]; [exact I|]. apply M. eapply find_key_in; eassumption.
Qed.

Lemma get_entry_inv m p c : MapInv m -> get_entry m p = Some c -> EntryInv c.
Proof.
  unfold get_entry. intros M H. destruct (find_key (fst p) m) as [l|] eqn:Ef; [|discriminate].
  apply M. eapply find_key_in; [exact Ef|]. eapply nth_error_In. exact H.
Qed.

(* ---------- well-formed inputs ---------- *)
Definition wf_pcidr (pc : pcidr) : Prop := match pc with PGood c _ => wf_cidr c | PBad => True end.
Definition wf_node (n : nodeobj) : Prop := Forall wf_pcidr (n_cidrs n).

(* ---------- node path ---------- *)
Lemma occupy_list_inv cs : forall c c' o, EntryInv c -> Forall wf_pcidr cs -> occupy_list c cs = (c', o) -> EntryInv c'.
Proof.
  induction cs as [|pc cs IH]; intros c c' o I Hw H; cbn in H.
  - inversion H; subst. exact I.
  - inversion Hw as [|? ? Hpc Hcs]; subst. destruct pc as [|x canon]; [inversion H; subst; exact I|].
    destruct (cc_occupy c x) as [c1|e|] eqn:Eo; try (inversion H; subst; exact I).
    eapply IH; [eapply cc_occupy_inv; [exact I|exact Hpc|exact Eo]|exact Hcs|exact H].
Qed.

Lemma occupy_try_inv node ps : forall m m' r, MapInv m -> wf_node node -> occupy_try m node ps = (m', r) -> MapInv m'.
Proof.
  induction ps as [|p ps IH]; intros m m' r M Hw H; cbn in H; [inversion H; subst; exact M|].
  destruct (get_entry m p) as [c|] eqn:Eg; [|inversion H; subst; exact M].
  destruct (negb (can_occupy_all c (n_cidrs node))); [eapply IH; eassumption|].
  destruct (occupy_list c (n_cidrs node)) as [c' o] eqn:Eo.
  pose proof (occupy_list_inv _ _ _ _ (get_entry_inv _ _ _ M Eg) Hw Eo) as I'.
  destruct o.
  - inversion H; subst. apply set_entry_inv; [exact M|apply add_assoc_inv; exact I'].
  - eapply IH; [apply set_entry_inv; [exact M|exact I']|exact Hw|exact H].
  - inversion H; subst. apply set_entry_inv; assumption.
Qed.

Lemma occupy_cidrs_inv po lab m node m' r : MapInv m -> wf_node node -> occupy_cidrs po lab m node = (m', r) -> MapInv m'.
Proof.
  unfold occupy_cidrs. intros M Hw H. destruct (n_cidrs node) as [|pc0 pcs]; [inversion H; subst; exact M|].
  destruct (ordered_matching po lab m (n_labels node) false) as [[|p1 ps]|e|]; try (inversion H; subst; exact M).
  eapply occupy_try_inv; eassumption.
Qed.

Definition alloc_state_inv (st : alloc_state) : Prop :=
  match st with ARun _ m => MapInv m | ADone m _ => MapInv m end.

Lemma alloc_step_inv held p f st : alloc_state_inv st -> alloc_state_inv (alloc_step held p f st).
Proof.
  destruct st as [ev m|m r]; [|tauto]. cbn [alloc_state_inv]. intros M. unfold alloc_step.
  destruct (get_entry m p) as [c|] eqn:Eg; [|exact M].
  destruct (pool_of c f) as [pl|] eqn:Ep; [|exact M].
  destruct (pmax pl <=? ev); [exact M|].
  destruct (next_candidate pl) as [blk sk pl'|] eqn:En; [|exact M].
  pose proof (get_entry_inv _ _ _ M Eg) as I.
  destruct (next_PI f pl blk sk pl' (pool_of_PI _ _ _ I Ep) En) as (Hp' & Hwb & Hfb).
  assert (I1 : EntryInv (with_pool c f pl')) by (apply with_pool_inv; assumption).
  assert (M1 : MapInv (set_entry m p (with_pool c f pl'))) by (apply set_entry_inv; assumption).
  match goal with |- context [if ?b then _ else _] => destruct b end; [exact M1|].
  destruct (cc_occupy (with_pool c f pl') blk) as [c2|e|] eqn:Eo; cbn [alloc_state_inv]; try exact M1.
  apply set_entry_inv; [exact M1|]. eapply cc_occupy_inv; eassumption.
Qed.

Lemma allocate_cidr_inv held m p f m' r : MapInv m -> allocate_cidr held m p f = (m', r) -> MapInv m'.
Proof.
  unfold allocate_cidr. intros M H.
  match type of H with context [N.iter ?fuel _ _] =>
    assert (G : alloc_state_inv (N.iter fuel (alloc_step held p f) (ARun 0 m)))
      by (apply N.iter_invariant; [intros st; apply alloc_step_inv|exact M]);
    destruct (N.iter fuel (alloc_step held p f) (ARun 0 m)) as [ev m2|m2 r2] end;
  inversion H; subst; exact G.
Qed.

(* the block returned by allocate_cidr is a well-formed CIDR of the requested family *)
Definition alloc_wf (f : fam) (st : alloc_state) : Prop :=
  match st with ADone _ (Ok x) => wf_cidr x /\ cf x = f | _ => True end.

Lemma alloc_step_wf held p f st : alloc_state_inv st -> alloc_wf f st -> alloc_wf f (alloc_step held p f st).
Proof.
  destruct st as [ev m|m r]; [|tauto]. cbn [alloc_state_inv]. intros M _. unfold alloc_step.
  destruct (get_entry m p) as [c|] eqn:Eg; [|exact I].
  destruct (pool_of c f) as [pl|] eqn:Ep; [|exact I].
  destruct (pmax pl <=? ev); [exact I|].
  destruct (next_candidate pl) as [blk sk pl'|] eqn:En; [|exact I].
  destruct (next_PI f pl blk sk pl' (pool_of_PI _ _ _ (get_entry_inv _ _ _ M Eg) Ep) En) as (_ & Hwb & Hfb).
  match goal with |- context [if ?b then _ else _] => destruct b end; [exact I|].
  destruct (cc_occupy _ blk); cbn; try exact I. split; assumption.
Qed.

Lemma allocate_cidr_wf held m p f m' x : MapInv m -> allocate_cidr held m p f = (m', Ok x) -> wf_cidr x /\ cf x = f.
Proof.
  unfold allocate_cidr. intros M H.
  match type of H with context [N.iter ?fuel _ _] =>
    assert (G : alloc_state_inv (N.iter fuel (alloc_step held p f) (ARun 0 m)) /\ alloc_wf f (N.iter fuel (alloc_step held p f) (ARun 0 m)))
      by (apply (N.iter_invariant fuel _ (alloc_step held p f) (fun st => alloc_state_inv st /\ alloc_wf f st));
          [intros st [A B]; split; [apply alloc_step_inv; exact A|apply alloc_step_wf; assumption]|split; [exact M|exact I]]);
    destruct (N.iter fuel (alloc_step held p f) (ARun 0 m)) as [ev m2|m2 r2] end;
  inversion H; subst. apply G.
Qed.

Lemma release_list_inv xs : forall c c', EntryInv c -> Forall wf_cidr xs -> release_list c xs = Ok c' -> EntryInv c'.
Proof.
  induction xs as [|x xs IH]; intros c c' I Hw H; cbn in H; [inversion H; subst; exact I|].
  inversion Hw; subst. destruct (cc_release c x) as [c1|e|] eqn:Er; try discriminate.
  eapply IH; [eapply cc_release_inv; eassumption|assumption|exact H].
Qed.

Lemma release_in_inv m p xs m' r : MapInv m -> Forall wf_cidr xs -> release_in m p xs = (m', r) -> MapInv m'.
Proof.
  unfold release_in. intros M Hw H. destruct (get_entry m p) as [c|] eqn:Eg; [|inversion H; subst; exact M].
  destruct (release_list c xs) as [c'|e|] eqn:Er; inversion H; subst; try exact M.
  apply set_entry_inv; [exact M|]. eapply release_list_inv; [eapply get_entry_inv; eassumption|exact Hw|exact Er].
Qed.

Lemma prioritized_try_inv held ps : forall m m' r, MapInv m -> prioritized_try held m ps = (m', r) ->
  MapInv m' /\ match r with Ok (cs, _) => Forall wf_cidr cs | _ => True end.
Proof.
  induction ps as [|p0 ps IH]; intros m m' r M H; cbn in H; [inversion H; subst; split; [exact M|exact I]|].
  destruct (get_entry m p0) as [c|] eqn:Eg; [|inversion H; subst; split; [exact M|exact I]].
  destruct (cc_v4 c) as [p4|].
  - destruct (allocate_cidr held m p0 V4) as [m1 r4] eqn:E4. pose proof (allocate_cidr_inv _ _ _ _ _ _ M E4) as M1.
    destruct r4 as [x4|e4|]; [|eapply IH; eassumption|inversion H; subst; split; [exact M1|exact I]].
    destruct (allocate_cidr_wf _ _ _ _ _ _ M E4) as [Hw4 _].
    destruct (cc_v6 c) as [p6|].
    + destruct (allocate_cidr held m1 p0 V6) as [m2 r6] eqn:E6. pose proof (allocate_cidr_inv _ _ _ _ _ _ M1 E6) as M2.
      destruct r6 as [x6|e6|].
      * inversion H; subst. split; [exact M2|]. destruct (allocate_cidr_wf _ _ _ _ _ _ M1 E6) as [Hw6 _]. cbn; repeat (constructor; try assumption).
      * eapply IH; [|exact H].
        destruct (get_entry m2 p0) as [c'|] eqn:Eg2; [|exact M2].
        destruct (cc_release c' x4) as [c''|e|] eqn:Er; try exact M2.
        apply set_entry_inv; [exact M2|]. eapply cc_release_inv; [eapply get_entry_inv; eassumption|exact Hw4|exact Er].
      * inversion H; subst. split; [exact M2|exact I].
    + inversion H; subst. split; [exact M1|]. cbn; repeat (constructor; try assumption).
  - destruct (cc_v6 c) as [p6|].
    + destruct (allocate_cidr held m p0 V6) as [m2 r6] eqn:E6. pose proof (allocate_cidr_inv _ _ _ _ _ _ M E6) as M2.
      destruct r6 as [x6|e6|].
      * inversion H; subst. split; [exact M2|]. destruct (allocate_cidr_wf _ _ _ _ _ _ M E6) as [Hw6 _]. cbn; repeat (constructor; try assumption).
      * eapply IH; eassumption.
      * inversion H; subst. split; [exact M2|exact I].
    + inversion H; subst. split; [exact M|constructor].
Qed.

Lemma update_cidrs_allocation_inv canp apisame m name cs p reread outs m' r fx :
  MapInv m -> Forall wf_cidr cs -> update_cidrs_allocation canp apisame m name cs p reread outs = (m', r, fx) -> MapInv m'.
Proof.
  unfold update_cidrs_allocation. intros M Hw H.
  assert (Hadd : forall c, EntryInv c -> MapInv (set_entry m p (add_assoc name c))).
  { intros c Ic. apply set_entry_inv; [exact M|apply add_assoc_inv; exact Ic]. }
  destruct reread as [n|].
  2:{ destruct (release_in m p cs) as [m1 r1] eqn:E. inversion H; subst. eapply release_in_inv; eassumption. }
  destruct ((length (n_cidrs n) =? length cs)%nat && same_cidrs (n_cidrs n) cs)%bool.
  { destruct (get_entry m p) as [c|] eqn:Eg; inversion H; subst; [apply Hadd; eapply get_entry_inv; eassumption|exact M]. }
  destruct (n_cidrs n).
  2:{ destruct (release_in m p cs) as [m1 r1] eqn:E. inversion H; subst. eapply release_in_inv; eassumption. }
  destruct (patch_loop (canp cs) name cs outs 3) as [ok fxp].
  destruct ok.
  { destruct (get_entry m p) as [c|] eqn:Eg; inversion H; subst; [apply Hadd; eapply get_entry_inv; eassumption|exact M]. }
  repeat match type of H with
         | context [if ?b then _ else _] => destruct b
         | context [match nth_error ?l ?k with _ => _ end] => destruct (nth_error l k) as [[]|]
         | context [match get_entry m p with _ => _ end] => let Eg := fresh "Eg" in destruct (get_entry m p) as [?c|] eqn:Eg
         | context [let '(_, _) := release_in m p cs in _] => let E := fresh "E" in destruct (release_in m p cs) as [?m1 ?r1] eqn:E
         end; inversion H; subst; try exact M; try (apply Hadd; eapply get_entry_inv; eassumption); try (eapply release_in_inv; eassumption).
Qed.

Lemma occupy_service_inv c svc : EntryInv c -> wf_cidr svc -> EntryInv (occupy_service c svc).
Proof.
  intros I Hw. unfold occupy_service. destruct (pool_of c (cf svc)); [|exact I].
  destruct (overlapb _ svc); [|exact I]. destruct (cc_occupy c svc) as [c'|e|] eqn:Eo; try exact I.
  eapply cc_occupy_inv; eassumption.
Qed.

Lemma occupy_services_inv svcs : forall c, EntryInv c -> Forall wf_cidr svcs -> EntryInv (occupy_services c svcs).
Proof.
  unfold occupy_services. induction svcs as [|s svcs IH]; intros c I Hw; cbn [fold_left]; [exact I|].
  inversion Hw; subst. apply IH; [apply occupy_service_inv; assumption|assumption].
Qed.

Lemma release_all_inv svcs node : Forall wf_cidr svcs -> wf_node node ->
  forall ps m0 m2 r2, MapInv m0 -> release_all svcs m0 node ps = (m2, r2) -> MapInv m2.
Proof.
  intros Hs Hw. induction ps as [|p ps IH]; intros m0 m2 r2 M0 H; cbn in H; [inversion H; subst; exact M0|].
  destruct (get_entry m0 p) as [c|] eqn:Eg; [|inversion H; subst; exact M0].
  assert (Hrp : forall cs c0 c1 r0, EntryInv c0 -> Forall wf_pcidr cs -> release_pcidrs svcs c0 cs = (c1, r0) -> EntryInv c1).
  { clear - Hs. induction cs as [|pc cs IH]; intros c0 c1 r0 I Hw H; cbn in H; [inversion H; subst; exact I|].
    inversion Hw; subst. destruct pc as [|x canon]; [inversion H; subst; exact I|].
    destruct (cc_release c0 x) as [c2|e|] eqn:Er; try (inversion H; subst; exact I).
    eapply IH; [apply occupy_services_inv; [eapply cc_release_inv; eassumption|exact Hs]|assumption|exact H]. }
  destruct (release_pcidrs svcs c (n_cidrs node)) as [c' rr] eqn:Erp.
  pose proof (Hrp _ _ _ _ (get_entry_inv _ _ _ M0 Eg) Hw Erp) as I'.
  destruct rr as [[]|e|].
  - eapply IH; [|exact H]. apply set_entry_inv; [exact M0|apply del_assoc_inv; exact I'].
  - inversion H; subst. apply set_entry_inv; assumption.
  - inversion H; subst. apply set_entry_inv; assumption.
Qed.

Lemma release_cidr_inv svcs m node m' r : MapInv m -> Forall wf_cidr svcs -> wf_node node -> release_cidr svcs m node = (m', r) -> MapInv m'.
Proof.
  intros M Hs Hw Er. unfold release_cidr in Er. destruct (n_cidrs node) eqn:En; [inversion Er; subst; exact M|].
  destruct (assoc_paths m (n_name node)) as [|p0 ps]; [inversion Er; subst; exact M|].
  eapply release_all_inv; eassumption.
Qed.

Theorem sync_node_inv po lab svcs canp apisame held m cached reread outs m' r fx :
  MapInv m -> Forall wf_cidr svcs -> (forall n, cached = Some n -> wf_node n) ->
  sync_node po lab svcs canp apisame held m cached reread outs = (m', r, fx) -> MapInv m'.
Proof.
  unfold sync_node. intros M Hs Hw H. destruct cached as [node|]; [|inversion H; subst; exact M].
  specialize (Hw node eq_refl).
  destruct (n_deleting node).
  - destruct (release_cidr svcs m node) as [m1 r1] eqn:Er. inversion H; subst. clear H.
    eapply release_cidr_inv; eassumption.
  - unfold allocate_or_occupy in H. destruct (n_cidrs node) eqn:En.
    + destruct (prioritized_cidrs po lab held m node) as [m1 rp] eqn:Ep.
      assert (Hp : MapInv m1 /\ match rp with Ok (cs, _) => Forall wf_cidr cs | _ => True end).
      { unfold prioritized_cidrs in Ep. destruct (ordered_matching po lab m (n_labels node) true) as [ps|e|];
          try (inversion Ep; subst; split; [exact M|exact I]). eapply prioritized_try_inv; eassumption. }
      destruct Hp as [M1 Hcs]. destruct rp as [[cs p]|e|]; try (inversion H; subst; exact M1).
      destruct cs; [inversion H; subst; exact M1|]. eapply update_cidrs_allocation_inv; eassumption.
    + destruct reread; [|inversion H; subst; exact M].
      destruct (occupy_cidrs po lab m node) as [m1 r1] eqn:Eo. inversion H; subst.
      eapply occupy_cidrs_inv; [exact M|exact Hw|exact Eo].
Qed.

(* ---------- ClusterCIDR path ---------- *)
(* a range the controller may be given: well-formed, not the 2^32-block IPv4 geometry, not meeting
   the IPv4-mapped zone (the domain of C13) *)
Definition good_range (c : cidr) (hb : Z) : Prop :=
  wf_cidr c /\ ~ (cf c = V4 /\ cl c = 0 /\ hb = 0%Z) /\
  match cf c with V4 => True | V6 => overlapb c v4zone = false end.

Definition good_field (fp : fieldparse) (hb : Z) : Prop :=
  match fp with FOk c => good_range c hb | _ => True end.

Definition good_obj (o : ccobj) : Prop := good_field (o_v4 o) (o_hb o) /\ good_field (o_v6 o) (o_hb o).

Lemma new_pool_PI c hb p : good_range c hb -> new_pool (cf c) (ca c) (cl c) hb = NewOk p -> PI (cf c) p.
Proof.
  intros (Hw & Hnot & Hclean) Hn. pose proof Hw as (Hw1 & Hw2 & Hw3).
  assert (Hg : wf_geom (pg p) /\ gf (pg p) = cf c /\ clean_geom (pg p) = true).
  { unfold new_pool in Hn.
    destruct (match cf c with V6 => true | V4 => false end && (16 <? Z.of_N (width (cf c)) - hb - Z.of_N (cl c))%Z)%bool eqn:E1; [discriminate|].
    destruct ((hb <? 0)%Z || (Z.of_N (width (cf c)) - hb <? Z.of_N (cl c))%Z)%bool eqn:E2; [discriminate|].
    inversion Hn; subst; clear Hn. cbn [pg].
    apply Bool.orb_false_iff in E2. destruct E2 as [E2a E2b]. apply Z.ltb_ge in E2a, E2b.
    split; [|split; [reflexivity|]].
    - unfold wf_geom, gW. cbn [gf gbase gclen gnlen]. unfold hostsz in Hw3.
      assert (Hn : Z.to_N (Z.of_N (width (cf c)) - hb) <= width (cf c)) by lia.
      split; [lia|]. split; [exact Hn|]. split; [exact Hw2|]. split; [exact Hw3|].
      destruct (cf c) eqn:Ef; cbn [width] in *.
      + intros [H0 H32]. apply Hnot. split; [reflexivity|]. split; [exact H0|lia].
      + cbn [andb] in E1. apply Z.ltb_ge in E1. clear - E1 E2a E2b. lia.
    - unfold clean_geom. cbn [gf grange gbase gclen]. destruct (cf c) eqn:Ef; [reflexivity|].
      apply Bool.negb_true_iff. unfold grange. cbn [gf gbase gclen].
      replace (mkCidr V6 (ca c) (cl c)) with c by (destruct c; cbn in *; subst; reflexivity). exact Hclean. }
  destruct Hg as (Hwg & Hf & Hc). split; [eapply new_pool_inv; eassumption|split; assumption].
Qed.

Lemma mk_pool_PI f fp hb op : good_field fp hb -> mk_pool f fp hb = Ok op -> forall p, op = Some p -> PI f p.
Proof.
  unfold mk_pool. intros Hg H p Hp. destruct fp as [| |c]; try (inversion H; subst; discriminate).
  destruct (negb (fam_eqb (cf c) f)) eqn:Ef; [discriminate|].
  apply Bool.negb_false_iff in Ef. apply fam_eqb_eq in Ef. subst f.
  destruct (new_pool (cf c) (ca c) (cl c) hb) as [q|] eqn:En; [|discriminate].
  inversion H as [Hop]. rewrite <- Hop in Hp. inversion Hp as [Hq]. rewrite <- Hq. eapply new_pool_PI; eassumption.
Qed.

Lemma create_set_inv o term st c : good_obj o -> create_set o term st = Ok c -> (cc_v4 c <> None \/ cc_v6 c <> None) -> EntryInv c.
Proof.
  unfold create_set. intros [G4 G6] H Hs.
  destruct (mk_pool V4 (o_v4 o) (o_hb o)) as [p4|e|] eqn:E4; try discriminate.
  destruct (mk_pool V6 (o_v6 o) (o_hb o)) as [p6|e|] eqn:E6; try discriminate.
  inversion H; subst. constructor; cbn.
  - intros p Hp. exact (mk_pool_PI V4 (o_v4 o) (o_hb o) p4 G4 E4 p Hp).
  - intros p Hp. exact (mk_pool_PI V6 (o_v6 o) (o_hb o) p6 G6 E6 p Hp).
  - exact Hs.
Qed.

Lemma map_set_inv m k c : MapInv m -> EntryInv c -> MapInv (map_set m k c).
Proof.
  intros M I x Hx. unfold map_set in Hx. destruct (find_key k m) as [l|] eqn:Ef.
  - apply all_entries_set_key in Hx. destruct Hx as [Hx|Hx]; [|apply M; exact Hx].
    apply in_app_or in Hx. destruct Hx as [Hx|[<-|[]]]; [apply M; eapply find_key_in; eassumption|exact I].
  - unfold all_entries in Hx. rewrite flat_map_app in Hx. apply in_app_or in Hx. destruct Hx as [Hx|Hx]; [apply M; exact Hx|].
    cbn in Hx. destruct Hx as [<-|[]]. exact I.
Qed.

Lemma create_cluster_cidr_inv m o term boot out m' r fx :
  MapInv m -> good_obj o -> create_cluster_cidr m o term boot out = (m', r, fx) -> MapInv m'.
Proof.
  unfold create_cluster_cidr. intros M G H.
  destruct (o_selkey o) as [k|]; [|inversion H; subst; exact M].
  destruct (create_set o term boot) as [c|e|] eqn:Ec; try (inversion H; subst; exact M).
  assert (Hm : (cc_v4 c <> None \/ cc_v6 c <> None) -> MapInv (if is_mapped m k (o_name o) then m else map_set m k c)).
  { intros Hs. destruct (is_mapped m k (o_name o)); [exact M|]. apply map_set_inv; [exact M|]. eapply create_set_inv; eassumption. }
  destruct (cc_v4 c) eqn:E4, (cc_v6 c) eqn:E6; try (inversion H; subst; exact M);
    (destruct boot; [|destruct (need_finalizer o); [destruct out|]]); inversion H; subst; try exact M;
    apply Hm; (left; discriminate) || (right; discriminate).
Qed.

Lemma delete_cluster_cidr_inv m o m' r : MapInv m -> delete_cluster_cidr m o = (m', r) -> MapInv m'.
Proof.
  unfold delete_cluster_cidr. intros M H. destruct (o_selkey o) as [k|]; [|inversion H; subst; exact M].
  destruct (find_key k m) as [l|] eqn:Ef; [|inversion H; subst; exact M].
  destruct (find_name (o_name o) l 0) as [[i c]|] eqn:En; [|inversion H; subst; exact M].
  destruct (find_name_spec _ _ _ _ _ En) as (_ & Hn & _). rewrite Nat.sub_0_r in Hn.
  assert (Ic : EntryInv c) by (apply M; eapply find_key_in; [exact Ef|eapply nth_error_In; exact Hn]).
  assert (M1 : MapInv (set_entry m (k, i) (with_term c true))) by (apply set_entry_inv; [exact M|apply with_term_inv; exact Ic]).
  destruct (cc_assoc c); [|inversion H; subst; exact M1].
  destruct l as [|c0 [|c1 l']]; [cbn in En; discriminate|..]; inversion H; subst; clear H.
  - intros x Hx. apply all_entries_del_key in Hx. apply M1. exact Hx.
  - intros x Hx. apply all_entries_set_key in Hx. destruct Hx as [Hx|Hx]; [|apply M1; exact Hx].
    apply in_remove_nth in Hx. apply in_set_nth in Hx. destruct Hx as [->|Hx]; [apply with_term_inv; exact Ic|].
    apply M. eapply find_key_in; eassumption.
Qed.

Lemma remove_deleted_inv m name : MapInv m -> MapInv (remove_deleted m name).
Proof.
  intros M x Hx. unfold remove_deleted, all_entries in Hx. apply in_flat_map in Hx. destruct Hx as ([k l] & Hkl & Hx).
  apply in_flat_map in Hkl. destruct Hkl as ([k0 l0] & Hin0 & Hkl).
  assert (Hl0 : forall y, In y l0 -> EntryInv y).
  { intros y Hy. apply M. unfold all_entries. apply in_flat_map. exists (k0, l0). split; assumption. }
  cbn [fst snd] in Hkl.
  assert (Hrd : forall y, In y (remove_deleted_in name l0) -> EntryInv y).
  { intros y Hy. unfold remove_deleted_in in Hy. destruct (find_name name l0 0) as [[i c]|] eqn:En; [|apply Hl0; exact Hy].
    destruct (find_name_spec _ _ _ _ _ En) as (_ & Hn & _). rewrite Nat.sub_0_r in Hn.
    destruct (cc_assoc c).
    - apply in_remove_nth in Hy. apply Hl0. exact Hy.
    - apply in_set_nth in Hy. destruct Hy as [->|Hy]; [apply with_term_inv; apply Hl0; eapply nth_error_In; exact Hn|apply Hl0; exact Hy]. }
  destruct (remove_deleted_in name l0) as [|y ys] eqn:Er; [destruct Hkl|].
  destruct Hkl as [E|[]]. inversion E; subst. apply Hrd. exact Hx.
Qed.

Theorem sync_cc_inv m key cached out m' r fx :
  MapInv m -> (forall o, cached = Some o -> good_obj o) -> sync_cc m key cached out = (m', r, fx) -> MapInv m'.
Proof.
  unfold sync_cc. intros M G H. destruct cached as [o|]; [|inversion H; subst; apply remove_deleted_inv; exact M].
  specialize (G o eq_refl). destruct (o_deleting o).
  - unfold reconcile_delete in H. destruct (delete_cluster_cidr m o) as [m1 r1] eqn:Ed.
    pose proof (delete_cluster_cidr_inv _ _ _ _ M Ed) as M1.
    destruct r1 as [[]|e|]; [destruct (has_str finalizer (o_fins o))|..]; inversion H; subst; exact M1.
  - unfold reconcile_create in H. destruct (need_finalizer o || negb (is_mapped_obj m o))%bool.
    + eapply create_cluster_cidr_inv; eassumption.
    + inversion H; subst. exact M.
Qed.

(* ---------- construction ---------- *)
Lemma filter_service_inv m svc : MapInv m -> wf_cidr svc -> MapInv (filter_service m svc).
Proof.
  intros M Hw x Hx. unfold filter_service, all_entries in Hx. apply in_flat_map in Hx. destruct Hx as ([k l] & Hkl & Hx).
  apply in_map_iff in Hkl. destruct Hkl as ([k0 l0] & E & Hin). cbn [fst snd] in E. injection E as Ek El. subst k l. cbn [snd] in Hx.
  apply in_map_iff in Hx. destruct Hx as (c & <- & Hc). apply occupy_service_inv; [|exact Hw].
  apply M. unfold all_entries. apply in_flat_map. exists (k0, l0). split; assumption.
Qed.

Lemma bootstrap_ccs_inv os : forall m outs m' fx, MapInv m -> Forall good_obj os -> bootstrap_ccs m os outs = (m', fx) -> MapInv m'.
Proof.
  induction os as [|o os IH]; intros m outs m' fx M G H; cbn in H; [inversion H; subst; exact M|].
  inversion G; subst.
  destruct (reconcile_bootstrap m o (match outs with x :: _ => x | [] => UOk end)) as [[m1 r1] fx1] eqn:E1.
  destruct (bootstrap_ccs m1 os (tl outs)) as [m2 fx2] eqn:E2. inversion H; subst.
  eapply IH; [|eassumption|exact E2]. unfold reconcile_bootstrap in E1. eapply create_cluster_cidr_inv; eassumption.
Qed.

Lemma occupy_nodes_inv po lab ns : forall m m' pan, MapInv m -> Forall wf_node ns -> occupy_nodes po lab m ns = (m', pan) -> MapInv m'.
Proof.
  induction ns as [|n ns IH]; intros m m' pan M Hw H; cbn in H; [inversion H; subst; exact M|].
  inversion Hw; subst. destruct (n_cidrs n) eqn:En; [eapply IH; eassumption|].
  destruct (occupy_cidrs po lab m n) as [m1 r1] eqn:Eo. pose proof (occupy_cidrs_inv _ _ _ _ _ _ M H2 Eo) as M1.
  destruct r1; [eapply IH; eassumption| eapply IH; eassumption|inversion H; subst; exact M1].
Qed.

Theorem construct_inv po lab ccs outs s1 s2 nodes m fx pan :
  Forall good_obj ccs -> Forall wf_node nodes ->
  (forall s, s1 = Some s -> wf_cidr s) -> (forall s, s2 = Some s -> wf_cidr s) ->
  construct po lab ccs outs s1 s2 nodes = (m, fx, pan) -> MapInv m.
Proof.
  unfold construct. intros G Hn H1 H2 H.
  destruct (bootstrap_ccs [] ccs outs) as [m1 fx1] eqn:Eb.
  assert (M0 : MapInv []) by (intros c Hc; cbn in Hc; destruct Hc).
  assert (M1 : MapInv m1) by (eapply bootstrap_ccs_inv; [exact M0|exact G|exact Eb]).
  set (m2 := match s1 with Some s => filter_service m1 s | None => m1 end) in *.
  assert (M2 : MapInv m2) by (unfold m2; destruct s1; [apply filter_service_inv; [exact M1|apply H1; reflexivity]|exact M1]).
  set (m3 := match s2 with Some s => filter_service m2 s | None => m2 end) in *.
  assert (M3 : MapInv m3) by (unfold m3; destruct s2; [apply filter_service_inv; [exact M2|apply H2; reflexivity]|exact M2]).
  destruct (occupy_nodes po lab m3 nodes) as [m4 p4] eqn:Eo. inversion H; subst.
  eapply occupy_nodes_inv; eassumption.
Qed.

(* ---------- C12: under the invariant no controller call panics ---------- *)
(* ordered_matching panics only if an entry has no pool at all *)
Lemma collect_items_has_pool po lab ls occ m : MapInv m -> forall items,
  collect_items po lab ls occ m = Some items -> forallb (fun it => has_pool (fst it)) items = true.
Proof.
  induction m as [|[k ents] m IH]; intros M items H; cbn [collect_items] in H; [inversion H; reflexivity|].
  destruct (po k) as [rs|]; [|discriminate]. destruct (match_reqs ls rs) as [ok cnt] eqn:Em.
  assert (M' : MapInv m) by (intros c Hc; apply M; cbn; apply in_or_app; right; exact Hc).
  destruct (collect_items po lab ls occ m) as [rest|] eqn:Er; [|discriminate].
  specialize (IH M' rest eq_refl).
  destruct ok; inversion H; subst; [|exact IH].
  rewrite forallb_app. apply andb_true_intro. split; [|exact IH]. apply forallb_forall. intros it Hit.
  apply in_map_iff in Hit. destruct Hit as ([i c] & <- & Hic). apply filter_In in Hic. destruct Hic as [Hic _].
  assert (Hc : In c ents).
  { clear - Hic. revert Hic. generalize 0%nat. induction ents as [|e ents IH]; intros n; cbn; [tauto|].
    intros [H|H]; [left; congruence|right; eapply IH; exact H]. }
  assert (I : EntryInv c) by (apply M; cbn; apply in_or_app; left; exact Hc).
  cbn [fst snd]. unfold item_of, has_pool. cbn. destruct (ei_some c I) as [H4|H6].
  - destruct (cc_v4 c); [reflexivity|congruence].
  - destruct (cc_v6 c); [destruct (cc_v4 c); reflexivity|congruence].
Qed.

Lemma ordered_matching_no_panic po lab m ls occ : MapInv m -> ordered_matching po lab m ls occ <> Panic.
Proof.
  intros M. unfold ordered_matching. destruct (collect_items po lab ls occ m) as [items|] eqn:E; [|discriminate].
  rewrite (collect_items_has_pool _ _ _ _ _ M _ E). discriminate.
Qed.
