(* Create_proofs.v -- "Create is only used for creating the default ClusterCIDR" as a theorem of the model: every ClusterCIDR
   object the API holds, the informer store shows, a notification carries or a worker has fetched has a non-empty resource
   version, so in every step of every history the only object the controller sends with Create is the one it built itself from
   its flags at start-up, named default-cluster-cidr. *)
From NIPAM Require Import Sys Alloc_proofs Prio_proofs Inv_proofs Sys_proofs World_proofs Coh_proofs Default_proofs.
From Coq Require Import Lia.
Open Scope N_scope.

Definition rvok (o : ccobj) : Prop := o_rv o <> 0.

Record RV (w : world) : Prop := {
  rv_api : forall o, In o (w_ccs w) -> rvok o;
  rv_store : forall o, In o (w_ccache w) -> rvok o;
  rv_feed : forall e, In e (w_cfeed w) -> rvok (cev_obj e);
  rv_fetch : forall wk key o, In (wk, (key, Some o)) (w_cfetch w) -> rvok o
}.

Lemma rv_same w w' : RV w -> w_ccs w' = w_ccs w -> w_ccache w' = w_ccache w -> w_cfeed w' = w_cfeed w -> w_cfetch w' = w_cfetch w -> RV w'.
Proof. intros [a b c d] E1 E2 E3 E4. constructor; rewrite ?E1, ?E2, ?E3, ?E4; assumption. Qed.

Lemma in_push_cev w e x : In x (push_cev w e) -> In x (w_cfeed w) \/ x = e.
Proof. unfold push_cev. destruct (w_synced w); [intros H; apply in_app_or in H; destruct H as [H|[<-|[]]]; auto|auto]. Qed.

Lemma rvok_succ (o : ccobj) n : rvok (with_rv o (n + 1)).
Proof. unfold rvok. cbn. lia. Qed.

Lemma in_put_cc a l x : In x (put_cc a l) -> x = a \/ In x l.
Proof.
  unfold put_cc. destruct (find_cc (o_name a) l).
  - intros H. apply in_map_iff in H. destruct H as (y & E & Hy). destruct (str_eqb (o_name y) (o_name a)); [left; symmetry; exact E|right; subst; exact Hy].
  - intros H. apply in_app_or in H. destruct H as [H|[<-|[]]]; auto.
Qed.
Lemma in_del_cc' name l x : In x (del_cc name l) -> In x l.
Proof. unfold del_cc. intros H. apply filter_In in H. apply H. Qed.

(* an API change of the ClusterCIDR objects: the new list and the pushed notification carry fresh resource versions *)
Lemma rv_api_change w ccs' rv e : RV w -> (forall o, In o ccs' -> rvok o) -> rvok (cev_obj e) ->
  RV (set_api w (w_nodes w) ccs' rv (w_nfeed w) (push_cev w e)).
Proof.
  intros [a b c d] H1 H2. constructor; cbn [set_api w_ccs w_ccache w_cfeed w_cfetch]; try assumption.
  intros x Hx. apply in_push_cev in Hx. destruct Hx as [Hx| ->]; [exact (c x Hx)|exact H2].
Qed.

Lemma apply_update_cc_rv w o out : RV w -> RV (apply_update_cc w o out).
Proof.
  intros R. unfold apply_update_cc. destruct out; try exact R;
    (destruct (find_cc (o_name o) (w_ccs w)) as [cur|] eqn:Ec; [|exact R]; destruct (negb (o_rv cur =? o_rv o)); [exact R|]);
    (match goal with |- context [if ?b then _ else _] => destruct b end; apply rv_api_change; try exact R; try apply rvok_succ;
     intros x Hx; [apply in_del_cc' in Hx; exact (rv_api w R x Hx)|apply in_put_cc in Hx; destruct Hx as [->|Hx]; [apply rvok_succ|exact (rv_api w R x Hx)]]).
Qed.
Lemma apply_create_cc_rv w o out : RV w -> RV (apply_create_cc w o out).
Proof.
  intros R. unfold apply_create_cc. destruct out; try exact R; (destruct (find_cc (o_name o) (w_ccs w)); [exact R|]);
    (apply rv_api_change; try exact R; try apply rvok_succ; intros x Hx; apply in_app_or in Hx; destruct Hx as [Hx|[<-|[]]]; [exact (rv_api w R x Hx)|apply rvok_succ]).
Qed.
Lemma apply_patch_rv w nm cs o : RV w -> RV (apply_patch w nm cs o).
Proof.
  intros R. unfold apply_patch. destruct o; try exact R; (destruct (find_anode nm (w_nodes w)) as [a|]; [|exact R]; destruct (an_cidrs a); [|exact R]);
    apply (rv_same w); try reflexivity; exact R.
Qed.
Lemma apply_effects_rv fx : forall w, RV w -> RV (apply_effects w fx).
Proof.
  induction fx as [|e fx IH]; intros w R; [exact R|]. destruct e as [nd cs po|? ?|? ?|o' out|o' out]; cbn [apply_effects]; try (apply IH; exact R).
  - apply IH. apply apply_patch_rv. exact R.
  - apply IH. apply apply_update_cc_rv. exact R.
  - apply IH. apply apply_create_cc_rv. exact R.
Qed.
Lemma rv_crashed w : RV w -> RV (crashed w).
Proof. intros [a b c d]. constructor; cbn; [exact a|intros o []|intros e []|intros wk key o []]. Qed.
Lemma after_call_rv {A} w (r : res A) m' : RV w -> RV (after_call w r m').
Proof. intros R. unfold after_call. destruct r; try (apply rv_crashed; exact R); apply (rv_same w); try reflexivity; exact R. Qed.

(* ---------- which objects are sent with Create ---------- *)
Lemma create_fx_create m o term boot out m' r fx o' uo :
  create_cluster_cidr m o term boot out = (m', r, fx) -> In (FxCreateCC o' uo) fx -> o_rv o = 0 /\ o_name o' = o_name o.
Proof.
  intros H Hin. pose proof (create_writes_only_own_finalizer _ _ _ _ _ _ _ _ H _ Hin) as (Hn & _).
  split; [|exact Hn]. unfold create_cluster_cidr in H.
  destruct (o_selkey o); [|inversion H; subst; destruct Hin].
  destruct (create_set o term boot) as [c|er|]; try (inversion H; subst; destruct Hin; fail).
  destruct (o_rv o =? 0) eqn:E; [apply N.eqb_eq; exact E|].
  exfalso. destruct (cc_v4 c), (cc_v6 c); try (inversion H; subst; destruct Hin; fail);
    destruct boot; try (destruct (need_finalizer o)); try (destruct out); inversion H; subst; clear H;
    repeat (destruct Hin as [Hin|Hin]; [discriminate Hin|]); destruct Hin.
Qed.

Lemma sync_cc_no_create m key o out m' r fx : rvok o -> sync_cc m key (Some o) out = (m', r, fx) -> forall o' uo, ~ In (FxCreateCC o' uo) fx.
Proof.
  intros Hr H o' uo Hin. unfold sync_cc in H. destruct (o_deleting o).
  - pose proof (delete_writes_only_own_finalizer _ _ _ _ _ _ H _ Hin) as Hs. destruct Hs.
  - unfold reconcile_create in H. destruct (need_finalizer o || negb (is_mapped_obj m o))%bool; [|inversion H; subst; destruct Hin].
    destruct (create_fx_create _ _ _ _ _ _ _ _ _ _ H Hin) as [E _]. exact (Hr E).
Qed.

Lemma bootstrap_creates os : forall m outs m' fx, bootstrap_ccs m os outs = (m', fx) ->
  forall o' uo, In (FxCreateCC o' uo) fx -> exists o, In o os /\ o_rv o = 0 /\ o_name o' = o_name o.
Proof.
  induction os as [|o os IH]; intros m outs m' fx H o' uo Hin; cbn in H; [inversion H; subst; destruct Hin|].
  destruct (reconcile_bootstrap m o (match outs with x :: _ => x | [] => UOk end)) as [[m1 r1] fx1] eqn:E1.
  destruct (bootstrap_ccs m1 os (tl outs)) as [m2 fx2] eqn:E2. inversion H; subst.
  apply in_app_or in Hin. destruct Hin as [Hin|Hin].
  - exists o. split; [left; reflexivity|]. exact (create_fx_create _ _ _ _ _ _ _ _ _ _ E1 Hin).
  - destruct (IH _ _ _ _ E2 _ _ Hin) as (x & Hx & Hs). exists x. split; [right; exact Hx|exact Hs].
Qed.

Lemma with_default_rv0 dp ccs o : (forall x, In x ccs -> rvok x) -> In o (with_default dp ccs) -> o_rv o = 0 -> o_name o = default_name.
Proof.
  intros Hr Hin E. unfold with_default in Hin. destruct dp as [|cm dp']; [exfalso; exact (Hr o Hin E)|].
  destruct (existsb _ ccs); [exfalso; exact (Hr o Hin E)|]. apply in_app_or in Hin. destruct Hin as [Hin|[<-|[]]]; [exfalso; exact (Hr o Hin E)|].
  apply default_obj_shape.
Qed.

Section CreateStep.
  Variable po : parse_oracle.
  Variable lab : label_oracle.

  Lemma run_cc_sync_rv w key cached out : RV w -> (forall o, cached = Some o -> rvok o) ->
    RV (fst (run_cc_sync w key cached out)) /\ forall o' uo, ~ In (FxCreateCC o' uo) (ob_fx (snd (run_cc_sync w key cached out))).
  Proof.
    intros R Hc. unfold run_cc_sync. destruct (w_ctl w) as [m|]; [|split; [exact R|intros o' uo []]].
    match goal with |- context [sync_cc m key cached ?o] => destruct (sync_cc m key cached o) as [[m' r] fx] eqn:Es end. cbn [fst snd ob_fx].
    split.
    - apply apply_effects_rv. pose proof (after_call_rv w r m' R) as A.
      destruct cached as [o|]; [|exact A]. match goal with |- context [if ?b then _ else _] => destruct b end; [|exact A].
      apply (rv_same (after_call w r m')); try reflexivity; exact A.
    - destruct cached as [o|]; [eapply sync_cc_no_create; [apply Hc; reflexivity|exact Es]|]. cbn in Es. inversion Es; subst. intros o' uo [].
  Qed.

  Lemma run_node_sync_rv w cached key outs : RV w -> RV (fst (run_node_sync po lab w cached key outs)).
  Proof.
    intros R. unfold run_node_sync. destruct (w_ctl w) as [m|]; [|exact R].
    destruct (sync_node po lab (svc_list (w_svc w)) (can_patch w key) (api_same w key) (held_cidrs (w_ncache w)) m cached (find_node key (w_ncache w)) outs) as [[m' r] fx].
    cbn [fst]. apply apply_effects_rv. apply after_call_rv. exact R.
  Qed.

  Lemma handle_nevent_rv w e : RV w -> RV (fst (handle_nevent w e)).
  Proof.
    intros R. unfold handle_nevent. destruct e as [n|n|n]; cbn [set_caches w_ctl w_svc].
    - destruct (w_ctl w); cbn [fst]; apply (rv_same w); try reflexivity; exact R.
    - destruct (w_ctl w); cbn [fst]; apply (rv_same w); try reflexivity; exact R.
    - destruct (w_ctl w) as [m|]; [|cbn [fst]; apply (rv_same w); try reflexivity; exact R].
      destruct (release_cidr (svc_list (w_svc w)) m n) as [m' r]. destruct r; cbn [fst]; try (apply rv_crashed); apply (rv_same w); try reflexivity; exact R.
  Qed.
  Lemma deliver_all_n_rv es : forall w acc, RV w -> RV (fst (deliver_all_n w es acc)).
  Proof.
    induction es as [|e es IH]; intros w acc R; cbn [deliver_all_n]; [exact R|].
    pose proof (handle_nevent_rv w e R) as R1. destruct (handle_nevent w e) as [w1 ob]. cbn [fst] in *.
    destruct (ob_res ob =? 3); [exact R1|apply IH; exact R1].
  Qed.
  Lemma handle_cevent_rv w e : RV w -> rvok (cev_obj e) -> RV (fst (handle_cevent w e)).
  Proof.
    intros [a b c d] He. unfold handle_cevent.
    destruct e as [o|o|o]; cbn [cev_obj] in He; cbn [set_caches w_ctl]; destruct (w_ctl w); cbn [fst];
      constructor; cbn; try assumption; intros x Hx;
      first [apply in_put_cc in Hx; destruct Hx as [->|Hx]; [exact He|exact (b x Hx)]|apply in_del_cc' in Hx; exact (b x Hx)].
  Qed.
  Lemma deliver_all_c_rv es : forall w, RV w -> (forall e, In e es -> rvok (cev_obj e)) -> RV (deliver_all_c w es).
  Proof.
    induction es as [|e es IH]; intros w R H; cbn [deliver_all_c]; [exact R|]. apply IH; [apply handle_cevent_rv; [exact R|apply H; left; reflexivity]|intros x Hx; apply H; right; exact Hx].
  Qed.

  (* every step keeps the resource versions non-empty, and sends with Create nothing but the default ClusterCIDR, at start-up *)
  Theorem step_rv w o : RV w ->
    RV (fst (step po lab w o)) /\
    forall o' uo, In (FxCreateCC o' uo) (ob_fx (snd (step po lab w o))) -> o_name o' = default_name /\ exists s1 s2 outs dp, o = Construct s1 s2 outs dp.
  Proof.
    intros R. assert (Hnone : forall W, RV W -> RV W /\ forall o' uo, In (FxCreateCC o' uo) (ob_fx no_obs) -> o_name o' = default_name /\ exists s1 s2 outs dp, o = Construct s1 s2 outs dp)
      by (intros W RW; split; [exact RW|intros o' uo []]).
    destruct o; cbn [step].
    - destruct (find_anode name (w_nodes w)); apply Hnone; [exact R|apply (rv_same w); try reflexivity; exact R].
    - destruct (find_anode name (w_nodes w)); apply Hnone; [apply (rv_same w); try reflexivity; exact R|exact R].
    - destruct (find_anode name (w_nodes w)); apply Hnone; [apply (rv_same w); try reflexivity; exact R|exact R].
    - destruct (find_anode name (w_nodes w)); apply Hnone; [apply (rv_same w); try reflexivity; exact R|exact R].
    - (* UCreateCC *)
      destruct (find_cc (o_name o) (w_ccs w)); apply Hnone; [exact R|]. apply rv_api_change; [exact R| |apply rvok_succ].
      intros x Hx. apply in_app_or in Hx. destruct Hx as [Hx|[<-|[]]]; [exact (rv_api w R x Hx)|apply rvok_succ].
    - (* UDeleteCC *)
      destruct (find_cc name (w_ccs w)) as [c|]; [|apply Hnone; exact R]. destruct (o_fins c).
      + apply Hnone. apply rv_api_change; [exact R|intros x Hx; apply in_del_cc' in Hx; exact (rv_api w R x Hx)|apply rvok_succ].
      + destruct (o_deleting c); apply Hnone; [exact R|]. apply rv_api_change; [exact R| |apply rvok_succ].
        intros x Hx. apply in_put_cc in Hx. destruct Hx as [->|Hx]; [apply rvok_succ|exact (rv_api w R x Hx)].
    - (* USetCCFinalizers *)
      destruct (find_cc name (w_ccs w)) as [c|]; [|apply Hnone; exact R].
      match goal with |- context [if ?b then _ else _] => destruct b end; apply Hnone; apply rv_api_change; try exact R; try apply rvok_succ;
        intros x Hx; [apply in_del_cc' in Hx; exact (rv_api w R x Hx)|apply in_put_cc in Hx; destruct Hx as [->|Hx]; [apply rvok_succ|exact (rv_api w R x Hx)]].
    - (* DeliverNode *)
      destruct (w_nfeed w) as [|e rest]; [apply Hnone; exact R|].
      split; [apply handle_nevent_rv; apply (rv_same w); try reflexivity; exact R|]. rewrite handle_nevent_fx. intros o' uo [].
    - destruct (w_nfeed w) as [|[n|n|n] rest]; try (apply Hnone; exact R).
      split; [apply handle_nevent_rv; apply (rv_same w); try reflexivity; exact R|]. rewrite handle_nevent_fx. intros o' uo [].
    - (* DeliverCC *)
      destruct (w_cfeed w) as [|e rest] eqn:Ef; [apply Hnone; exact R|].
      split; [|unfold handle_cevent; destruct e; cbn; destruct (w_ctl w); intros o' uo []].
      apply handle_cevent_rv; [|apply (rv_feed w R); rewrite Ef; left; reflexivity].
      destruct R as [a b c d]. constructor; cbn; try assumption. intros x Hx. apply c. rewrite Ef. right. exact Hx.
    - destruct (w_ctl w); apply Hnone; [apply (rv_same w); try reflexivity; exact R|exact R].
    - destruct (w_ctl w); apply Hnone; [apply (rv_same w); try reflexivity; exact R|exact R].
    - (* RelistNodes *)
      destruct (w_synced w); [|apply Hnone; exact R].
      split; [apply deliver_all_n_rv; apply (rv_same w); try reflexivity; exact R|]. rewrite deliver_all_n_fx. intros o' uo [].
    - (* RelistCCs *)
      destruct (w_synced w); [|apply Hnone; exact R]. apply Hnone. apply deliver_all_c_rv.
      + destruct R as [a b c d]. constructor; cbn; try assumption. intros e [].
      + intros e He. unfold relist_cevents in He. apply in_app_or in He. destruct He as [He|He].
        * apply in_map_iff in He. destruct He as (x & <- & Hx). cbn. exact (rv_api w R x Hx).
        * apply in_flat_map in He. destruct He as (k & _ & He). destruct (find_cc k (w_ccs w)); [destruct He|].
          destruct (find_cc k (w_ccache w)) as [x|] eqn:Ex; [|destruct He]. destruct He as [<-|[]]. cbn. exact (rv_store w R x (find_cc_in _ _ _ Ex)).
    - apply Hnone. apply (rv_same w); try reflexivity; exact R.
    - (* RunNode *)
      destruct (find (fun x => fst x =? w0) (w_nfetch w)) as [[wk [key cached]]|]; [|apply Hnone; exact R].
      split; [apply run_node_sync_rv; apply (rv_same w); try reflexivity; exact R|].
      intros o' uo Hin. exfalso. unfold run_node_sync in Hin. cbn [set_fetch w_ctl] in Hin. destruct (w_ctl w) as [m|]; [|destruct Hin].
      match type of Hin with context [sync_node ?a ?b ?c ?d ?e ?f ?g ?h ?i ?j] => destruct (sync_node a b c d e f g h i j) as [[m' r] fx] eqn:Es end.
      cbn [snd ob_fx] in Hin. pose proof (sync_node_no_cc_write _ _ _ _ _ _ _ _ _ _ _ _ _ Es _ Hin) as Hp. discriminate Hp.
    - (* FetchCC *)
      apply Hnone. destruct R as [a b c d]. constructor; cbn; try assumption. intros wk key0 o [E|Ho].
      + inversion E; subst. exact (b o (find_cc_in _ _ _ H2)).
      + apply filter_In in Ho. exact (d wk key0 o (proj1 Ho)).
    - (* RunCC *)
      destruct (find (fun x => fst x =? w0) (w_cfetch w)) as [[wk [key cached]]|] eqn:Efd; [|apply Hnone; exact R].
      apply find_some in Efd. destruct Efd as [Hin _].
      match goal with |- context [run_cc_sync ?W key cached out] => destruct (run_cc_sync_rv W key cached out) as [A B] end.
      + destruct R as [ra rb rc rd]. constructor; cbn; try assumption. intros wk' key' o Ho. apply filter_In in Ho. exact (rd wk' key' o (proj1 Ho)).
      + intros o ->. exact (rv_fetch w R wk key o Hin).
      + split; [exact A|]. intros o' uo Hc. destruct (B o' uo Hc).
    - (* ProcNode *)
      destruct (w_ctl w) as [m|] eqn:Em; [|apply Hnone; exact R]. destruct (q_ready (w_nq w)) as [|key rest]; [apply Hnone; exact R|].
      match goal with |- context [run_node_sync po lab ?w1 ?c ?k ?o] =>
        pose proof (run_node_sync_rv w1 c k o ltac:(apply (rv_same w); try reflexivity; exact R)) as R2;
        assert (Hfx : forall o' uo, ~ In (FxCreateCC o' uo) (ob_fx (snd (run_node_sync po lab w1 c k o)))) end.
      { intros o' uo Hin. unfold run_node_sync in Hin. cbn [set_queues w_ctl] in Hin. rewrite Em in Hin.
        match type of Hin with context [sync_node ?a ?b ?c ?d ?e ?f ?g ?h ?i ?j] => destruct (sync_node a b c d e f g h i j) as [[m' r] fx] eqn:Es end.
        cbn [snd ob_fx] in Hin. pose proof (sync_node_no_cc_write _ _ _ _ _ _ _ _ _ _ _ _ _ Es _ Hin) as Hp. discriminate Hp. }
      match goal with |- context [run_node_sync po lab ?w1 ?c ?k ?o] => destruct (run_node_sync po lab w1 c k o) as [w2 ob2] end. cbn [fst snd] in *.
      destruct (ob_res ob2 =? 2); cbn [fst snd ob_fx]; (split; [first [apply (rv_same w2); try reflexivity; exact R2|exact R2]|intros o' uo Hc; destruct (Hfx o' uo Hc)]).
    - (* ProcCC *)
      destruct (w_ctl w) as [m|] eqn:Em; [|apply Hnone; exact R]. destruct (q_ready (w_cq w)) as [|key rest]; [apply Hnone; exact R|].
      match goal with |- context [run_cc_sync ?w1 ?k ?c ?o] => destruct (run_cc_sync_rv w1 k c o) as [A B] end.
      + apply (rv_same w); try reflexivity; exact R.
      + intros o Ho. cbn [set_queues w_ccache] in Ho. exact (rv_store w R o (find_cc_in _ _ _ Ho)).
      + match goal with |- context [run_cc_sync ?w1 ?k ?c ?o] => destruct (run_cc_sync w1 k c o) as [w2 ob2] end. cbn [fst snd] in *.
        destruct (ob_res ob2 =? 2); cbn [fst snd ob_fx]; (split; [first [apply (rv_same w2); try reflexivity; exact A|exact A]|intros o' uo Hc; destruct (B o' uo Hc)]).
    - apply Hnone. apply (rv_same w); try reflexivity; exact R.
    - apply Hnone. apply rv_crashed. exact R.
    - (* Construct *)
      destruct (w_ctl w); [apply Hnone; exact R|].
      destruct (construct po lab (with_default dp (w_ccs w)) outs svc1 svc2 (map node_view (w_nodes w))) as [[m fx] pan] eqn:Ec. cbn [fst snd ob_fx].
      split.
      + apply apply_effects_rv. destruct R as [a b c d]. constructor; cbn; [exact a|intros o []|intros e []|intros wk key o []].
      + intros o' uo Hin. split; [|exists svc1, svc2, outs, dp; reflexivity].
        unfold construct in Ec. destruct (bootstrap_ccs [] (with_default dp (w_ccs w)) outs) as [m1 fx1] eqn:Eb.
        match type of Ec with context [occupy_nodes po lab ?m3 ?ns] => destruct (occupy_nodes po lab m3 ns) as [m4 p4] end.
        inversion Ec; subst. destruct (bootstrap_creates _ _ _ _ _ Eb _ _ Hin) as (x & Hx & Hr0 & Hn). rewrite Hn.
        eapply with_default_rv0; [exact (rv_api w R)|exact Hx|exact Hr0].
    - (* StartInformers *)
      destruct (w_ctl w) as [m0|]; [|apply Hnone; exact R]. destruct (w_synced w); apply Hnone; [exact R|].
      destruct R as [ra rb rc rd]. constructor; cbn; try assumption. intros e [].
  Qed.

  Theorem run_rv ops : forall w, RV w -> RV (run po lab w ops).
  Proof. induction ops as [|o ops IH]; intros w R; [exact R|]. unfold run. cbn [fold_left]. apply IH. apply step_rv. exact R. Qed.

  Lemma rv_init : RV init_world.
  Proof. constructor; cbn; [intros o []|intros o []|intros e []|intros wk key o []]. Qed.

  (* "Create is only used for creating the default ClusterCIDR" *)
  Theorem only_the_default_clustercidr_is_created ops o o' uo :
    In (FxCreateCC o' uo) (ob_fx (snd (step po lab (run po lab init_world ops) o))) ->
    o_name o' = default_name /\ exists s1 s2 outs dp, o = Construct s1 s2 outs dp.
  Proof. apply step_rv. apply run_rv. apply rv_init. Qed.
End CreateStep.
