(* Prio_proofs.v -- Less is a strict order, total on items whose five keys differ; the sorted
   sequence does not depend on the order in which items were pushed (C07). *)
From NIPAM Require Import Prio.
From Coq Require Import Lia Permutation Sorted.
Open Scope N_scope.

(* ---------- strings ---------- *)
Lemma str_eqb_eq a b : str_eqb a b = true <-> a = b.
Proof.
  revert b. induction a as [|x a IH]; intros [|y b]; cbn; split; try congruence; try discriminate.
  - intros H. apply andb_prop in H. destruct H as [H1 H2]. apply N.eqb_eq in H1. apply IH in H2. congruence.
  - intros H. inversion H; subst. rewrite N.eqb_refl. apply IH. reflexivity.
Qed.

Lemma str_eqb_refl a : str_eqb a a = true.
Proof. apply str_eqb_eq. reflexivity. Qed.

Lemma str_ltb_irrefl a : str_ltb a a = false.
Proof. induction a as [|x a IH]; cbn; [reflexivity|]. rewrite N.ltb_irrefl. exact IH. Qed.

Lemma str_ltb_trans a : forall b c, str_ltb a b = true -> str_ltb b c = true -> str_ltb a c = true.
Proof.
  induction a as [|x a IH]; intros [|y b] [|z c]; cbn; try congruence.
  destruct (N.ltb_spec x y), (N.ltb_spec y x), (N.ltb_spec y z), (N.ltb_spec z y), (N.ltb_spec x z), (N.ltb_spec z x);
    try congruence; try lia. intros. eapply IH; eassumption.
Qed.

Lemma str_ltb_total a : forall b, a <> b -> str_ltb a b = true \/ str_ltb b a = true.
Proof.
  induction a as [|x a IH]; intros [|y b] Hne; cbn; try tauto; try congruence.
  destruct (N.ltb_spec x y), (N.ltb_spec y x); try tauto; try lia.
  assert (x = y) by lia. subst. apply IH. congruence.
Qed.

Lemma str_ltb_asym a b : str_ltb a b = true -> str_ltb b a = false.
Proof.
  intros H. destruct (str_ltb b a) eqn:E; [|reflexivity].
  pose proof (str_ltb_trans _ _ _ H E) as T. rewrite str_ltb_irrefl in T. discriminate.
Qed.

(* ---------- Less ---------- *)
Ltac less_cases :=
  repeat match goal with
  | |- context [N.eqb ?a ?b] => destruct (N.eqb_spec a b); cbn [negb]
  | |- context [N.ltb ?a ?b] => destruct (N.ltb_spec a b)
  | |- context [str_eqb ?a ?b] => let E := fresh "E" in destruct (str_eqb a b) eqn:E; cbn [negb]; [apply str_eqb_eq in E|]
  | H : context [N.eqb ?a ?b] |- _ => destruct (N.eqb_spec a b); cbn [negb] in H
  | H : context [N.ltb ?a ?b] |- _ => destruct (N.ltb_spec a b)
  | H : context [str_eqb ?a ?b] |- _ => let E := fresh "E" in destruct (str_eqb a b) eqn:E; cbn [negb] in H; [apply str_eqb_eq in E|]
  end.

Theorem less_irrefl a : less a a = false.
Proof.
  unfold less. rewrite !N.eqb_refl, str_eqb_refl. cbn. apply str_ltb_irrefl.
Qed.

Lemma str_neq_eqb a b : str_eqb a b = false -> a <> b.
Proof. intros H E. subst. rewrite str_eqb_refl in H. discriminate. Qed.

Theorem less_trans a b c : less a b = true -> less b c = true -> less a c = true.
Proof.
  unfold less. generalize (it_match a) (it_match b) (it_match c) (max_allocatable a) (max_allocatable b) (max_allocatable c)
    (node_mask_size a) (node_mask_size b) (node_mask_size c) (it_sel a) (it_sel b) (it_sel c) (cidr_label a) (cidr_label b) (cidr_label c).
  intros m1 m2 m3 a1 a2 a3 n1 n2 n3 s1 s2 s3 l1 l2 l3 H1 H2.
  destruct (N.eqb_spec m1 m2), (N.eqb_spec m2 m3), (N.eqb_spec m1 m3); cbn [negb] in *; try lia;
    try (apply N.ltb_lt in H1); try (apply N.ltb_lt in H2); try (apply N.ltb_lt; lia); try lia.
  destruct (N.eqb_spec a1 a2), (N.eqb_spec a2 a3), (N.eqb_spec a1 a3); cbn [negb] in *; try lia;
    try (apply N.ltb_lt in H1); try (apply N.ltb_lt in H2); try (apply N.ltb_lt; lia); try lia.
  destruct (N.eqb_spec n1 n2), (N.eqb_spec n2 n3), (N.eqb_spec n1 n3); cbn [negb] in *; try lia;
    try (apply N.ltb_lt in H1); try (apply N.ltb_lt in H2); try (apply N.ltb_lt; lia); try lia.
  destruct (str_eqb s1 s2) eqn:E12, (str_eqb s2 s3) eqn:E23, (str_eqb s1 s3) eqn:E13; cbn [negb] in *;
    try (apply str_eqb_eq in E12); try (apply str_eqb_eq in E23); try (apply str_eqb_eq in E13); subst;
    try (rewrite str_eqb_refl in *; discriminate); try assumption.
  - eapply str_ltb_trans; eassumption.
  - rewrite (str_ltb_asym _ _ H1) in H2. discriminate.
  - eapply str_ltb_trans; eassumption.
Qed.

Theorem less_asym a b : less a b = true -> less b a = false.
Proof.
  intros H. destruct (less b a) eqn:E; [|reflexivity].
  pose proof (less_trans _ _ _ H E) as T. rewrite less_irrefl in T. discriminate.
Qed.

Theorem less_total a b : key a <> key b -> less a b = true \/ less b a = true.
Proof.
  unfold key, less. generalize (it_match a) (it_match b) (max_allocatable a) (max_allocatable b)
    (node_mask_size a) (node_mask_size b) (it_sel a) (it_sel b) (cidr_label a) (cidr_label b).
  intros m1 m2 a1 a2 n1 n2 s1 s2 l1 l2 Hne.
  destruct (N.eqb_spec m1 m2), (N.eqb_spec m2 m1); cbn [negb]; try lia; [|rewrite !N.ltb_lt; lia].
  destruct (N.eqb_spec a1 a2), (N.eqb_spec a2 a1); cbn [negb]; try lia; [|rewrite !N.ltb_lt; lia].
  destruct (N.eqb_spec n1 n2), (N.eqb_spec n2 n1); cbn [negb]; try lia; [|rewrite !N.ltb_lt; lia].
  destruct (str_eqb s1 s2) eqn:E12; [apply str_eqb_eq in E12; subst; rewrite str_eqb_refl; cbn [negb]|].
  - apply str_ltb_total. congruence.
  - assert (E21 : str_eqb s2 s1 = false).
    { destruct (str_eqb s2 s1) eqn:E; [|reflexivity]. apply str_eqb_eq in E. subst. rewrite str_eqb_refl in E12. discriminate. }
    rewrite E21. cbn [negb]. apply str_ltb_total. apply str_neq_eqb. exact E12.
Qed.

(* the documented levels P0..P4 *)
Theorem less_levels a b :
  less a b = true <->
  (it_match b < it_match a) \/
  (it_match a = it_match b /\ max_allocatable a < max_allocatable b) \/
  (it_match a = it_match b /\ max_allocatable a = max_allocatable b /\ node_mask_size b < node_mask_size a) \/
  (it_match a = it_match b /\ max_allocatable a = max_allocatable b /\ node_mask_size a = node_mask_size b /\
     it_sel a <> it_sel b /\ str_ltb (it_sel a) (it_sel b) = true) \/
  (it_match a = it_match b /\ max_allocatable a = max_allocatable b /\ node_mask_size a = node_mask_size b /\
     it_sel a = it_sel b /\ str_ltb (cidr_label a) (cidr_label b) = true).
Proof.
  unfold less. generalize (it_match a) (it_match b) (max_allocatable a) (max_allocatable b)
    (node_mask_size a) (node_mask_size b) (it_sel a) (it_sel b) (cidr_label a) (cidr_label b).
  intros m1 m2 a1 a2 n1 n2 s1 s2 l1 l2.
  destruct (N.eqb_spec m1 m2); cbn [negb]; [|rewrite N.ltb_lt; split; [intros H; left; exact H|intros [H|[H|[H|[H|H]]]]; [exact H|lia..]]].
  destruct (N.eqb_spec a1 a2); cbn [negb]; [|rewrite N.ltb_lt; split; [intros H; right; left; split; assumption|intros [H|[H|[H|[H|H]]]]; lia]].
  destruct (N.eqb_spec n1 n2); cbn [negb]; [|rewrite N.ltb_lt; split; [intros H; right; right; left; repeat split; assumption|intros [H|[H|[H|[H|H]]]]; lia]].
  destruct (str_eqb s1 s2) eqn:E; cbn [negb].
  - apply str_eqb_eq in E. split.
    + intros H. right; right; right; right. repeat split; assumption.
    + intros [H|[H|[H|[H|H]]]]; try lia; [destruct H as (_ & _ & _ & Hne & _); congruence|apply H].
  - apply str_neq_eqb in E. split.
    + intros H. right; right; right; left. repeat split; assumption.
    + intros [H|[H|[H|[H|H]]]]; try lia; [apply H|destruct H as (_ & _ & _ & He & _); congruence].
Qed.

(* Less depends on the items only through their five keys *)
Theorem less_key a a' b b' : key a = key a' -> key b = key b' -> less a b = less a' b'.
Proof. unfold key, less. intros H1 H2. inversion H1. inversion H2. congruence. Qed.

(* ---------- sorting: the output is a sorted permutation, and it is unique ---------- *)
Section SortFacts.
  Context {A : Type} (lt : A -> A -> bool).
  Hypothesis lt_trans : forall a b c, lt a b = true -> lt b c = true -> lt a c = true.
  Hypothesis lt_irrefl : forall a, lt a a = false.

  Definition ltP a b := lt a b = true.

  Lemma insert_perm x l : Permutation (x :: l) (insert_by lt x l).
  Proof.
    induction l as [|y l IH]; cbn; [reflexivity|]. destruct (lt y x); [|reflexivity].
    rewrite perm_swap. constructor. exact IH.
  Qed.

  Lemma sort_perm l : Permutation l (sort_by lt l).
  Proof.
    induction l as [|x l IH]; cbn; [constructor|]. rewrite <- insert_perm. constructor. exact IH.
  Qed.

  (* sortedness needs totality on the elements at hand *)
  Definition total_on (l : list A) := forall a b, In a l -> In b l -> a <> b -> lt a b = true \/ lt b a = true.

  Lemma insert_sorted x l :
    (forall y, In y l -> x <> y -> lt x y = true \/ lt y x = true) -> ~ In x l ->
    StronglySorted ltP l -> StronglySorted ltP (insert_by lt x l).
  Proof.
    intros Htot Hnin Hs. induction Hs as [|y l Hs IH Hall]; cbn.
    - constructor; constructor.
    - destruct (lt y x) eqn:E.
      + constructor.
        * apply IH; [intros z Hz; apply Htot; right; exact Hz|intros Hin; apply Hnin; right; exact Hin].
        * rewrite Forall_forall in *. intros z Hz.
          apply (Permutation_in _ (Permutation_sym (insert_perm x l))) in Hz. destruct Hz as [<-|Hz]; [exact E|apply Hall; exact Hz].
      + assert (Hxy : lt x y = true).
        { destruct (Htot y (or_introl eq_refl)) as [H|H]; [intros ->; apply Hnin; left; reflexivity|exact H|congruence]. }
        constructor; [constructor; assumption|]. constructor; [exact Hxy|].
        rewrite Forall_forall in *. intros z Hz. apply (lt_trans _ _ _ Hxy). apply Hall. exact Hz.
  Qed.

  Lemma sort_sorted l : NoDup l -> total_on l -> StronglySorted ltP (sort_by lt l).
  Proof.
    induction l as [|x l IH]; intros Hnd Htot; cbn; [constructor|].
    inversion Hnd as [|? ? Hx Hl]; subst.
    apply insert_sorted.
    - intros y Hy Hne. apply (Permutation_in _ (Permutation_sym (sort_perm l))) in Hy.
      apply Htot; [left; reflexivity|right; exact Hy|exact Hne].
    - intros Hin. apply Hx. apply (Permutation_in _ (Permutation_sym (sort_perm l))). exact Hin.
    - apply IH; [exact Hl|]. intros a b Ha Hb. apply Htot; right; assumption.
  Qed.

  (* two sorted lists with the same elements are equal *)
  Lemma sorted_perm_unique l1 : forall l2,
    StronglySorted ltP l1 -> StronglySorted ltP l2 -> Permutation l1 l2 -> l1 = l2.
  Proof.
    induction l1 as [|x l1 IH]; intros l2 H1 H2 Hp.
    - apply Permutation_nil in Hp. congruence.
    - destruct l2 as [|y l2]; [apply Permutation_sym, Permutation_nil in Hp; discriminate|].
      inversion H1 as [|? ? Hs1 Ha1]; subst. inversion H2 as [|? ? Hs2 Ha2]; subst.
      rewrite Forall_forall in Ha1, Ha2.
      assert (Hxy : x = y).
      { assert (Hx : In x (y :: l2)) by (apply (Permutation_in _ Hp); left; reflexivity).
        assert (Hy : In y (x :: l1)) by (apply (Permutation_in _ (Permutation_sym Hp)); left; reflexivity).
        destruct Hx as [->|Hx]; [reflexivity|]. destruct Hy as [->|Hy]; [reflexivity|].
        exfalso. specialize (Ha1 _ Hy). specialize (Ha2 _ Hx). unfold ltP in *.
        pose proof (lt_trans _ _ _ Ha1 Ha2) as T. rewrite lt_irrefl in T. discriminate. }
      subst y. f_equal. apply IH; [assumption|assumption|]. apply Permutation_cons_inv in Hp. exact Hp.
  Qed.

  Theorem sort_unique l l' :
    NoDup l -> total_on l -> Permutation l l' -> sort_by lt l = sort_by lt l'.
  Proof.
    intros Hnd Htot Hp.
    assert (Hnd' : NoDup l') by (eapply Permutation_NoDup; eassumption).
    assert (Htot' : total_on l').
    { intros a b Ha Hb. apply Htot; apply (Permutation_in _ (Permutation_sym Hp)); assumption. }
    apply sorted_perm_unique; [apply sort_sorted; assumption|apply sort_sorted; assumption|].
    rewrite <- (sort_perm l), <- (sort_perm l'). exact Hp.
  Qed.

  (* the head of the sorted list is the minimum *)
  Lemma sort_head_min l x rest :
    NoDup l -> total_on l -> sort_by lt l = x :: rest -> forall y, In y l -> y <> x -> lt x y = true.
  Proof.
    intros Hnd Htot Hs y Hy Hne. pose proof (sort_sorted l Hnd Htot) as S. rewrite Hs in S.
    inversion S as [|? ? _ Hall]; subst. rewrite Forall_forall in Hall. apply Hall.
    apply (Permutation_in _ (sort_perm l)) in Hy. rewrite Hs in Hy. destruct Hy as [<-|Hy]; [congruence|exact Hy].
  Qed.
End SortFacts.
