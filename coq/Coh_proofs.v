(* Coh_proofs.v -- informer coherence (E2 made a theorem of the model): in every world reachable without a node relist,
   replaying the pending node notifications onto the node store yields exactly the API objects.  Hence delivering the
   pending notifications empties the feed and leaves the store equal to the API objects: a world in which the controller
   and the informers run becomes QUIET by draining the feed, and the convergence theorem of C11 applies. *)
From NIPAM Require Import Sys Geom_proofs Pool_proofs Prio_proofs Alloc_proofs Inv_proofs Sys_proofs World_proofs Complete_proofs Resv_proofs Path_proofs NoPanic_proofs Hist_proofs Hist2_proofs Hist3_proofs Hist4_proofs Store_proofs Progress_proofs Conv_proofs.
From Coq Require Import Lia.
Open Scope N_scope.

Fixpoint replay_n (cache : list nodeobj) (feed : list nevent) : list nodeobj :=
  match feed with
  | [] => cache
  | NAdd n :: r | NUpd n :: r => replay_n (put_node n cache) r
  | NDel n :: r => replay_n (del_node (n_name n) cache) r
  end.

Lemma replay_app c f g : replay_n c (f ++ g) = replay_n (replay_n c f) g.
Proof. revert c. induction f as [|e f IH]; intros c; [reflexivity|]. destruct e; cbn; apply IH. Qed.

Record Coh (w : world) : Prop := {
  co_names : NoDup (map an_name (w_nodes w));
  co_sync : w_synced w = true -> replay_n (w_ncache w) (w_nfeed w) = map node_view (w_nodes w);
  co_uns : w_synced w = false -> w_nfeed w = []
}.

Lemma coh_init : Coh init_world.
Proof. constructor; cbn; [apply NoDup_nil|discriminate|reflexivity]. Qed.

Lemma coh_same w w' : Coh w -> w_nodes w' = w_nodes w -> w_nfeed w' = w_nfeed w -> w_ncache w' = w_ncache w -> w_synced w' = w_synced w -> Coh w'.
Proof. intros [a b c] E1 E2 E3 E4. constructor; rewrite ?E1, ?E2, ?E3, ?E4; assumption. Qed.

Lemma coh_crashed w : Coh w -> Coh (crashed w).
Proof. intros [a b c]. constructor; cbn; [exact a|discriminate|reflexivity]. Qed.

(* the views of the API objects under the three kinds of change *)
Lemma find_node_view_none name l : find_anode name l = None -> find_node name (map node_view l) = None.
Proof. induction l as [|h t IH]; cbn; [reflexivity|]. destruct (str_eqb (an_name h) name); [discriminate|exact IH]. Qed.
Lemma put_node_view_new a l : find_anode (an_name a) l = None -> put_node (node_view a) (map node_view l) = map node_view (l ++ [a]).
Proof. intros H. unfold put_node. cbn [node_view n_name]. rewrite (find_node_view_none _ _ H). rewrite map_app. reflexivity. Qed.
Lemma del_node_view name l : del_node name (map node_view l) = map node_view (del_anode name l).
Proof. unfold del_node, del_anode. induction l as [|h t IH]; cbn; [reflexivity|]. destruct (negb (str_eqb (an_name h) name)); cbn; rewrite IH; reflexivity. Qed.
Lemma del_anode_nodup name l : NoDup (map an_name l) -> NoDup (map an_name (del_anode name l)).
Proof.
  unfold del_anode. induction l as [|h t IH]; cbn; [auto|]. intros H. inversion H; subst. destruct (negb (str_eqb (an_name h) name)); cbn; [|apply IH; assumption].
  constructor; [|apply IH; assumption]. intros Hin. apply H2. apply in_map_iff in Hin. destruct Hin as (x & E & Hx). apply filter_In in Hx. rewrite <- E. apply in_map. apply Hx.
Qed.
Lemma find_anode_some_in name l a : find_anode name l = Some a -> In a l /\ an_name a = name.
Proof.
  induction l as [|h t IH]; cbn; [discriminate|]. destruct (str_eqb (an_name h) name) eqn:E.
  - intros H. inversion H; subst. split; [left; reflexivity|apply str_eqb_eq; exact E].
  - intros H. destruct (IH H) as [A B]. split; [right; exact A|exact B].
Qed.

(* an API change together with its notification *)
Lemma coh_push w nodes' e :
  Coh w -> NoDup (map an_name nodes') ->
  replay_n (map node_view (w_nodes w)) [e] = map node_view nodes' ->
  Coh (set_api w nodes' (w_ccs w) (w_rv w) (push_nev w e) (w_cfeed w)).
Proof.
  intros [a b c] Hnd He. constructor; cbn [set_api w_nodes w_nfeed w_ncache w_synced].
  - exact Hnd.
  - intros Hs. unfold push_nev. rewrite Hs. rewrite replay_app, (b Hs). exact He.
  - intros Hs. unfold push_nev. rewrite Hs. exact (c Hs).
Qed.

Lemma coh_update w a a' : Coh w -> find_anode (an_name a') (w_nodes w) = Some a ->
  Coh (set_api w (upd_anode a' (w_nodes w)) (w_ccs w) (w_rv w) (push_nev w (NUpd (node_view a'))) (w_cfeed w)).
Proof.
  intros C Hf. destruct (find_anode_some_in _ _ _ Hf) as [Hin Hn]. apply coh_push; [exact C|rewrite upd_anode_names; exact (co_names w C)|].
  cbn. apply put_node_view; [exact (co_names w C)|]. exists a. split; assumption.
Qed.

Lemma apply_patch_coh w nm cs o : Coh w -> Coh (apply_patch w nm cs o).
Proof.
  intros C. unfold apply_patch. destruct o; try exact C;
    (destruct (find_anode nm (w_nodes w)) as [a|] eqn:Ea; [|exact C]; destruct (an_cidrs a) eqn:Ec; [|exact C]);
    (destruct (find_anode_some_in _ _ _ Ea) as [_ Hn]; eapply (coh_update w a); [exact C|cbn; rewrite Hn; exact Ea]).
Qed.
Lemma apply_update_cc_coh w o out : Coh w -> Coh (apply_update_cc w o out).
Proof.
  intros C. apply (coh_same w); [exact C|apply apply_update_cc_nodes|apply apply_update_cc_feed|apply apply_update_cc_ncache|apply apply_update_cc_synced].
Qed.
Lemma apply_create_cc_coh w o out : Coh w -> Coh (apply_create_cc w o out).
Proof.
  intros C. destruct (apply_create_cc_frame w o out) as (E1 & E2 & _ & _ & _ & _ & E4 & E6 & _).
  apply (coh_same w); assumption.
Qed.
Lemma apply_effects_coh fx : forall w, Coh w -> Coh (apply_effects w fx).
Proof.
  induction fx as [|e fx IH]; intros w C; [exact C|]. destruct e as [nd cs po|? ?|? ?|o' out|o' out]; cbn [apply_effects]; try (apply IH; exact C).
  - apply IH. apply apply_patch_coh. exact C.
  - apply IH. apply apply_update_cc_coh. exact C.
  - apply IH. apply apply_create_cc_coh. exact C.
Qed.
Lemma after_call_coh {A} w (r : res A) m' : Coh w -> Coh (after_call w r m').
Proof. intros C. unfold after_call. destruct r; try (apply coh_crashed; exact C); apply (coh_same w); try reflexivity; exact C. Qed.

Section CohStep.
  Variable po : parse_oracle.
  Variable lab : label_oracle.

  Lemma run_node_sync_coh w cached key outs : Coh w -> Coh (fst (run_node_sync po lab w cached key outs)).
  Proof.
    intros C. unfold run_node_sync. destruct (w_ctl w) as [m|]; [|exact C].
    destruct (sync_node po lab (svc_list (w_svc w)) (can_patch w key) (api_same w key) (held_cidrs (w_ncache w)) m cached (find_node key (w_ncache w)) outs) as [[m' r] fx].
    cbn [fst]. apply apply_effects_coh. apply after_call_coh. exact C.
  Qed.
  Lemma run_cc_sync_coh w key cached out : Coh w -> Coh (fst (run_cc_sync w key cached out)).
  Proof.
    intros C. unfold run_cc_sync. destruct (w_ctl w) as [m|]; [|exact C].
    match goal with |- context [sync_cc m key cached ?o] => destruct (sync_cc m key cached o) as [[m' r] fx] end.
    cbn [fst]. apply apply_effects_coh. pose proof (after_call_coh w r m' C) as A.
    destruct cached as [o|]; [|exact A]. match goal with |- context [if ?b then _ else _] => destruct b end; [|exact A].
    apply (coh_same (after_call w r m')); try reflexivity; exact A.
  Qed.

  (* delivering the oldest pending notification (possibly carrying another state of the same node, for a deletion) *)
  Lemma deliver_coh w e rest e' : Coh w -> w_nfeed w = e :: rest ->
    (forall c, replay_n c [e'] = replay_n c [e]) ->
    Coh (fst (handle_nevent (set_caches w (w_ncache w) (w_ccache w) rest (w_cfeed w)) e')).
  Proof.
    intros C Ef He.
    assert (Hsy : w_synced w = true).
    { destruct (w_synced w) eqn:E; [reflexivity|]. pose proof (co_uns w C E) as B. rewrite Ef in B. discriminate B. }
    pose proof (co_sync w C Hsy) as Hr. rewrite Ef in Hr. change (e :: rest) with ([e] ++ rest) in Hr. rewrite replay_app, <- He in Hr.
    assert (G : forall W, w_nodes W = w_nodes w -> w_nfeed W = rest -> w_ncache W = replay_n (w_ncache w) [e'] -> w_synced W = true -> Coh W).
    { intros W E1 E2 E3 E4. constructor; rewrite ?E1, ?E2, ?E3, ?E4; [exact (co_names w C)|intros _; exact Hr|discriminate]. }
    unfold handle_nevent. destruct e' as [n|n|n]; cbn [set_caches w_ctl w_ncache w_ccache w_nfeed w_cfeed w_svc].
    - destruct (w_ctl w); cbn [fst]; apply G; reflexivity || exact Hsy.
    - destruct (w_ctl w); cbn [fst]; apply G; reflexivity || exact Hsy.
    - destruct (w_ctl w) as [m|]; [|cbn [fst]; apply G; reflexivity || exact Hsy].
      destruct (release_cidr (svc_list (w_svc w)) m n) as [m' r]. destruct r; cbn [fst]; try (apply G; reflexivity || exact Hsy).
      apply coh_crashed. apply G; reflexivity || exact Hsy.
  Qed.

  Definition coh_op (o : op) : Prop := match o with RelistNodes => False | _ => True end.

  Theorem step_coh w o : Coh w -> coh_op o -> Coh (fst (step po lab w o)).
  Proof.
    intros C Ho. destruct o; cbn [step coh_op] in *; try contradiction.
    - (* UCreateNode *)
      destruct (find_anode name (w_nodes w)) eqn:Ea; [exact C|]. cbn [fst]. apply coh_push; [exact C| |].
      + rewrite map_app. cbn. apply NoDup_app_snoc; [exact (co_names w C)|exact (find_anode_none _ _ Ea)].
      + cbn. apply (put_node_view_new (mkANode name ls cs false)). cbn. exact Ea.
    - (* ULabelNode *)
      destruct (find_anode name (w_nodes w)) as [a|] eqn:Ea; [|exact C]. cbn [fst]. apply (coh_update w a); [exact C|cbn; exact Ea].
    - (* UDeleteNode *)
      destruct (find_anode name (w_nodes w)) as [a|] eqn:Ea; [|exact C]. cbn [fst].
      destruct (find_anode_some_in _ _ _ Ea) as [_ Hn]. apply coh_push; [exact C|apply del_anode_nodup; exact (co_names w C)|].
      cbn. rewrite Hn. apply del_node_view.
    - (* UMarkNodeDeleting *)
      destruct (find_anode name (w_nodes w)) as [a|] eqn:Ea; [|exact C]. cbn [fst]. apply (coh_update w a); [exact C|cbn; exact Ea].
    - destruct (find_cc (o_name o) (w_ccs w)); [exact C|]. apply (coh_same w); try reflexivity; exact C.
    - destruct (find_cc name (w_ccs w)) as [c|]; [|exact C]. destruct (o_fins c); [apply (coh_same w); try reflexivity; exact C|].
      destruct (o_deleting c); [exact C|apply (coh_same w); try reflexivity; exact C].
    - destruct (find_cc name (w_ccs w)) as [c|]; [|exact C].
      match goal with |- context [if ?b then _ else _] => destruct b end; apply (coh_same w); try reflexivity; exact C.
    - (* DeliverNode *)
      destruct (w_nfeed w) as [|e rest] eqn:Ef; [exact C|]. apply (deliver_coh w e rest e C Ef). reflexivity.
    - (* DeliverNodeTombstone *)
      destruct (w_nfeed w) as [|[n|n|n] rest] eqn:Ef; try exact C.
      apply (deliver_coh w (NDel n) rest _ C Ef). intros c. cbn.
      destruct (find_node (n_name n) (w_ncache w)) as [x|] eqn:Ex; [rewrite (find_node_name _ _ _ Ex)|]; reflexivity.
    - (* DeliverCC *)
      destruct (w_cfeed w) as [|e rest]; [exact C|].
      match goal with |- Coh (fst (handle_cevent ?w0 e)) => destruct (handle_cevent_same w0 e) as (A & B & D & _ & _) end.
      apply (coh_same w); try assumption. unfold handle_cevent. destruct e; cbn; destruct (w_ctl w); reflexivity.
    - destruct (w_ctl w); [|exact C]. apply (coh_same w); try reflexivity; exact C.
    - destruct (w_ctl w); [|exact C]. apply (coh_same w); try reflexivity; exact C.
    - (* RelistCCs *)
      destruct (w_synced w) eqn:Es; [|exact C]. cbn [fst].
      match goal with |- Coh (deliver_all_c ?w0 ?es) => destruct (deliver_all_c_same es w0) as (A & B & D & _ & _); pose proof (deliver_all_c_synced es w0) as F end.
      apply (coh_same w); try assumption.
    - apply (coh_same w); try reflexivity; exact C.
    - (* RunNode *)
      destruct (find (fun x => fst x =? w0) (w_nfetch w)) as [[wk [key cached]]|]; [|exact C].
      apply run_node_sync_coh. apply (coh_same w); try reflexivity; exact C.
    - apply (coh_same w); try reflexivity; exact C.
    - (* RunCC *)
      destruct (find (fun x => fst x =? w0) (w_cfetch w)) as [[wk [key cached]]|]; [|exact C].
      apply run_cc_sync_coh. apply (coh_same w); try reflexivity; exact C.
    - (* ProcNode *)
      destruct (w_ctl w) as [m|] eqn:Em; [|exact C]. destruct (q_ready (w_nq w)) as [|key rest]; [exact C|].
      match goal with |- context [run_node_sync po lab ?w1 ?c ?k ?o] =>
        assert (C2 : Coh (fst (run_node_sync po lab w1 c k o)));
          [|destruct (run_node_sync po lab w1 c k o) as [w2 ob2]] end.
      { apply run_node_sync_coh. apply (coh_same w); try reflexivity; exact C. }
      cbn [fst] in C2. destruct (ob_res ob2 =? 2); cbn [fst]; [apply (coh_same w2); try reflexivity; exact C2|exact C2].
    - (* ProcCC *)
      destruct (w_ctl w) as [m|] eqn:Em; [|exact C]. destruct (q_ready (w_cq w)) as [|key rest]; [exact C|].
      match goal with |- context [run_cc_sync ?w1 ?k ?c ?o] =>
        assert (C2 : Coh (fst (run_cc_sync w1 k c o)));
          [|destruct (run_cc_sync w1 k c o) as [w2 ob2]] end.
      { apply run_cc_sync_coh. apply (coh_same w); try reflexivity; exact C. }
      cbn [fst] in C2. destruct (ob_res ob2 =? 2); cbn [fst]; [apply (coh_same w2); try reflexivity; exact C2|exact C2].
    - apply (coh_same w); try reflexivity; exact C.
    - apply coh_crashed. exact C.
    - (* Construct *)
      destruct (w_ctl w); [exact C|].
      destruct (construct po lab (with_default dp (w_ccs w)) outs svc1 svc2 (map node_view (w_nodes w))) as [[m fx] pan]. cbn [fst].
      apply apply_effects_coh. constructor; cbn; [exact (co_names w C)|discriminate|reflexivity].
    - (* StartInformers *)
      destruct (w_ctl w); [|exact C]. destruct (w_synced w); [exact C|]. cbn [fst].
      constructor; cbn; [exact (co_names w C)|intros _; reflexivity|discriminate].
  Qed.

  Theorem run_coh ops : forall w, Coh w -> Forall coh_op ops -> Coh (run po lab w ops).
  Proof.
    induction ops as [|o ops IH]; intros w C H; [exact C|]. inversion H; subst. unfold run. cbn [fold_left].
    apply IH; [apply step_coh; assumption|assumption].
  Qed.
End CohStep.

(* ---------- draining the node feed ---------- *)
Section Drain.
  Variable po : parse_oracle.
  Variable lab : label_oracle.

  Lemma deliver_step w e rest : w_nfeed w = e :: rest ->
    let w' := fst (step po lab w DeliverNode) in
    w_nfeed w' = rest /\ w_synced w' = w_synced w /\ w_nodes w' = w_nodes w /\ (forall m, w_ctl w = Some m -> exists m', w_ctl w' = Some m').
  Proof.
    intros Ef. cbn [step]. rewrite Ef. unfold handle_nevent. destruct e as [n|n|n]; cbn [set_caches w_ctl w_ncache w_ccache w_nfeed w_cfeed w_svc].
    - destruct (w_ctl w) eqn:Em; cbn; repeat split; try reflexivity; intros m0 E0; try discriminate; eexists; first [reflexivity|exact Em].
    - destruct (w_ctl w) eqn:Em; cbn; repeat split; try reflexivity; intros m0 E0; try discriminate; eexists; first [reflexivity|exact Em].
    - destruct (w_ctl w) as [m|] eqn:Em; [|cbn; repeat split; try reflexivity; intros m0 E0; discriminate].
      pose proof (release_cidr_no_panic (svc_list (w_svc w)) m n) as Hnp.
      destruct (release_cidr (svc_list (w_svc w)) m n) as [m' r]. cbn [snd] in Hnp.
      destruct r; [| |contradiction]; cbn; repeat split; try reflexivity; intros m0 E0; eexists; reflexivity.
  Qed.

  Definition drain (w : world) : world := run po lab w (repeat DeliverNode (length (w_nfeed w))).

  Lemma drain_spec : forall n w, length (w_nfeed w) = n -> Coh w -> w_synced w = true ->
    let w' := run po lab w (repeat DeliverNode n) in
    Coh w' /\ w_nfeed w' = [] /\ w_synced w' = true /\ w_nodes w' = w_nodes w /\ w_ncache w' = map node_view (w_nodes w) /\
    (forall m, w_ctl w = Some m -> exists m', w_ctl w' = Some m').
  Proof.
    induction n as [|n IH]; intros w Hl C Hs; cbn [repeat run fold_left].
    - destruct (w_nfeed w) eqn:Ef; [|discriminate]. split; [exact C|]. split; [first [exact Ef|reflexivity]|]. split; [exact Hs|]. split; [reflexivity|].
      split; [|intros m E; exists m; exact E]. pose proof (co_sync w C Hs) as R. rewrite Ef in R. exact R.
    - destruct (w_nfeed w) as [|e rest] eqn:Ef; [discriminate|]. cbn in Hl. injection Hl as Hl.
      destruct (deliver_step w e rest Ef) as (A & B & D & E).
      pose proof (step_coh po lab w DeliverNode C Logic.I) as C1.
      unfold run. cbn [fold_left].
      destruct (IH (fst (step po lab w DeliverNode)) ltac:(rewrite A; exact Hl) C1 ltac:(rewrite B; exact Hs)) as (C' & F' & S' & N' & K' & M').
      unfold run in *. split; [exact C'|]. split; [exact F'|]. split; [exact S'|]. split; [rewrite N'; exact D|].
      split; [rewrite K', D; reflexivity|]. intros m Em. destruct (E m Em) as (m1 & Em1). exact (M' m1 Em1).
  Qed.

  (* a world in which the controller and the informers run becomes quiet by delivering the pending node notifications *)
  Theorem quiet_after_drain w :
    WInv w -> WK w -> Coh w -> w_synced w = true -> (exists m, w_ctl w = Some m) ->
    (forall a, In a (w_nodes w) -> an_deleting a = false) -> Quiet (drain w).
  Proof.
    intros I K C Hs (m & Em) Hdel. unfold drain.
    destruct (drain_spec (length (w_nfeed w)) w eq_refl C Hs) as (C' & F' & S' & N' & K' & M').
    assert (HI : forall n w0, WInv w0 -> WK w0 -> WInv (run po lab w0 (repeat DeliverNode n)) /\ WK (run po lab w0 (repeat DeliverNode n))).
    { induction n as [|n IHn]; intros w0 I0 K0; cbn [repeat]; [split; assumption|]. unfold run. cbn [fold_left].
      apply IHn; [apply step_winv; [exact I0|exact Logic.I]|exact (proj1 (step_no_panic po lab w0 DeliverNode I0 K0 Logic.I))]. }
    destruct (HI (length (w_nfeed w)) w I K) as [I' K2].
    constructor; try assumption.
    - exact (M' m Em).
    - rewrite N'. apply seq_of_eq; [exact K'|]. apply views_nd. exact (co_names w C).
    - rewrite N'. exact (co_names w C).
    - rewrite N'. exact Hdel.
  Qed.

  (* C11 from any such world: drain the feed, then at most (nodes without pod CIDRs) + 1 fair rounds *)
  Theorem converge_after_drain w :
    WInv w -> WK w -> Coh w -> w_synced w = true -> (exists m, w_ctl w = Some m) ->
    (forall a, In a (w_nodes w) -> an_deleting a = false) ->
    exists k, (k <= S (length (unserved_nodes (drain w))))%nat /\ settled po lab (Nat.iter k (round po lab) (drain w)).
  Proof.
    intros I K C Hs Hm Hdel. pose proof (quiet_after_drain w I K C Hs Hm Hdel) as Q.
    destruct (rounds_converge po lab (length (unserved_nodes (drain w))) (drain w) Q (le_n _)) as (k & Hk & _ & Sk).
    exists k. split; assumption.
  Qed.
End Drain.

(* ---------- the same for the ClusterCIDR informer ---------- *)
Fixpoint replay_c (cache : list ccobj) (feed : list cevent) : list ccobj :=
  match feed with
  | [] => cache
  | CAdd o :: r | CUpd o :: r => replay_c (put_cc o cache) r
  | CDel o :: r => replay_c (del_cc (o_name o) cache) r
  end.
Lemma replay_c_app c f g : replay_c c (f ++ g) = replay_c (replay_c c f) g.
Proof. revert c. induction f as [|e f IH]; intros c; [reflexivity|]. destruct e; cbn; apply IH. Qed.

Record CohC (w : world) : Prop := {
  cc_sync : w_synced w = true -> replay_c (w_ccache w) (w_cfeed w) = w_ccs w;
  cc_uns : w_synced w = false -> w_cfeed w = []
}.
Lemma cohc_init : CohC init_world.
Proof. constructor; cbn; [discriminate|reflexivity]. Qed.
Lemma cohc_same w w' : CohC w -> w_ccs w' = w_ccs w -> w_cfeed w' = w_cfeed w -> w_ccache w' = w_ccache w -> w_synced w' = w_synced w -> CohC w'.
Proof. intros [a b] E1 E2 E3 E4. constructor; rewrite ?E1, ?E2, ?E3, ?E4; assumption. Qed.
Lemma cohc_crashed w : CohC (crashed w).
Proof. constructor; cbn; [discriminate|reflexivity]. Qed.

Lemma cohc_push w ccs' rv e :
  CohC w -> replay_c (w_ccs w) [e] = ccs' ->
  CohC (set_api w (w_nodes w) ccs' rv (w_nfeed w) (push_cev w e)).
Proof.
  intros [a b] He. constructor; cbn [set_api w_ccs w_cfeed w_ccache w_synced].
  - intros Hs. unfold push_cev. rewrite Hs. rewrite replay_c_app, (a Hs). exact He.
  - intros Hs. unfold push_cev. rewrite Hs. exact (b Hs).
Qed.
Lemma cohc_nodes_only w nodes' rv nf : CohC w -> CohC (set_api w nodes' (w_ccs w) rv nf (w_cfeed w)).
Proof. intros C. apply (cohc_same w); try reflexivity; exact C. Qed.

Lemma find_cc_name name l o : find_cc name l = Some o -> o_name o = name.
Proof. induction l as [|h t IH]; cbn; [discriminate|]. destruct (str_eqb (o_name h) name) eqn:E; [intros H; inversion H; subst; apply str_eqb_eq; exact E|exact IH]. Qed.

Lemma apply_patch_cohc w nm cs o : CohC w -> CohC (apply_patch w nm cs o).
Proof.
  intros C. unfold apply_patch. destruct o; try exact C;
    (destruct (find_anode nm (w_nodes w)) as [a|]; [|exact C]; destruct (an_cidrs a); [|exact C]); apply cohc_nodes_only; exact C.
Qed.
Lemma apply_update_cc_cohc w o out : CohC w -> CohC (apply_update_cc w o out).
Proof.
  intros C. unfold apply_update_cc. destruct out; try exact C;
    (destruct (find_cc (o_name o) (w_ccs w)) as [cur|] eqn:Ec; [|exact C]; destruct (negb (o_rv cur =? o_rv o)); [exact C|]);
    (match goal with |- context [if ?b then _ else _] => destruct b end; apply cohc_push; [exact C|cbn; try reflexivity| exact C|cbn; reflexivity]).
Qed.

Lemma apply_create_cc_cohc w o out : CohC w -> CohC (apply_create_cc w o out).
Proof.
  intros C. unfold apply_create_cc. destruct out; try exact C;
    (destruct (find_cc (o_name o) (w_ccs w)) as [cur|] eqn:Ec; [exact C|]);
    (apply cohc_push; [exact C|cbn [replay_c]; unfold put_cc; cbn [with_rv o_name]; rewrite Ec; reflexivity]).
Qed.

Lemma apply_effects_cohc fx : forall w, CohC w -> CohC (apply_effects w fx).
Proof.
  induction fx as [|e fx IH]; intros w C; [exact C|]. destruct e as [nd cs po|? ?|? ?|o' out|o' out]; cbn [apply_effects]; try (apply IH; exact C).
  - apply IH. apply apply_patch_cohc. exact C.
  - apply IH. apply apply_update_cc_cohc. exact C.
  - apply IH. apply apply_create_cc_cohc. exact C.
Qed.
Lemma after_call_cohc {A} w (r : res A) m' : CohC w -> CohC (after_call w r m').
Proof. intros C. unfold after_call. destruct r; try apply cohc_crashed; apply (cohc_same w); try reflexivity; exact C. Qed.

Section CohCStep.
  Variable po : parse_oracle.
  Variable lab : label_oracle.

  Lemma run_node_sync_cohc w cached key outs : CohC w -> CohC (fst (run_node_sync po lab w cached key outs)).
  Proof.
    intros C. unfold run_node_sync. destruct (w_ctl w) as [m|]; [|exact C].
    destruct (sync_node po lab (svc_list (w_svc w)) (can_patch w key) (api_same w key) (held_cidrs (w_ncache w)) m cached (find_node key (w_ncache w)) outs) as [[m' r] fx].
    cbn [fst]. apply apply_effects_cohc. apply after_call_cohc. exact C.
  Qed.
  Lemma run_cc_sync_cohc w key cached out : CohC w -> CohC (fst (run_cc_sync w key cached out)).
  Proof.
    intros C. unfold run_cc_sync. destruct (w_ctl w) as [m|]; [|exact C].
    match goal with |- context [sync_cc m key cached ?o] => destruct (sync_cc m key cached o) as [[m' r] fx] end.
    cbn [fst]. apply apply_effects_cohc. pose proof (after_call_cohc w r m' C) as A.
    destruct cached as [o|]; [|exact A]. match goal with |- context [if ?b then _ else _] => destruct b end; [|exact A].
    apply (cohc_same (after_call w r m')); try reflexivity; exact A.
  Qed.
  Lemma handle_nevent_cohc w e : CohC w -> CohC (fst (handle_nevent w e)).
  Proof.
    intros C. unfold handle_nevent. destruct e as [n|n|n]; cbn [set_caches w_ctl w_svc].
    - destruct (w_ctl w); cbn [fst]; apply (cohc_same w); try reflexivity; exact C.
    - destruct (w_ctl w); cbn [fst]; apply (cohc_same w); try reflexivity; exact C.
    - destruct (w_ctl w) as [m|]; [|cbn [fst]; apply (cohc_same w); try reflexivity; exact C].
      destruct (release_cidr (svc_list (w_svc w)) m n) as [m' r]. destruct r; cbn [fst]; try apply cohc_crashed; apply (cohc_same w); try reflexivity; exact C.
  Qed.
  Lemma deliver_all_n_cohc es : forall w acc, CohC w -> CohC (fst (deliver_all_n w es acc)).
  Proof.
    induction es as [|e es IH]; intros w acc C; cbn [deliver_all_n]; [exact C|].
    pose proof (handle_nevent_cohc w e C) as C1. destruct (handle_nevent w e) as [w1 ob]. cbn [fst] in *.
    destruct (ob_res ob =? 3); [exact C1|apply IH; exact C1].
  Qed.

  Definition cohc_op (o : op) : Prop := match o with RelistCCs => False | _ => True end.

  Theorem step_cohc w o : CohC w -> cohc_op o -> CohC (fst (step po lab w o)).
  Proof.
    intros C Ho. destruct o; cbn [step cohc_op] in *; try contradiction.
    - destruct (find_anode name (w_nodes w)); [exact C|]. apply cohc_nodes_only. exact C.
    - destruct (find_anode name (w_nodes w)); [|exact C]. apply cohc_nodes_only. exact C.
    - destruct (find_anode name (w_nodes w)); [|exact C]. apply cohc_nodes_only. exact C.
    - destruct (find_anode name (w_nodes w)); [|exact C]. apply cohc_nodes_only. exact C.
    - (* UCreateCC *)
      destruct (find_cc (o_name o) (w_ccs w)) eqn:Ec; [exact C|]. cbn [fst]. apply cohc_push; [exact C|].
      cbn. unfold put_cc. cbn [with_rv o_name]. rewrite Ec. reflexivity.
    - (* UDeleteCC *)
      destruct (find_cc name (w_ccs w)) as [c|] eqn:Ec; [|exact C]. pose proof (find_cc_name _ _ _ Ec) as Hn.
      destruct (o_fins c); [cbn [fst]; apply cohc_push; [exact C|cbn; rewrite Hn; reflexivity]|].
      destruct (o_deleting c); [exact C|]. cbn [fst]. apply cohc_push; [exact C|reflexivity].
    - (* USetCCFinalizers *)
      destruct (find_cc name (w_ccs w)) as [c|] eqn:Ec; [|exact C]. pose proof (find_cc_name _ _ _ Ec) as Hn.
      match goal with |- context [if ?b then _ else _] => destruct b end; cbn [fst]; apply cohc_push; try exact C; cbn; rewrite ?Hn; reflexivity.
    - (* DeliverNode *)
      destruct (w_nfeed w) as [|e rest]; [exact C|]. apply handle_nevent_cohc. apply (cohc_same w); try reflexivity; exact C.
    - destruct (w_nfeed w) as [|[n|n|n] rest]; try exact C. apply handle_nevent_cohc. apply (cohc_same w); try reflexivity; exact C.
    - (* DeliverCC *)
      destruct (w_cfeed w) as [|e rest] eqn:Ef; [exact C|].
      assert (Hsy : w_synced w = true).
      { destruct (w_synced w) eqn:E; [reflexivity|]. pose proof (cc_uns w C E) as B. rewrite Ef in B. discriminate B. }
      pose proof (cc_sync w C Hsy) as Hr. rewrite Ef in Hr.
      assert (G : forall W, w_ccs W = w_ccs w -> w_cfeed W = rest -> w_ccache W = replay_c (w_ccache w) [e] -> w_synced W = true -> CohC W).
      { intros W E1 E2 E3 E4. constructor; rewrite ?E1, ?E2, ?E3, ?E4; [intros _; destruct e; exact Hr|discriminate]. }
      unfold handle_cevent. destruct e; cbn [set_caches w_ctl w_ncache w_ccache w_nfeed w_cfeed]; destruct (w_ctl w); cbn [fst]; apply G; reflexivity || exact Hsy.
    - destruct (w_ctl w); [|exact C]. apply (cohc_same w); try reflexivity; exact C.
    - destruct (w_ctl w); [|exact C]. apply (cohc_same w); try reflexivity; exact C.
    - (* RelistNodes *)
      destruct (w_synced w); [|exact C]. apply deliver_all_n_cohc. apply (cohc_same w); try reflexivity; exact C.
    - apply (cohc_same w); try reflexivity; exact C.
    - destruct (find (fun x => fst x =? w0) (w_nfetch w)) as [[wk [key cached]]|]; [|exact C].
      apply run_node_sync_cohc. apply (cohc_same w); try reflexivity; exact C.
    - apply (cohc_same w); try reflexivity; exact C.
    - destruct (find (fun x => fst x =? w0) (w_cfetch w)) as [[wk [key cached]]|]; [|exact C].
      apply run_cc_sync_cohc. apply (cohc_same w); try reflexivity; exact C.
    - destruct (w_ctl w) as [m|] eqn:Em; [|exact C]. destruct (q_ready (w_nq w)) as [|key rest]; [exact C|].
      match goal with |- context [run_node_sync po lab ?w1 ?c ?k ?o] =>
        assert (C2 : CohC (fst (run_node_sync po lab w1 c k o)));
          [|destruct (run_node_sync po lab w1 c k o) as [w2 ob2]] end.
      { apply run_node_sync_cohc. apply (cohc_same w); try reflexivity; exact C. }
      cbn [fst] in C2. destruct (ob_res ob2 =? 2); cbn [fst]; [apply (cohc_same w2); try reflexivity; exact C2|exact C2].
    - destruct (w_ctl w) as [m|] eqn:Em; [|exact C]. destruct (q_ready (w_cq w)) as [|key rest]; [exact C|].
      match goal with |- context [run_cc_sync ?w1 ?k ?c ?o] =>
        assert (C2 : CohC (fst (run_cc_sync w1 k c o)));
          [|destruct (run_cc_sync w1 k c o) as [w2 ob2]] end.
      { apply run_cc_sync_cohc. apply (cohc_same w); try reflexivity; exact C. }
      cbn [fst] in C2. destruct (ob_res ob2 =? 2); cbn [fst]; [apply (cohc_same w2); try reflexivity; exact C2|exact C2].
    - apply (cohc_same w); try reflexivity; exact C.
    - apply cohc_crashed.
    - destruct (w_ctl w); [exact C|].
      destruct (construct po lab (with_default dp (w_ccs w)) outs svc1 svc2 (map node_view (w_nodes w))) as [[m fx] pan]. cbn [fst].
      apply apply_effects_cohc. constructor; cbn; [discriminate|reflexivity].
    - destruct (w_ctl w); [|exact C]. destruct (w_synced w); [exact C|]. cbn [fst].
      constructor; cbn; [intros _; reflexivity|discriminate].
  Qed.

  Theorem run_cohc ops : forall w, CohC w -> Forall cohc_op ops -> CohC (run po lab w ops).
  Proof.
    induction ops as [|o ops IH]; intros w C H; [exact C|]. inversion H; subst. unfold run. cbn [fold_left].
    apply IH; [apply step_cohc; assumption|assumption].
  Qed.
End CohCStep.
