(* Progress_proofs.v -- the positive half of C05 and the step of C11: a node without pod CIDRs for which some
   considered entry has room in every configured family IS served when its work item runs and the write
   succeeds: the item ends Ok with exactly one PATCH carrying one block per configured family. *)
From NIPAM Require Import Alloc Geom_proofs Pool_proofs Prio_proofs Alloc_proofs Inv_proofs Complete_proofs Resv_proofs Path_proofs.
From Coq Require Import Lia.
Open Scope N_scope.

Theorem servable_node_is_served po lab svcs canp apisame held m node nr outs ps :
  MapInv m -> KU m ->
  n_cidrs node = [] -> n_deleting node = false -> n_cidrs nr = [] ->
  (forall cs, canp cs = true) ->
  ordered_matching po lab m (n_labels node) true = Ok ps ->
  (exists p c, In p ps /\ get_entry m p = Some c /\ ~ no_room m held c) ->
  exists m' cs, cs <> [] /\
    sync_node po lab svcs canp apisame held m (Some node) (Some nr) (POk :: outs) = (m', Ok tt, [FxPatch (n_name node) cs POk]).
Proof.
  intros M HK Hn Hd Hnr Hcanp Ho (p & c & Hin & Hg & Hroom).
  unfold sync_node. rewrite Hd. unfold allocate_or_occupy. rewrite Hn.
  unfold prioritized_cidrs. rewrite Ho.
  pose proof (prioritized_try_no_panic held ps m M (ordered_matching_valid _ _ _ _ _ _ HK Ho)) as Hnp.
  destruct (prioritized_try held m ps) as [m1 rp] eqn:Ep. cbn [snd] in Hnp.
  destruct rp as [[cs q]|e|]; [| |contradiction].
  2:{ exfalso. apply Hroom. eapply (prioritized_try_refusal held ps m m m1 e M (msim_refl m) Ep p c Hin Hg). }
  pose proof (prioritized_try_result held ps m m1 _ M Ep) as (_ & _ & (e1 & Hg1 & Hkeys)).
  destruct (prioritized_try_inv held ps m m1 _ M Ep) as [M1 _].
  (* the reservation is not empty: the entry it was taken from has a pool *)
  destruct cs as [|x cs].
  { exfalso. clear - Ep M. revert m M Ep. induction ps as [|p0 ps IH]; intros m M Ep; cbn [prioritized_try] in Ep; [discriminate|].
    destruct (get_entry m p0) as [c0|] eqn:Eg; [|discriminate]. pose proof (get_entry_inv m p0 c0 M Eg) as Ec.
    destruct (cc_v4 c0) as [p4|] eqn:E4.
    - destruct (allocate_cidr held m p0 V4) as [ma r4] eqn:Ea. pose proof (allocate_cidr_inv _ _ _ _ _ _ M Ea) as Ma.
      destruct r4 as [x4|e4|]; [|eapply IH; eassumption|discriminate].
      destruct (cc_v6 c0); [|discriminate]. destruct (allocate_cidr held ma p0 V6) as [mb r6] eqn:Eb. pose proof (allocate_cidr_inv _ _ _ _ _ _ Ma Eb) as Mb.
      destruct r6 as [x6|e6|]; [discriminate| |discriminate].
      eapply IH; [|exact Ep]. destruct (get_entry mb p0) as [c'|] eqn:Eg2; [|exact Mb].
      destruct (cc_release c' x4) as [c''| |] eqn:Er; try exact Mb.
      apply set_entry_inv; [exact Mb|]. eapply cc_release_inv; [exact (get_entry_inv mb p0 c' Mb Eg2)| |exact Er].
      destruct (allocate_cidr_wf _ _ _ _ _ _ M Ea) as [Hw _]. exact Hw.
    - destruct (cc_v6 c0) as [p6|] eqn:E6.
      + destruct (allocate_cidr held m p0 V6) as [mb r6] eqn:Eb. pose proof (allocate_cidr_inv _ _ _ _ _ _ M Eb) as Mb.
        destruct r6 as [x6|e6|]; [discriminate|eapply IH; eassumption|discriminate].
      + destruct (ei_some c0 Ec) as [H|H]; congruence. }
  unfold update_cidrs_allocation. rewrite Hnr. cbn [length]. cbn [Nat.eqb andb].
  cbn [patch_loop]. rewrite Hcanp. rewrite Hg1.
  exists (set_entry m1 q (add_assoc (n_name node) e1)), (x :: cs). split; [discriminate|reflexivity].
Qed.

