(* C02 -- Every assignment is a well-formed block of one eligible ClusterCIDR.
   Proved here for every state satisfying the structural invariant MapInv -- which holds in EVERY
   world reachable from the initial one by well-formed operations (World_proofs.v; last two theorems): the CIDRs of an assignment are reserved by
   [prioritized_try] in ONE entry, IPv4 first then IPv6, each a well-formed CIDR of that family that
   overlaps no pod CIDR of a cached node; the PATCH goes to the processed node only; a failed or
   partial reservation never reaches a PATCH. *)
From NIPAM Require Import Sys Alloc_proofs Inv_proofs Pool_proofs World_proofs Path_proofs Term_proofs Sel Lbl Keys_proofs.
Open Scope N_scope.

(* what allocate_cidr hands out is a well-formed CIDR of the requested family *)
Theorem C02_allocated_cidr_wellformed :
  forall held m p f m' x, MapInv m -> allocate_cidr held m p f = (m', Ok x) -> wf_cidr x /\ cf x = f.
Proof. exact allocate_cidr_wf. Qed.
Print Assumptions C02_allocated_cidr_wellformed.

(* the candidate is always a block of the pool it comes from: block number below the capacity,
   inside the range, prefix = node mask, aligned (C13), and not currently used *)
Theorem C02_candidate_is_a_free_block :
  forall p, PoolInv p ->
  match next_candidate p with
  | Cand blk _ _ => exists i, i < maxc (pg p) /\ blk = block (pg p) i /\ ~ In blk (used p)
  | Exhausted _ => True
  end.
Proof.
  intros p I. pose proof (next_spec p I) as H. destruct (next_candidate p); [|exact Logic.I].
  destruct H as (i & Hi & Hb & Hf & _). exists i. repeat split; assumption.
Qed.
Print Assumptions C02_candidate_is_a_free_block.

(* all CIDRs of one assignment come from one entry, one per configured family, IPv4 first *)
Theorem C02_one_entry_all_families :
  forall held ps m m' cs p, MapInv m -> prioritized_try held m ps = (m', Ok (cs, p)) ->
  Forall wf_cidr cs /\ all_unheld held cs.
Proof.
  intros held ps m m' cs p M H. split.
  - destruct (prioritized_try_inv held ps m m' (Ok (cs, p)) M H) as [_ Hw]. exact Hw.
  - eapply prioritized_try_unheld. exact H.
Qed.
Print Assumptions C02_one_entry_all_families.

(* the PATCH carries exactly that list and goes to the node that was processed, and only when that
   node has no pod CIDRs (never a partial assignment: a PATCH is issued only after every configured
   family was reserved) *)
Theorem C02_patch_is_the_whole_assignment :
  forall po lab svcs canp apisame held m cached reread outs m' r fx,
  sync_node po lab svcs canp apisame held m cached reread outs = (m', r, fx) ->
  forall nm cs o, In (FxPatch nm cs o) fx ->
    (exists node, cached = Some node /\ nm = n_name node /\ n_cidrs node = []) /\
    (exists n, reread = Some n /\ n_cidrs n = []) /\ all_unheld held cs.
Proof. exact sync_node_patches. Qed.
Print Assumptions C02_patch_is_the_whole_assignment.

(* the invariant the above rests on is preserved by every node work item *)
Theorem C02_invariant_preserved :
  forall po lab svcs canp apisame held m cached reread outs m' r fx,
  MapInv m -> Forall wf_cidr svcs -> (forall n, cached = Some n -> wf_node n) ->
  sync_node po lab svcs canp apisame held m cached reread outs = (m', r, fx) -> MapInv m'.
Proof. exact sync_node_inv. Qed.
Print Assumptions C02_invariant_preserved.

(* the invariant is not a hypothesis about the starting state: it holds in every world reachable from the
   initial world by any list of well-formed operations (any schedule, faults, crashes, restarts, relists) *)
Theorem C02_invariant_holds_in_every_reachable_state :
  forall po lab ops m, Forall wf_op ops -> w_ctl (run po lab init_world ops) = Some m -> MapInv m.
Proof. exact reachable_state_inv. Qed.
Print Assumptions C02_invariant_holds_in_every_reachable_state.

(* hence every PATCH of every step of every such history carries well-formed CIDRs *)
Theorem C02_every_patch_of_every_history_is_wellformed :
  forall po lab ops o w' ob, Forall wf_op ops -> step po lab (run po lab init_world ops) o = (w', ob) ->
  forall nm cs out, In (FxPatch nm cs out) (ob_fx ob) -> Forall wf_cidr cs.
Proof.
  intros po lab ops o w' ob H. apply step_patch_wf. apply run_winv; [apply winv_init|exact H].
Qed.
Print Assumptions C02_every_patch_of_every_history_is_wellformed.

Example C02_wf_ops_nonvacuous :
  Forall wf_op [UCreateCC (mkCCObj [99] (FOk (mkCidr V4 167772160 24)) FEmpty 4 (Some []) [] false 1 0 0);
                Construct None None [] []; StartInformers; UCreateNode [110] [] []; DeliverNode; ProcNode [POk]].
Proof.
  repeat constructor; cbn; try discriminate; try (intros ? E; discriminate E).
  all: try (unfold wf_cidr; cbn; repeat split; try lia; try reflexivity).
Qed.

(* ---------- C02 as one statement over histories (Term_proofs.v) ---------- *)
(* every PATCH of every step of every history carries, for ONE entry e of the controller's state
   - that is not marked terminating (no deletion request processed),
   - whose selector the labels of the node -- as the work item saw it -- satisfy, or that has no selector,
   exactly one block of each pool e has, the IPv4 one first.  [block g i] is the i-th per-node block of the range: inside
   the range, prefix length = width - perNodeHostBits, aligned (C13).  "Accepted by the controller" is being an entry. *)
Theorem C02_every_assignment_of_every_history :
  forall po lab ops o w' ob, Forall wf_op ops ->
  let w := run po lab init_world ops in
  step po lab w o = (w', ob) ->
  forall nm cs out, In (FxPatch nm cs out) (ob_fx ob) ->
  exists m node, w_ctl w = Some m /\ nm = n_name node /\
  exists p e, get_entry m p = Some e /\ cc_term e = false /\
    (fst p = default_key \/ exists rs, po (fst p) = Some rs /\ fst (match_reqs (n_labels node) rs) = true) /\
    match cc_v4 e, cc_v6 e with
    | Some p4, Some p6 => exists i j, i < maxc (pg p4) /\ j < maxc (pg p6) /\ cs = [block (pg p4) i; block (pg p6) j]
    | Some p4, None => exists i, i < maxc (pg p4) /\ cs = [block (pg p4) i]
    | None, Some p6 => exists j, j < maxc (pg p6) /\ cs = [block (pg p6) j]
    | None, None => cs = []
    end.
Proof. intros po lab ops o w' ob H w Hs nm cs out He. exact (history_assignment_ok po lab ops o w' ob H Hs nm cs out He). Qed.
Print Assumptions C02_every_assignment_of_every_history.

(* ... and with the model of the labels package in place of the parse oracle (Lbl.v, Keys_proofs.v): in every history in which
   ClusterCIDR objects carry the key nodeSelectorKey computes from their selector, every PATCH carries blocks of an entry that
   is not terminating and is filed under the key of a selector EVERY requirement of which the node's labels satisfy (or under
   the catch-all default key): "eligible" in terms of the selector's own requirements, with no parser in the statement *)
Theorem C02_every_assignment_respects_the_selectors_own_requirements :
  forall lab ops o w' ob, Forall wf_op ops -> Forall op_keys_computed ops ->
  let w := run sel_parse lab init_world ops in
  step sel_parse lab w o = (w', ob) ->
  forall nm cs out, In (FxPatch nm cs out) (ob_fx ob) ->
  exists m node p e, w_ctl w = Some m /\ nm = n_name node /\ get_entry m p = Some e /\ cc_term e = false /\
    exists rs, selector_key rs = Some (fst p) /\ (fst p = default_key \/ forallb (req_matches (n_labels node)) rs = true).
Proof. exact every_assignment_respects_the_selectors_requirements. Qed.
Print Assumptions C02_every_assignment_respects_the_selectors_own_requirements.
