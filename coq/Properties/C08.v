(* C08 -- Pod CIDRs of a node are never changed, re-syncing a node is a no-op. *)
From NIPAM Require Import Sys Alloc_proofs Sys_proofs.
Open Scope N_scope.

(* in every step of every history from the initial world, a PATCH goes only to a node that the node
   cache shows, at that very instant (the re-read under the lock), without pod CIDRs *)
Theorem C08_never_writes_an_assigned_node :
  forall po lab ops o ob w', In (o, ob, w') (trace po lab init_world ops) ->
  exists wb, reachable po lab init_world wb /\ step po lab wb o = (w', ob) /\
    forall nm cs out, In (FxPatch nm cs out) (ob_fx ob) ->
      exists n, find_node nm (w_ncache wb) = Some n /\ n_cidrs n = [].
Proof. exact history_patch_only_unassigned. Qed.
Print Assumptions C08_never_writes_an_assigned_node.

(* processing a node that already has pod CIDRs issues no API request at all, whatever the state,
   the staleness of the copy being processed, or the scripted outcomes *)
Theorem C08_resync_writes_nothing :
  forall po lab svcs canp apisame held m node reread outs,
  n_cidrs node <> [] -> n_deleting node = false ->
  snd (sync_node po lab svcs canp apisame held m (Some node) reread outs) = [].
Proof. exact sync_assigned_node_writes_nothing. Qed.
Print Assumptions C08_resync_writes_nothing.
