(* C03 -- A restart at any instant loses no assignment and resurrects none.
   Proved: a crash keeps exactly the API objects (no assignment is lost: assignments live in the nodes' spec); the new
   incarnation's state is a function of the API objects only (nothing that is not in the API objects is resurrected);
   and over whole histories with ANY NUMBER OF RESTARTS at arbitrary points (Hist3_proofs.v): no incarnation ever gives
   a node a pod CIDR overlapping what another existing node -- or a node whose deletion it has not processed yet -- holds,
   whether that was assigned by this incarnation or by an earlier one.
   Wiring (main.go lists nodes, constructs, starts informers, runs): gen/C03_current.v from translator facts.
   Outside the theorem's universe (monitored): tombstones, relists, nodes marked deleting, pre-set pod CIDRs. *)
From NIPAM Require Import Sys Alloc_proofs Sys_proofs Hist_proofs Hist2_proofs Hist3_proofs Hist4_proofs Inv_proofs Just_proofs Default_proofs.
Open Scope N_scope.

(* a crash keeps the API objects and forgets everything else *)
Theorem C03_crash_keeps_only_api_objects :
  forall po lab w, let w' := fst (step po lab w Crash) in
  w_nodes w' = w_nodes w /\ w_ccs w' = w_ccs w /\ w_ctl w' = None /\ w_ncache w' = [] /\ w_ccache w' = [] /\
  w_nq w' = empty_q /\ w_cq w' = empty_q /\ w_nfetch w' = [] /\ w_cfetch w' = [].
Proof. exact crash_keeps_api. Qed.
Print Assumptions C03_crash_keeps_only_api_objects.

(* the new incarnation's state is a function of the API objects only: two worlds with the same API
   objects yield the same world after construction, whatever their previous memory was *)
Theorem C03_rebuilt_from_api_objects_only :
  forall po lab w w2 s1 s2 outs dp,
  w_ctl w = None -> w_ctl w2 = None -> w_nodes w = w_nodes w2 -> w_ccs w = w_ccs w2 -> w_rv w = w_rv w2 ->
  w_delseen w = w_delseen w2 ->
  step po lab w (Construct s1 s2 outs dp) = step po lab w2 (Construct s1 s2 outs dp).
Proof. exact construct_from_api_only. Qed.
Print Assumptions C03_rebuilt_from_api_objects_only.

(* all other guarantees keep holding afterwards: the history theorems (C01, C08) are stated for
   every op list, and Crash / Construct / StartInformers are ops like any other *)
Theorem C03_guarantees_hold_across_restarts :
  forall po lab w0 ops o ob w', In (o, ob, w') (trace po lab w0 ops) ->
  exists wb, reachable po lab w0 wb /\ step po lab wb o = (w', ob) /\
    forall nm cs out, In (FxPatch nm cs out) (ob_fx ob) ->
      forall c nd c' canon, In c cs -> In nd (w_ncache wb) -> In (PGood c' canon) (n_cidrs nd) -> overlapb c c' = false.
Proof. exact history_patches_avoid_cached_nodes. Qed.
Print Assumptions C03_guarantees_hold_across_restarts.

(* across restarts: whatever earlier incarnations assigned is respected by every later one *)
Theorem C03_assignments_survive_any_number_of_restarts :
  forall po lab ops,
  Forall tame3_op ops -> NoDup (flat_map created ops) ->
  let w := run po lab init_world ops in
  forall n1 c1 n2 c2, holder w n1 c1 -> holder w n2 c2 -> n1 <> n2 -> overlapb c1 c2 = false.
Proof. exact no_overlap_across_restarts. Qed.
Print Assumptions C03_assignments_survive_any_number_of_restarts.

(* the same with the whole informer contract (tombstones, relists), operations judged in the state they are applied to,
   pod CIDRs that exist before an incarnation starts watching included (Hist4_proofs.v) *)
Theorem C03_assignments_survive_restarts_tombstones_and_relists :
  forall po lab ops, valid4 po lab init_world ops ->
  let w := run po lab init_world ops in
  forall n1 c1 n2 c2, holder w n1 c1 -> holder w n2 c2 -> n1 <> n2 -> overlapb c1 c2 = false.
Proof. exact no_overlap_with_tombstones_and_relists. Qed.
Print Assumptions C03_assignments_survive_restarts_tombstones_and_relists.

(* "resurrects none": right after construction every block in use in any pool overlaps a configured service range or a pod
   CIDR of one of the listed nodes -- nothing the previous incarnation had reserved (tentative blocks, blocks of nodes that
   were deleted while the controller was down, leaks) survives unless the API objects justify it *)
Theorem C03_construction_resurrects_nothing :
  forall po lab ccs outs s1 s2 nodes m fx pan,
  Forall good_obj ccs -> Forall wf_node nodes ->
  (forall s, s1 = Some s -> wf_cidr s) -> (forall s, s2 = Some s -> wf_cidr s) ->
  construct po lab ccs outs s1 s2 nodes = (m, fx, pan) ->
  forall e, In e (all_entries m) -> forall f pl, pool_of e f = Some pl -> forall b, In b (used pl) ->
  (exists s, (s1 = Some s \/ s2 = Some s) /\ overlap b s) \/
  (exists n c cn, In n nodes /\ In (PGood c cn) (n_cidrs n) /\ overlap b c).
Proof. exact construct_resurrects_nothing. Qed.
Print Assumptions C03_construction_resurrects_nothing.
