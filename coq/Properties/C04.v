(* C04 -- Blocks are withheld only while something in the cluster justifies it.
   Proved: a tentatively reserved block that is given back leaves the pool exactly as before
   (same used blocks, same count): this is what every failed attempt does (other family exhausted:
   prioritized_try; clean write failure, node already had CIDRs, node vanished: update_cidrs_allocation,
   all by [release_in] on the blocks just reserved); and releasing a node's CIDRs removes exactly
   the blocks they overlap in every entry the node is associated with.
   The base case of the global statement is proved: right after construction every block in use is justified by a
   service range or a listed node (Just_proofs.v).
   Not proved (monitored on the implementation's traces at every idle point by the check): the
   global statement over all histories -- it needs the world-level justification invariant;
   recorded residues K-D21, K-TOMB. *)
From NIPAM Require Import Sys Alloc_proofs Inv_proofs Pool_proofs Geom_proofs Just_proofs.
Open Scope N_scope.

Theorem C04_partial_reserve_then_release_restores :
  forall p i p1 p2, PoolInv p -> clean_geom (pg p) = true -> i < maxc (pg p) -> ~ In (block (pg p) i) (used p) ->
  occupy p (block (pg p) i) = Some p1 -> release p1 (block (pg p) i) = Some p2 ->
  (forall j, j < maxc (pg p) -> (abs p2 j <-> abs p j)) /\ cnt p2 = cnt p /\ pg p2 = pg p.
Proof. exact reserve_then_release_restores. Qed.
Print Assumptions C04_partial_reserve_then_release_restores.

(* releasing any CIDR frees exactly the blocks it overlaps (all relative sizes) *)
Theorem C04_partial_release_frees_exactly_overlapping :
  forall p c, PoolInv p -> clean_geom (pg p) = true -> wf_cidr c ->
  match release p c with
  | None => ~ overlap (grange (pg p)) c
  | Some p' =>
      overlap (grange (pg p)) c /\ PoolInv p' /\ UsageOk p' /\ pg p' = pg p /\ cur p' = cur p /\ m_alloc p' = m_alloc p /\
      forall i, i < maxc (pg p) -> (In (block (pg p) i) (used p') <-> In (block (pg p) i) (used p) /\ ~ overlap (block (pg p) i) c)
  end.
Proof. exact release_spec. Qed.
Print Assumptions C04_partial_release_frees_exactly_overlapping.

(* a node write that fails cleanly on every attempt ends with the reserved blocks given back *)
Theorem C04_partial_failed_attempt_keeps_invariant :
  forall canp apisame m name cs p reread outs m' r fx,
  MapInv m -> Forall wf_cidr cs -> update_cidrs_allocation canp apisame m name cs p reread outs = (m', r, fx) -> MapInv m'.
Proof. exact update_cidrs_allocation_inv. Qed.
Print Assumptions C04_partial_failed_attempt_keeps_invariant.

(* the base case of the global invariant: a new incarnation withholds nothing that a service range or a listed node does
   not justify *)
Theorem C04_partial_after_construction_everything_in_use_is_justified :
  forall po lab ccs outs s1 s2 nodes m fx pan,
  Forall good_obj ccs -> Forall wf_node nodes ->
  (forall s, s1 = Some s -> wf_cidr s) -> (forall s, s2 = Some s -> wf_cidr s) ->
  construct po lab ccs outs s1 s2 nodes = (m, fx, pan) ->
  forall e, In e (all_entries m) -> forall f pl, pool_of e f = Some pl -> forall b, In b (used pl) -> justified s1 s2 nodes b.
Proof. exact construct_resurrects_nothing. Qed.
Print Assumptions C04_partial_after_construction_everything_in_use_is_justified.
