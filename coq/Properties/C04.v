(* C04 -- Blocks are withheld only while something in the cluster justifies it.
   Proved: a tentatively reserved block that is given back leaves the pool exactly as before
   (same used blocks, same count): this is what every failed attempt does (other family exhausted:
   prioritized_try; clean write failure, node already had CIDRs, node vanished: update_cidrs_allocation,
   all by [release_in] on the blocks just reserved); and releasing a node's CIDRs removes exactly
   the blocks they overlap in every entry the node is associated with.
   The base case of the global statement is proved: right after construction every block in use is justified by a
   service range or a listed node (Just_proofs.v).
   The global statement is proved as an invariant of histories (Just2_proofs.v): in every world reached by a history of
   well-formed operations in which no node is deleted and no read-back after timed-out writes fails -- any schedule of workers
   with stale work items, any failing or timing-out writes, crashes and restarts, relists, ClusterCIDR creation and deletion,
   label changes, nodes marked as being deleted, pre-set pod CIDRs -- every block in use in any pool overlaps a configured
   service range or a pod CIDR of an existing node.  The two hypotheses are exactly the recorded residues: with node deletion
   the statement is false of the code (K-D21, K-TOMB, K-REPL); a failed read-back keeps the reservation of a write whose
   outcome is unknown, which the property counts as a justification but the model's world does not record (K-AMB).
   Not proved: the statement with node deletion restricted to the histories the residues do not cover (monitored on the
   implementation's traces at every idle point by the check). *)
From NIPAM Require Import Sys Alloc_proofs Inv_proofs Pool_proofs Geom_proofs World_proofs Path_proofs Just_proofs Just2_proofs.
From Coq Require Import Lia.
Open Scope N_scope.

Theorem C04_partial_reserve_then_release_restores :
  forall p i p1 p2, PoolInv p -> clean_geom (pg p) = true -> i < maxc (pg p) -> ~ In (block (pg p) i) (used p) ->
  occupy p (block (pg p) i) = Some p1 -> release p1 (block (pg p) i) = Some p2 ->
  (forall j, j < maxc (pg p) -> (abs p2 j <-> abs p j)) /\ cnt p2 = cnt p /\ pg p2 = pg p.
Proof. exact reserve_then_release_restores. Qed.
Print Assumptions C04_partial_reserve_then_release_restores.

(* releasing any CIDR frees exactly the blocks it overlaps (all relative sizes) *)
Theorem C04_partial_release_frees_exactly_overlapping :
  forall p c, PoolInv p -> clean_geom (pg p) = true -> wf_cidr c ->
  match release p c with
  | None => ~ overlap (grange (pg p)) c
  | Some p' =>
      overlap (grange (pg p)) c /\ PoolInv p' /\ UsageOk p' /\ pg p' = pg p /\ cur p' = cur p /\ m_alloc p' = m_alloc p /\
      forall i, i < maxc (pg p) -> (In (block (pg p) i) (used p') <-> In (block (pg p) i) (used p) /\ ~ overlap (block (pg p) i) c)
  end.
Proof. exact release_spec. Qed.
Print Assumptions C04_partial_release_frees_exactly_overlapping.

(* a node write that fails cleanly on every attempt ends with the reserved blocks given back *)
Theorem C04_partial_failed_attempt_keeps_invariant :
  forall canp apisame m name cs p reread outs m' r fx,
  MapInv m -> Forall wf_cidr cs -> update_cidrs_allocation canp apisame m name cs p reread outs = (m', r, fx) -> MapInv m'.
Proof. exact update_cidrs_allocation_inv. Qed.
Print Assumptions C04_partial_failed_attempt_keeps_invariant.

(* the base case of the global invariant: a new incarnation withholds nothing that a service range or a listed node does
   not justify *)
Theorem C04_partial_after_construction_everything_in_use_is_justified :
  forall po lab ccs outs s1 s2 nodes m fx pan,
  Forall good_obj ccs -> Forall wf_node nodes ->
  (forall s, s1 = Some s -> wf_cidr s) -> (forall s, s2 = Some s -> wf_cidr s) ->
  construct po lab ccs outs s1 s2 nodes = (m, fx, pan) ->
  forall e, In e (all_entries m) -> forall f pl, pool_of e f = Some pl -> forall b, In b (used pl) -> justified s1 s2 nodes b.
Proof. exact construct_resurrects_nothing. Qed.
Print Assumptions C04_partial_after_construction_everything_in_use_is_justified.

(* ---------- the property over histories ---------- *)
Theorem C04_every_used_block_is_justified_in_every_history_without_node_deletion :
  forall po lab ops, Forall wf_op ops -> Forall c04_op ops ->
  let w := run po lab init_world ops in
  forall m, w_ctl w = Some m -> forall e, In e (all_entries m) -> forall f pl, pool_of e f = Some pl -> forall b, In b (used pl) ->
    (exists s, In s (svc_list (w_svc w)) /\ overlap b s) \/
    (exists a c cn, In a (w_nodes w) /\ In (PGood c cn) (an_cidrs a) /\ overlap b c).
Proof. exact used_blocks_are_justified_in_every_history. Qed.
Print Assumptions C04_every_used_block_is_justified_in_every_history_without_node_deletion.

(* what one node work item can leave behind: either every block in use is justified as before, or the reservation of the
   blocks cs was kept -- and then the re-read node shows them, or a write carrying them was applied, or the API server shows
   them, or the read-back failed *)
Theorem C04_node_work_item_keeps_only_what_it_wrote :
  forall (J : cidr -> Prop) po lab svcs canp apisame held m cached reread outs m' r fx,
  MapInv m -> KU m -> Forall wf_cidr svcs -> (forall n, cached = Some n -> wf_node n) ->
  (forall s, In s svcs -> forall b, overlap b s -> J b) ->
  (forall node c cn, cached = Some node -> reread <> None -> n_deleting node = false -> In (PGood c cn) (n_cidrs node) -> forall b, overlap b c -> J b) ->
  sync_node po lab svcs canp apisame held m cached reread outs = (m', r, fx) -> JM J m ->
  JM J m' \/
  exists node cs, cached = Some node /\ n_cidrs node = [] /\ n_deleting node = false /\ cs <> [] /\
                  JM (jany J cs) m' /\ kept_reason canp apisame (n_name node) cs reread outs fx.
Proof. exact jm_sync_node. Qed.
Print Assumptions C04_node_work_item_keeps_only_what_it_wrote.

(* non-vacuity: a history of the theorem's kind with a rejected write (block given back), a timed-out write that was applied,
   a restart and a ClusterCIDR deletion; at the end one block is in use, held by n2 *)
Example C04_history_nonvacuous :
  let po0 : parse_oracle := fun _ => Some [] in
  let lab0 : label_oracle := fun k => [cl k] in
  let ops := [UCreateCC (mkCCObj [99] (FOk (mkCidr V4 167772160 27)) FEmpty 4 (Some [107]) [] false 1 0 0);
              Construct None None [UOk] []; StartInformers; ProcCC UOk;
              UCreateNode [110;49] [] []; DeliverNode; ProcNode [PFail; PFail; PFail]; Tick;
              UCreateNode [110;50] [] []; DeliverNode; ProcNode [PTimeoutApplied; PFail; PFail; POk];
              Crash; Construct None None [UOk] []; StartInformers; ProcCC UOk] in
  Forall wf_op ops /\ Forall c04_op ops /\
  match w_ctl (run po0 lab0 init_world ops) with
  | Some m => flat_map (fun e => match cc_v4 e with Some p => used p | None => [] end) (all_entries m) = [mkCidr V4 167772176 28]
  | None => False
  end.
Proof.
  cbv zeta. split; [|split; [|vm_compute; reflexivity]].
  - repeat constructor; cbn; try (intros ? E; discriminate E);
      try (unfold good_obj, good_field, good_range, wf_cidr; cbn; repeat split; try lia; try discriminate; intros [? _]; discriminate).
  - repeat constructor; cbn; discriminate.
Qed.

(* ---------- why the hypothesis "no node is deleted" cannot be dropped: the unconditional statement is false of the model (and of
   the code: the three witnesses are the recorded residues K-D21, K-TOMB, K-REPL, replayed on the implementation by the corpus) *)
Definition po_w : parse_oracle := fun _ => Some [].
Definition lab_w : label_oracle := fun k => [cl k].
Definition cc_w := UCreateCC (mkCCObj [99] (FOk (mkCidr V4 167772160 27)) FEmpty 4 (Some [107]) [] false 1 0 0).

Definition unjustified_after (ops : list op) : Prop :=
  Forall wf_op ops /\
  let w := run po_w lab_w init_world ops in
  exists b, In b (used_blocks w) /\ wf_cidr b /\ ~ Jw w b.

Ltac refute_c04 :=
  split; [repeat constructor; cbn; try (intros ? E; discriminate E);
          try (unfold good_obj, good_field, good_range, wf_pcidr, wf_cidr; cbn; repeat split; try lia; try discriminate; intros [? _]; discriminate)|];
  match goal with |- let w := run ?po ?lab init_world ?ops in _ =>
    intros w; exists (mkCidr V4 167772160 28);
    assert (Hw : WInv w) by (apply run_winv; [apply winv_init|repeat constructor; cbn; try (intros ? E; discriminate E);
       try (unfold good_obj, good_field, good_range, wf_pcidr, wf_cidr; cbn; repeat split; try lia; try discriminate; intros [? _]; discriminate)]);
    assert (Hb : wf_cidr (mkCidr V4 167772160 28)) by (unfold wf_cidr; cbn; repeat split; try lia; reflexivity);
    split; [vm_compute; left; reflexivity|split; [exact Hb|]];
    intros HJ; pose proof (justb_complete w _ Hw Hb HJ) as Hjb; vm_compute in Hjb; discriminate Hjb
  end.

(* K-D21: a listed node is deleted between the start-up listing and the start of the informers *)
Theorem C04_with_node_deletion_refuted_K_D21 :
  unjustified_after [cc_w; UCreateNode [110;49] [] [PGood (mkCidr V4 167772160 28) true]; Construct None None [UOk] [];
                     UDeleteNode [110;49]; StartInformers; ProcCC UOk].
Proof. refute_c04. Qed.

(* K-TOMB: the deletion is seen only through a relist whose last known state predates the controller's own write *)
Theorem C04_with_node_deletion_refuted_K_TOMB :
  unjustified_after [cc_w; Construct None None [UOk] []; StartInformers; ProcCC UOk; UCreateNode [110;49] [] []; DeliverNode;
                     ProcNode [POk]; UDeleteNode [110;49]; RelistNodes].
Proof. refute_c04. Qed.

(* K-REPL: the node is deleted and created again under the same name while the watch is broken *)
Theorem C04_with_node_deletion_refuted_K_REPL :
  unjustified_after [cc_w; Construct None None [UOk] []; StartInformers; ProcCC UOk; UCreateNode [110;49] [] []; DeliverNode;
                     ProcNode [POk]; DeliverNode; UDeleteNode [110;49]; UCreateNode [110;49] [] []; RelistNodes].
Proof. refute_c04. Qed.
