(* C18 -- ClusterCIDR validation accepts exactly the documented specs; spec is immutable. *)
From NIPAM Require Import Valid Valid_proofs Lbl ValidSel.
Open Scope Z_scope.

(* no field error is returned exactly when: at least one of ipv4/ipv6 is given, each given range
   parses and is of its own family, 4 <= perNodeHostBits <= host bits of every given range, and
   the selector (if any) has at least one term and only well-formed requirements *)
Theorem C18_validation_accepts_exactly_documented : forall s, validate_spec s = 0%nat <-> accepts s = true.
Proof. exact validate_spec_accepts. Qed.
Print Assumptions C18_validation_accepts_exactly_documented.

(* the same on the selector itself: key validity (IsQualifiedName), the field key and node-name validity (IsDNS1123Subdomain)
   are computed from the requirement's key and values (ValidSel.v, Lbl.v) instead of being taken from the library *)
Theorem C18_validation_accepts_exactly_documented_selector :
  forall sel hb v4 v6,
  validate_spec_raw sel hb v4 v6 = 0%nat <->
  (negb (match v4, v6 with VEmpty, VEmpty => true | _, _ => false end) && field_ok true 32 hb v4 && field_ok false 128 hb v6 &&
   match sel with Some ts => rawsel_ok ts | None => true end)%bool = true.
Proof. exact validate_spec_raw_accepts. Qed.
Print Assumptions C18_validation_accepts_exactly_documented_selector.

Example C18_selector_nonvacuous :
  (* example.com/zone in (a) is accepted; a key with an empty name part is not *)
  validate_spec_raw (Some [mkRawTerm [mkRaw [101;120;97;109;112;108;101;46;99;111;109;47;122;111;110;101]%N (Some OpIn) [[97%N]]] []]) 8 (VCidr true 16) VEmpty = 0%nat /\
  validate_spec_raw (Some [mkRawTerm [mkRaw [120; 47]%N (Some OpExists) []] []]) 8 (VCidr true 16) VEmpty = 2%nat.
Proof. split; vm_compute; reflexivity. Qed.

(* where validation stops and the controller's own check of the selector begins: a validated matchExpressions requirement is one
   labels.NewRequirement accepts when its values are label values and, for Gt / Lt, an integer -- what validation does not look at *)
Theorem C18_validated_requirement_is_accepted_by_NewRequirement :
  forall r op, rr_op r = Some op -> rawreq_ok r = true -> forallb valid_value (rr_vals r) = true ->
  (match op with OpGt | OpLt => forallb (fun v => is_some (parse_int64 v)) (rr_vals r) = true | _ => True end) ->
  new_req_ok (req_of_raw r op) = true.
Proof. exact validated_requirement_is_accepted. Qed.

(* the limits, for every prefix length at once *)
Theorem C18_hostbits_limits : forall (is4 : bool) (ms hb : Z),
  let w := if is4 then 32 else 128 in
  0 <= ms <= w ->
  (accepts (mkVspec None hb (if is4 then VCidr true ms else VEmpty) (if is4 then VEmpty else VCidr false ms)) = true
   <-> 4 <= hb <= w - ms).
Proof. exact hostbits_boundary. Qed.
Print Assumptions C18_hostbits_limits.

(* update validation rejects every change to any spec field and accepts an unchanged spec *)
Theorem C18_update_immutable : forall u o, validate_update u o = 0%nat <-> u = o.
Proof. intros u o. rewrite validate_update_immutable. apply uspec_eqb_eq. Qed.
Print Assumptions C18_update_immutable.

Example C18_nonvacuous :
  accepts (mkVspec (Some [mkVterm [mkVreq (Some OpIn) 2 0%nat] []]) 8 (VCidr true 16) (VCidr false 64)) = true /\
  validate_spec (mkVspec None 3 (VCidr true 16) VEmpty) = 1%nat.
Proof. split; reflexivity. Qed.
