(* C18 -- ClusterCIDR validation accepts exactly the documented specs; spec is immutable. *)
From NIPAM Require Import Valid Valid_proofs.
Open Scope Z_scope.

(* no field error is returned exactly when: at least one of ipv4/ipv6 is given, each given range
   parses and is of its own family, 4 <= perNodeHostBits <= host bits of every given range, and
   the selector (if any) has at least one term and only well-formed requirements *)
Theorem C18_validation_accepts_exactly_documented : forall s, validate_spec s = 0%nat <-> accepts s = true.
Proof. exact validate_spec_accepts. Qed.
Print Assumptions C18_validation_accepts_exactly_documented.

(* the limits, for every prefix length at once *)
Theorem C18_hostbits_limits : forall (is4 : bool) (ms hb : Z),
  let w := if is4 then 32 else 128 in
  0 <= ms <= w ->
  (accepts (mkVspec None hb (if is4 then VCidr true ms else VEmpty) (if is4 then VEmpty else VCidr false ms)) = true
   <-> 4 <= hb <= w - ms).
Proof. exact hostbits_boundary. Qed.
Print Assumptions C18_hostbits_limits.

(* update validation rejects every change to any spec field and accepts an unchanged spec *)
Theorem C18_update_immutable : forall u o, validate_update u o = 0%nat <-> u = o.
Proof. intros u o. rewrite validate_update_immutable. apply uspec_eqb_eq. Qed.
Print Assumptions C18_update_immutable.

Example C18_nonvacuous :
  accepts (mkVspec (Some [mkVterm [mkVreq (Some OpIn) 2 true] []]) 8 (VCidr true 16) (VCidr false 64)) = true /\
  validate_spec (mkVspec None 3 (VCidr true 16) VEmpty) = 1%nat.
Proof. split; reflexivity. Qed.
