(* C17 -- A ClusterCIDR applies to exactly the nodes its selector describes (stage 1: the
   print/parse round trip of apimachinery's labels package is the named hypothesis RT of the
   section; it is exercised on every run by the correspondence check, which compares the real
   nodeSelectorKey + matchCIDRLabels with [match_reqs] applied to the selector's OWN requirements). *)
From NIPAM Require Import Sel Alloc Sel_proofs.
Open Scope N_scope.

Theorem C17_match_iff_all_requirements_hold :
  forall ls rs, fst (match_reqs ls rs) = true <-> forallb (req_matches ls) rs = true.
Proof. exact match_reqs_all. Qed.
Print Assumptions C17_match_iff_all_requirements_hold.

Theorem C17_partial_considered_iff_selector_holds :
  forall (sel_print : list req -> str) (sel_parse : str -> option (list req)) (valid_reqs : list req -> Prop),
    (forall rs, valid_reqs rs -> exists rs', sel_parse (sel_print rs) = Some rs' /\ forall ls, match_reqs ls rs' = match_reqs ls rs) ->
    forall rs ls, valid_reqs rs ->
      exists rs', sel_parse (sel_print rs) = Some rs' /\
        (fst (match_reqs ls rs') = true <-> forallb (req_matches ls) rs = true).
Proof. exact considered_iff_all_requirements. Qed.
Print Assumptions C17_partial_considered_iff_selector_holds.

Theorem C17_partial_same_key_same_meaning :
  forall (sel_print : list req -> str) (sel_parse : str -> option (list req)) (valid_reqs : list req -> Prop),
    (forall rs, valid_reqs rs -> exists rs', sel_parse (sel_print rs) = Some rs' /\ forall ls, match_reqs ls rs' = match_reqs ls rs) ->
    forall rs1 rs2, valid_reqs rs1 -> valid_reqs rs2 -> sel_print rs1 = sel_print rs2 ->
      forall ls, match_reqs ls rs1 = match_reqs ls rs2.
Proof. exact same_key_same_meaning. Qed.
Print Assumptions C17_partial_same_key_same_meaning.

Theorem C17_unrepresentable_selector_rejected :
  forall m o term boot out, o_selkey o = None -> create_cluster_cidr m o term boot out = (m, Err ESelector, []).
Proof. exact unrepresentable_selector_rejected. Qed.
Print Assumptions C17_unrepresentable_selector_rejected.

(* the six operators *)
Theorem C17_in : forall ls k vs, req_matches ls (mkReq k OpIn vs) = true <-> exists v, lookup k ls = Some v /\ str_in v vs = true.
Proof. exact req_matches_in. Qed.
Theorem C17_notin : forall ls k vs, req_matches ls (mkReq k OpNotIn vs) = true <-> (lookup k ls = None \/ exists v, lookup k ls = Some v /\ str_in v vs = false).
Proof. exact req_matches_notin. Qed.
Theorem C17_exists : forall ls k vs, req_matches ls (mkReq k OpExists vs) = true <-> lookup k ls <> None.
Proof. exact req_matches_exists. Qed.
Theorem C17_doesnotexist : forall ls k vs, req_matches ls (mkReq k OpDoesNotExist vs) = true <-> lookup k ls = None.
Proof. exact req_matches_notexists. Qed.
Theorem C17_gt : forall ls k vs, req_matches ls (mkReq k OpGt vs) = true <->
  exists v lv rv rvz, lookup k ls = Some v /\ parse_int64 v = Some lv /\ vs = [rv] /\ parse_int64 rv = Some rvz /\ (rvz < lv)%Z.
Proof. exact req_matches_gt. Qed.
Theorem C17_lt : forall ls k vs, req_matches ls (mkReq k OpLt vs) = true <->
  exists v lv rv rvz, lookup k ls = Some v /\ parse_int64 v = Some lv /\ vs = [rv] /\ parse_int64 rv = Some rvz /\ (lv < rvz)%Z.
Proof. exact req_matches_lt. Qed.
Print Assumptions C17_gt.

Example C17_nonvacuous :
  match_reqs [([122], [97]); ([114], [53])] [mkReq [122] OpIn [[97]; [98]]; mkReq [114] OpGt [[51]]] = (true, 2).
Proof. vm_compute. reflexivity. Qed.
