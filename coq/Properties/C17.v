(* C17 -- A ClusterCIDR applies to exactly the nodes its selector describes.
   Stage 1 (the C17_partial_* theorems): for ANY printer and parser with the round-trip property RT.
   Stage 2: RT is a theorem of the model of apimachinery's printer, lexer and parser ([Lbl.v], proofs in [Lbl_proofs.v]); the
   model is run against the real library on every run (labels.Parse on arbitrary texts, nodeSelectorKey byte for byte), and the
   correspondence check still compares the real nodeSelectorKey + matchCIDRLabels with [match_reqs] applied to the
   selector's OWN requirements. *)
From NIPAM Require Import Sel Lbl Alloc Sys Sel_proofs Lbl_proofs Keys_proofs.
Open Scope N_scope.

Theorem C17_match_iff_all_requirements_hold :
  forall ls rs, fst (match_reqs ls rs) = true <-> forallb (req_matches ls) rs = true.
Proof. exact match_reqs_all. Qed.
Print Assumptions C17_match_iff_all_requirements_hold.

Theorem C17_partial_considered_iff_selector_holds :
  forall (sel_print : list req -> str) (sel_parse : str -> option (list req)) (valid_reqs : list req -> Prop),
    (forall rs, valid_reqs rs -> exists rs', sel_parse (sel_print rs) = Some rs' /\ forall ls, match_reqs ls rs' = match_reqs ls rs) ->
    forall rs ls, valid_reqs rs ->
      exists rs', sel_parse (sel_print rs) = Some rs' /\
        (fst (match_reqs ls rs') = true <-> forallb (req_matches ls) rs = true).
Proof. exact considered_iff_all_requirements. Qed.
Print Assumptions C17_partial_considered_iff_selector_holds.

Theorem C17_partial_same_key_same_meaning :
  forall (sel_print : list req -> str) (sel_parse : str -> option (list req)) (valid_reqs : list req -> Prop),
    (forall rs, valid_reqs rs -> exists rs', sel_parse (sel_print rs) = Some rs' /\ forall ls, match_reqs ls rs' = match_reqs ls rs) ->
    forall rs1 rs2, valid_reqs rs1 -> valid_reqs rs2 -> sel_print rs1 = sel_print rs2 ->
      forall ls, match_reqs ls rs1 = match_reqs ls rs2.
Proof. exact same_key_same_meaning. Qed.
Print Assumptions C17_partial_same_key_same_meaning.

(* ---- stage 2: no hypothesis ---- *)
(* every selector whose requirements labels.NewRequirement accepts is printed to a text that labels.Parse reads back with the
   same meaning (same verdict and same number of satisfied requirements for every label set) -- or, when one requirement is
   In / NotIn over an odd number (three or more) of values that are all the empty string, to a text that is not read back at all *)
Theorem C17_print_parse_round_trip :
  forall rs, forallb new_req_ok rs = true ->
    if existsb bad_req rs then sel_parse (sel_string rs) = None
    else exists rs', sel_parse (sel_string rs) = Some rs' /\ forall ls, match_reqs ls rs' = match_reqs ls rs.
Proof. exact round_trip. Qed.
Print Assumptions C17_print_parse_round_trip.

(* nodeSelectorKey files a ClusterCIDR under a key exactly when its selector is representable *)
Theorem C17_key_exactly_for_representable_selectors :
  forall rs k, selector_key rs = Some k <-> forallb new_req_ok rs = true /\ existsb bad_req rs = false /\ k = sel_string rs.
Proof. exact selector_key_some. Qed.
Print Assumptions C17_key_exactly_for_representable_selectors.

(* a ClusterCIDR filed under the key of its own selector is considered for a node (matchCIDRLabels on the key says "labels
   match") exactly when every requirement of the selector holds of the node's labels; matchCIDRLabels never fails on such a key *)
Theorem C17_considered_iff_selector_holds :
  forall rs k ls, selector_key rs = Some k ->
    exists verdict, match_key ls k = Some verdict /\ (fst verdict = true <-> forallb (req_matches ls) rs = true) /\
                    snd verdict = N.of_nat (length (filter (req_matches ls) rs)).
Proof.
  intros rs k ls H. exists (match_reqs ls rs). split; [exact (match_key_of_selector_key rs k H ls)|]. split; [apply match_reqs_all|reflexivity].
Qed.
Print Assumptions C17_considered_iff_selector_holds.

(* two selectors filed under the same key mean the same: no ClusterCIDR is found under a selector with a different meaning *)
Theorem C17_same_key_same_meaning :
  forall rs1 rs2 k, selector_key rs1 = Some k -> selector_key rs2 = Some k -> forall ls, match_reqs ls rs1 = match_reqs ls rs2.
Proof. exact same_key_same_meaning_lbl. Qed.
Print Assumptions C17_same_key_same_meaning.

(* the selector D23 is about is not read back, and gets no key (since b13dc0f) *)
Example C17_D23_selector_gets_no_key :
  new_req_ok (mkReq [122] OpNotIn [[]; []; []]) = true /\ parse (sel_string [mkReq [122] OpNotIn [[]; []; []]]) = None /\
  selector_key [mkReq [122] OpNotIn [[]; []; []]] = None.
Proof. exact d23_not_read_back. Qed.
Example C17_round_trip_nonvacuous :
  selector_key [mkReq [122] OpIn [[98]; []; [97]]; mkReq kw_in OpNotIn [kw_in]; mkReq [97] OpGt [[53]]; mkReq [98] OpDoesNotExist []] <> None.
Proof. exact round_trip_nonvacuous. Qed.

(* ---- the closed loop: in every history in which ClusterCIDR objects carry the key nodeSelectorKey computes from their selector,
   every key of the controller's map is read back by labels.Parse with the meaning of a selector it was computed from;
   matchCIDRLabels fails on no key and for no node, and collecting the ClusterCIDRs that match a node never fails on a key
   (what D23 caused for every node of the cluster) ---- *)
Theorem C17_every_key_is_read_back_in_every_history :
  forall lab ops m, Forall op_keys_computed ops -> w_ctl (run sel_parse lab init_world ops) = Some m ->
    (forall k l, In (k, l) m -> exists rs, selector_key rs = Some k /\ forall ls, match_key ls k = Some (match_reqs ls rs)) /\
    (forall ls occ, collect_items sel_parse lab ls occ m <> None) /\
    (forall ls occ, ordered_matching sel_parse lab m ls occ <> Err EBadKey).
Proof. exact every_key_is_read_back_in_every_history. Qed.
Print Assumptions C17_every_key_is_read_back_in_every_history.

(* the hypothesis is met by every object whose key is computed from its selector, and by a concrete history *)
Theorem C17_computed_keys_meet_the_hypothesis :
  forall name v4 v6 hb rs fins del gen rv rest, op_keys_computed (UCreateCC (mkCCObj name v4 v6 hb (selector_key rs) fins del gen rv rest)).
Proof. intros. apply computed_key_ok. Qed.
Example C17_history_nonvacuous :
  let lab0 : label_oracle := fun k => [cl k] in
  let rs := [mkReq [122; 111; 110; 101] OpIn [[97]]; mkReq [116; 105; 101; 114] OpDoesNotExist []] in
  let o := mkCCObj [99; 49] (FOk (mkCidr V4 167772160 24)) FEmpty 4%Z (selector_key rs) [] false 1 0 0 in
  let ops := [UCreateCC o; Construct None None [] []; StartInformers; ProcCC UOk] in
  Forall op_keys_computed ops /\
  match w_ctl (run sel_parse lab0 init_world ops) with
  | Some m => map fst m = [[33; 116; 105; 101; 114; 44; 122; 111; 110; 101; 32; 105; 110; 32; 40; 97; 41]]
  | None => False
  end.
Proof. exact keys_nonvacuous. Qed.

Theorem C17_unrepresentable_selector_rejected :
  forall m o term boot out, o_selkey o = None -> create_cluster_cidr m o term boot out = (m, Err ESelector, []).
Proof. exact unrepresentable_selector_rejected. Qed.
Print Assumptions C17_unrepresentable_selector_rejected.

(* the six operators *)
Theorem C17_in : forall ls k vs, req_matches ls (mkReq k OpIn vs) = true <-> exists v, lookup k ls = Some v /\ str_in v vs = true.
Proof. exact req_matches_in. Qed.
Theorem C17_notin : forall ls k vs, req_matches ls (mkReq k OpNotIn vs) = true <-> (lookup k ls = None \/ exists v, lookup k ls = Some v /\ str_in v vs = false).
Proof. exact req_matches_notin. Qed.
Theorem C17_exists : forall ls k vs, req_matches ls (mkReq k OpExists vs) = true <-> lookup k ls <> None.
Proof. exact req_matches_exists. Qed.
Theorem C17_doesnotexist : forall ls k vs, req_matches ls (mkReq k OpDoesNotExist vs) = true <-> lookup k ls = None.
Proof. exact req_matches_notexists. Qed.
Theorem C17_gt : forall ls k vs, req_matches ls (mkReq k OpGt vs) = true <->
  exists v lv rv rvz, lookup k ls = Some v /\ parse_int64 v = Some lv /\ vs = [rv] /\ parse_int64 rv = Some rvz /\ (rvz < lv)%Z.
Proof. exact req_matches_gt. Qed.
Theorem C17_lt : forall ls k vs, req_matches ls (mkReq k OpLt vs) = true <->
  exists v lv rv rvz, lookup k ls = Some v /\ parse_int64 v = Some lv /\ vs = [rv] /\ parse_int64 rv = Some rvz /\ (lv < rvz)%Z.
Proof. exact req_matches_lt. Qed.
Print Assumptions C17_gt.

Example C17_nonvacuous :
  match_reqs [([122], [97]); ([114], [53])] [mkReq [122] OpIn [[97]; [98]]; mkReq [114] OpGt [[51]]] = (true, 2).
Proof. vm_compute. reflexivity. Qed.
