(* C06 -- A ClusterCIDR is released only when no node depends on it, then never used.
   The controller's notion of "depends" is the association of the node's name with the entry.  Proved:
   the finalizer-removing write is issued only when the entry has no associated node; every write to a
   ClusterCIDR changes nothing but the controller's own finalizer; an association is recorded with every
   successful (or unknowable) write of pod CIDRs taken from the entry and is preserved, together with the
   reserved keys, by every work item other than the release of that very node (C01, Resv_proofs.v).
   Not proved (monitored): that releases of a node happen only when the node is gone or being deleted
   -- the world-level glue, same residue as C01. *)
From NIPAM Require Import Resv_proofs Sys Alloc_proofs Sys_proofs.
Open Scope N_scope.

(* the finalizer-removing write is issued only when the entry filed for that ClusterCIDR has no
   associated node (and in the same step the entry has been marked terminating and unmapped) *)
Theorem C06_finalizer_removed_only_when_unassociated :
  forall m o out m' r fx o' uo, reconcile_delete m o out = (m', r, fx) -> In (FxUpdateCC o' uo) fx ->
  forall k l i c, o_selkey o = Some k -> find_key k m = Some l -> find_name (o_name o) l 0 = Some (i, c) -> cc_assoc c = [].
Proof. exact finalizer_removed_only_when_unassociated. Qed.
Print Assumptions C06_finalizer_removed_only_when_unassociated.

(* every write to a ClusterCIDR sends back the object that was read with exactly the controller's own
   finalizer added (creation / bootstrap) ... *)
Theorem C06_create_changes_only_own_finalizer :
  forall m o term boot out m' r fx, create_cluster_cidr m o term boot out = (m', r, fx) ->
  forall e, In e fx -> match e with
                       | FxUpdateCC o' _ | FxCreateCC o' _ => same_but_own_finalizer o o'
                       | _ => False end.
Proof. exact create_writes_only_own_finalizer. Qed.
Print Assumptions C06_create_changes_only_own_finalizer.

(* ... or removed (deletion): finalizers of others and every other field are unchanged *)
Theorem C06_delete_changes_only_own_finalizer :
  forall m o out m' r fx, reconcile_delete m o out = (m', r, fx) ->
  forall e, In e fx -> match e with
                       | FxUpdateCC o' _ => same_but_own_finalizer o o' /\ has_str finalizer (o_fins o') = false
                       | _ => False end.
Proof. exact delete_writes_only_own_finalizer. Qed.
Print Assumptions C06_delete_changes_only_own_finalizer.

(* contrapositive, in the terms of C01: while some node is associated with the entry, a deletion request
   removes no finalizer (and C01_reservations_survive_clustercidr_items keeps the entry and its keys) *)
Theorem C06_no_release_while_a_node_is_associated :
  forall m o out m' r fx k l i c name,
  reconcile_delete m o out = (m', r, fx) -> o_selkey o = Some k -> find_key k m = Some l ->
  find_name (o_name o) l 0 = Some (i, c) -> has_str name (cc_assoc c) = true ->
  forall o' uo, ~ In (FxUpdateCC o' uo) fx.
Proof.
  intros m o out m' r fx k l i c name H Hk Hf Hn Ha o' uo Hin.
  pose proof (finalizer_removed_only_when_unassociated _ _ _ _ _ _ _ _ H Hin k l i c Hk Hf Hn) as He.
  rewrite He in Ha. discriminate Ha.
Qed.
Print Assumptions C06_no_release_while_a_node_is_associated.
