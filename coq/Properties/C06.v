(* C06 -- A ClusterCIDR is released only when no node depends on it, then never used. *)
From NIPAM Require Import Sys Alloc_proofs Sys_proofs.
Open Scope N_scope.

(* the finalizer-removing write is issued only when the entry filed for that ClusterCIDR has no
   associated node (and in the same step the entry has been marked terminating and unmapped) *)
Theorem C06_finalizer_removed_only_when_unassociated :
  forall m o out m' r fx o' uo, reconcile_delete m o out = (m', r, fx) -> In (FxUpdateCC o' uo) fx ->
  forall k l i c, o_selkey o = Some k -> find_key k m = Some l -> find_name (o_name o) l 0 = Some (i, c) -> cc_assoc c = [].
Proof. exact finalizer_removed_only_when_unassociated. Qed.
Print Assumptions C06_finalizer_removed_only_when_unassociated.

(* every write to a ClusterCIDR sends back the object that was read with exactly the controller's own
   finalizer added (creation / bootstrap) ... *)
Theorem C06_create_changes_only_own_finalizer :
  forall m o term boot out m' r fx, create_cluster_cidr m o term boot out = (m', r, fx) ->
  forall e, In e fx -> match e with
                       | FxUpdateCC o' _ | FxCreateCC o' _ => same_but_own_finalizer o o'
                       | _ => False end.
Proof. exact create_writes_only_own_finalizer. Qed.
Print Assumptions C06_create_changes_only_own_finalizer.

(* ... or removed (deletion): finalizers of others and every other field are unchanged *)
Theorem C06_delete_changes_only_own_finalizer :
  forall m o out m' r fx, reconcile_delete m o out = (m', r, fx) ->
  forall e, In e fx -> match e with
                       | FxUpdateCC o' _ => same_but_own_finalizer o o' /\ has_str finalizer (o_fins o') = false
                       | _ => False end.
Proof. exact delete_writes_only_own_finalizer. Qed.
Print Assumptions C06_delete_changes_only_own_finalizer.
