(* C06 -- A ClusterCIDR is released only when no node depends on it, then never used.
   The controller's notion of "depends" is the association of the node's name with the entry.  Proved:
   the finalizer-removing write is issued only when the entry has no associated node; every write to a
   ClusterCIDR changes nothing but the controller's own finalizer; an association is recorded with every
   successful (or unknowable) write of pod CIDRs taken from the entry and is preserved, together with the
   reserved keys, by every work item other than the release of that very node (C01, Resv_proofs.v).
   The temporal half (Term_proofs.v, Uniq_proofs.v): (1) the work item of a ClusterCIDR whose deletion was requested
   marks THE entry of that name under its selector terminating (or removes it) -- "the" because in every reachable world
   there is at most one (C10); (2) a terminating entry stays terminating for as long as it exists, through every node
   work item, release and ClusterCIDR work item; (3) the entries offered to an allocation exclude terminating ones, with
   or without selector, and in every step of every history the pod CIDRs of a PATCH are taken from an entry that is not
   terminating.
   The first half over histories: in every world of every valid history (the C01 universe: tombstones and relists at any time,
   restarts, pre-set pod CIDRs) in which the informers run, every pod CIDR held by an existing node is still reserved in an
   entry the node is associated with, or shown by the node store (which keeps it from being handed out) -- in particular right
   after any step that took the finalizer off a ClusterCIDR and unmapped its entry: an entry is unmapped only when no node is
   associated with it, so no holder's reservation lived there.
   Not proved (monitored): that releases of a node happen only when the node is gone or being deleted
   -- the world-level glue, same residue as C01. *)
From NIPAM Require Import Resv_proofs Sys Alloc_proofs Inv_proofs Sys_proofs World_proofs Path_proofs Svc_proofs Term_proofs Uniq_proofs Hist2_proofs Hist3_proofs Hist4_proofs.
From Coq Require Import Lia.
Open Scope N_scope.

(* the finalizer-removing write is issued only when the entry filed for that ClusterCIDR has no
   associated node (and in the same step the entry has been marked terminating and unmapped) *)
Theorem C06_finalizer_removed_only_when_unassociated :
  forall m o out m' r fx o' uo, reconcile_delete m o out = (m', r, fx) -> In (FxUpdateCC o' uo) fx ->
  forall k l i c, o_selkey o = Some k -> find_key k m = Some l -> find_name (o_name o) l 0 = Some (i, c) -> cc_assoc c = [].
Proof. exact finalizer_removed_only_when_unassociated. Qed.
Print Assumptions C06_finalizer_removed_only_when_unassociated.

(* every write to a ClusterCIDR sends back the object that was read with exactly the controller's own
   finalizer added (creation / bootstrap) ... *)
Theorem C06_create_changes_only_own_finalizer :
  forall m o term boot out m' r fx, create_cluster_cidr m o term boot out = (m', r, fx) ->
  forall e, In e fx -> match e with
                       | FxUpdateCC o' _ | FxCreateCC o' _ => same_but_own_finalizer o o'
                       | _ => False end.
Proof. exact create_writes_only_own_finalizer. Qed.
Print Assumptions C06_create_changes_only_own_finalizer.

(* ... or removed (deletion): finalizers of others and every other field are unchanged *)
Theorem C06_delete_changes_only_own_finalizer :
  forall m o out m' r fx, reconcile_delete m o out = (m', r, fx) ->
  forall e, In e fx -> match e with
                       | FxUpdateCC o' _ => same_but_own_finalizer o o' /\ has_str finalizer (o_fins o') = false
                       | _ => False end.
Proof. exact delete_writes_only_own_finalizer. Qed.
Print Assumptions C06_delete_changes_only_own_finalizer.

(* contrapositive, in the terms of C01: while some node is associated with the entry, a deletion request
   removes no finalizer (and C01_reservations_survive_clustercidr_items keeps the entry and its keys) *)
Theorem C06_no_release_while_a_node_is_associated :
  forall m o out m' r fx k l i c name,
  reconcile_delete m o out = (m', r, fx) -> o_selkey o = Some k -> find_key k m = Some l ->
  find_name (o_name o) l 0 = Some (i, c) -> has_str name (cc_assoc c) = true ->
  forall o' uo, ~ In (FxUpdateCC o' uo) fx.
Proof.
  intros m o out m' r fx k l i c name H Hk Hf Hn Ha o' uo Hin.
  pose proof (finalizer_removed_only_when_unassociated _ _ _ _ _ _ _ _ H Hin k l i c Hk Hf Hn) as He.
  rewrite He in Ha. discriminate Ha.
Qed.
Print Assumptions C06_no_release_while_a_node_is_associated.

(* ---------- the temporal half ---------- *)
(* (3a) what is offered to an allocation: no terminating entry, selector or not *)
Theorem C06_offer_excludes_terminating_entries :
  forall po lab m ls ps, KU m -> ordered_matching po lab m ls true = Ok ps ->
  forall q, In q ps -> exists c, get_entry m q = Some c /\ cc_term c = false.
Proof. exact ordered_matching_live. Qed.
Print Assumptions C06_offer_excludes_terminating_entries.

(* (3b) over histories: the CIDRs of every PATCH are taken from ONE entry of the state the work item started from, and
   that entry is not terminating; on success the node is associated with the entry at the same place *)
Theorem C06_nothing_is_allocated_from_a_terminating_entry :
  forall po lab ops o w' ob, Forall wf_op ops ->
  let w := run po lab init_world ops in
  step po lab w o = (w', ob) ->
  forall nm cs out, In (FxPatch nm cs out) (ob_fx ob) ->
  exists m m' r, w_ctl w = Some m /\ (r <> Panic -> w_ctl w' = Some m') /\
  exists p e, get_entry m p = Some e /\ cc_term e = false /\
    (r = Ok tt -> exists e', get_entry m' p = Some e' /\ has_str nm (cc_assoc e') = true /\
                   forall x, In x cs -> exists pl, pool_of e' (cf x) = Some pl /\ In x (used pl)).
Proof. intros po lab ops o w' ob H w Hs nm cs out He. exact (history_no_patch_from_terminating po lab ops o w' ob H Hs nm cs out He). Qed.
Print Assumptions C06_nothing_is_allocated_from_a_terminating_entry.

(* (1) processing the deletion request: every entry of that name under the object's selector is terminating afterwards
   (in every reachable world there is at most one: C10_one_entry_per_clustercidr_in_every_history gives KU and NU) *)
Theorem C06_deletion_request_marks_the_entry_terminating :
  forall m o out m' r fx k, NU m -> KU m -> o_selkey o = Some k ->
  reconcile_delete m o out = (m', r, fx) -> all_term_at m' k (o_name o).
Proof. exact reconcile_delete_marks_terminating. Qed.
Print Assumptions C06_deletion_request_marks_the_entry_terminating.

(* (2) a terminating entry stays terminating for as long as it exists *)
Theorem C06_terminating_survives_clustercidr_items :
  forall m key cached out m' r fx k X,
  KU m -> NU m -> sync_cc m key cached out = (m', r, fx) -> term_at m k X -> all_term_at m' k X.
Proof. exact sync_cc_keeps_terminating. Qed.
Print Assumptions C06_terminating_survives_clustercidr_items.

Theorem C06_terminating_survives_node_items :
  forall po lab svcs canp apisame held m cached reread outs m' r fx k X,
  MapInv m -> NU m -> SInv svcs m -> Forall wf_cidr svcs -> (forall n, cached = Some n -> wf_node n) ->
  sync_node po lab svcs canp apisame held m cached reread outs = (m', r, fx) -> term_at m k X -> all_term_at m' k X.
Proof. exact sync_node_keeps_terminating. Qed.
Print Assumptions C06_terminating_survives_node_items.

Theorem C06_terminating_survives_releases :
  forall svcs m node m' r k X,
  MapInv m -> NU m -> SInv svcs m -> Forall wf_cidr svcs -> wf_node node ->
  release_cidr svcs m node = (m', r) -> term_at m k X -> all_term_at m' k X.
Proof. exact release_cidr_keeps_terminating. Qed.
Print Assumptions C06_terminating_survives_releases.

(* non-vacuity: c1 serves n1; its deletion is requested and processed (busy: n1 depends on it; the entry is marked
   terminating and stays); n2 arrives and is refused *)
Example C06_history_nonvacuous :
  let po0 : parse_oracle := fun _ => Some [] in
  let lab0 : label_oracle := fun k => [cl k] in
  let ops := [UCreateCC (mkCCObj [99] (FOk (mkCidr V4 167772160 26)) FEmpty 4 (Some [107]) [] false 1 0 0);
              Construct None None [UOk] []; StartInformers; ProcCC UOk;
              UCreateNode [110;49] [] []; DeliverNode; ProcNode [POk];
              UDeleteCC [99]; DeliverCC; DeliverCC; ProcCC UOk;
              UCreateNode [110;50] [] []; DeliverNode; DeliverNode; ProcNode [POk]; ProcNode [POk]] in
  Forall wf_op ops /\
  map (fun a => (an_name a, an_cidrs a)) (w_nodes (run po0 lab0 init_world ops))
    = [([110;49], [PGood (mkCidr V4 167772160 28) true]); ([110;50], [])] /\
  map (fun e => (cc_name e, cc_term e, cc_assoc e)) (match w_ctl (run po0 lab0 init_world ops) with Some m => all_entries m | None => [] end)
    = [([99], true, [[110;49]])].
Proof.
  cbv zeta. split; [|split; vm_compute; reflexivity].
  repeat constructor; cbn; try (intros ? E; discriminate E);
    try (unfold good_obj, good_field, good_range, wf_cidr; cbn; repeat split; try lia; try discriminate; intros [? _]; discriminate).
Qed.

(* ---------- the first half over histories ---------- *)
Theorem C06_every_holder_stays_protected_in_every_history :
  forall po lab ops, valid4 po lab init_world ops ->
  let w := run po lab init_world ops in
  w_synced w = true -> forall nm c, holder w nm c -> reserved w nm c \/ cached_c w nm c.
Proof.
  intros po lab ops H w Hs nm c Hh.
  exact (h_prot w (j_h w (valid4_jinv po lab ops init_world (jinv_init) H)) Hs nm c Hh).
Qed.
Print Assumptions C06_every_holder_stays_protected_in_every_history.
