(* C05 -- A node is refused only when no eligible ClusterCIDR has room.
   Proved: a refusal is always reported (error result -- so the work item is queued again, C11 --
   and a CIDRNotAvailable event on the node); the candidate search of a pool finds a free block
   whenever one exists, whatever the cursor position (C14_next_candidate); the allocateCIDR loop with
   its evaluated counter is complete -- when it gives up on a pool, EVERY block of that pool is a used
   key somewhere, overlaps a used key somewhere (other ClusterCIDRs over the same addresses, any block
   size) or overlaps a pod CIDR of a cached node; giving up is the only error it can end with; and the
   whole of prioritizedCIDRs: when it refuses, EVERY entry it considered (the matching non-terminating
   entries, in priority order) has a family whose every block is blocked in that sense WITH RESPECT TO
   THE STATE THE SYNC STARTED FROM (failed attempts move cursors and reserve/release one IPv4 block;
   Complete_proofs.v shows these leave every used set as it was).
   "Eligible" is what ordered_matching returns (C07/C17 say which entries these are); "has room" is the
   negation of [no_room].  Holds for every state satisfying MapInv, i.e. every reachable state (C02). *)
From NIPAM Require Import Sys Alloc_proofs Pool_proofs Inv_proofs Complete_proofs Path_proofs Progress_proofs World_proofs Path_proofs Uniq_proofs.
Open Scope N_scope.

Theorem C05_partial_refusal_is_reported :
  forall po lab canp apisame held m node reread outs m' e fx,
  n_cidrs node = [] ->
  allocate_or_occupy po lab canp apisame held m node reread outs = (m', Err e, fx) ->
  (forall nm cs o, ~ In (FxPatch nm cs o) fx) ->
  In (FxEvent 1 (n_name node)) fx \/ e = ENotFound \/ exists n, reread = Some n /\ n_cidrs n <> [].
Proof. exact refusal_is_reported. Qed.
Print Assumptions C05_partial_refusal_is_reported.

Theorem C05_partial_pool_search_complete :
  forall p, PoolInv p ->
  match next_candidate p with
  | Cand blk sk p' =>
      exists i, i < maxc (pg p) /\ blk = block (pg p) i /\ ~ In blk (used p) /\
        sk < pmax p /\ i = (cur p + sk) mod pmax p /\
        (forall j, j < sk -> In (block (pg p) ((cur p + j) mod pmax p)) (used p)) /\
        p' = with_cur p ((i + 1) mod pmax p) /\ PoolInv p' /\ (UsageOk p -> UsageOk p')
  | Exhausted _ => forall i, i < maxc (pg p) -> In (block (pg p) i) (used p)
  end.
Proof. exact next_spec. Qed.
Print Assumptions C05_partial_pool_search_complete.

(* the allocation loop over one pool: it fails only by giving up, it gives up only when every block of the
   pool is blocked (used here, used or overlapped through another ClusterCIDR, or held by a cached node),
   and a failed loop changes no used set anywhere *)
Theorem C05_allocation_loop_complete :
  forall held m p f c pl m' e,
  get_entry m p = Some c -> pool_of c f = Some pl -> PoolInv pl -> gf (pg pl) = f -> clean_geom (pg pl) = true ->
  allocate_cidr held m p f = (m', Err e) ->
  e = EExhausted /\ msim m m' /\ forall i, i < maxc (pg pl) -> blockedb m held (block (pg pl) i) = true.
Proof. exact allocate_cidr_complete. Qed.
Print Assumptions C05_allocation_loop_complete.

(* the property itself, at the level of one node sync, for every state with the structural invariant *)
Theorem C05_refused_only_when_no_eligible_entry_has_room :
  forall po lab held m node m' e ps,
  MapInv m -> ordered_matching po lab m (n_labels node) true = Ok ps ->
  prioritized_cidrs po lab held m node = (m', Err e) ->
  forall p c, In p ps -> get_entry m p = Some c -> no_room m held c.
Proof. exact prioritized_cidrs_refusal. Qed.
Print Assumptions C05_refused_only_when_no_eligible_entry_has_room.

(* [msim]: same keys, same entries, every pool with the same geometry and the same set of used keys;
   in particular both scans answer alike *)
Theorem C05_failed_attempts_change_no_used_set :
  forall m m', msim m m' -> same_scans m m'.
Proof. exact msim_scans. Qed.
Print Assumptions C05_failed_attempts_change_no_used_set.

(* non-vacuity: a one-block ClusterCIDR serves the first node; the second is refused with the event, the
   error and the requeue -- and the first still holds the only block *)
Example C05_nonvacuous :
  let po0 : parse_oracle := fun _ => Some [] in
  let lab0 : label_oracle := fun _ => [] in
  let ops := [UCreateCC (mkCCObj [99] (FOk (mkCidr V4 167772160 28)) FEmpty 4 (Some [107]) [] false 1 0 0);
              Construct None None [] []; StartInformers; UCreateNode [110;49] [] []; DeliverNode; ProcNode [POk];
              DeliverNode; ProcNode [POk]; UCreateNode [110;50] [] []; DeliverNode; ProcNode [POk]] in
  last (map (fun x => (ob_res (snd (fst x)), ob_fx (snd (fst x)), ob_requeued (snd (fst x)))) (trace po0 lab0 init_world ops)) (0, [], false)
  = (2, [FxEvent 1 [110; 50]], true).
Proof. vm_compute. reflexivity. Qed.

(* the converse: a node for which some considered entry has room in every configured family is served when its
   work item runs and the write succeeds (one PATCH, one block per configured family, result Ok) *)
Theorem C05_servable_node_is_served :
  forall po lab svcs canp apisame held m node nr outs ps,
  MapInv m -> KU m -> n_cidrs node = [] -> n_deleting node = false -> n_cidrs nr = [] ->
  (forall cs, canp cs = true) ->
  ordered_matching po lab m (n_labels node) true = Ok ps ->
  (exists p c, In p ps /\ get_entry m p = Some c /\ ~ no_room m held c) ->
  exists m' cs, cs <> [] /\
    sync_node po lab svcs canp apisame held m (Some node) (Some nr) (POk :: outs) = (m', Ok tt, [FxPatch (n_name node) cs POk]).
Proof. exact servable_node_is_served. Qed.
Print Assumptions C05_servable_node_is_served.

(* ---------- the same in every reachable world: the invariants are not hypotheses about the state ---------- *)
Theorem C05_in_every_history_refused_only_when_nothing_has_room :
  forall po lab ops, Forall wf_op ops ->
  forall m, w_ctl (run po lab init_world ops) = Some m ->
  forall held node m' e ps,
  ordered_matching po lab m (n_labels node) true = Ok ps ->
  prioritized_cidrs po lab held m node = (m', Err e) ->
  forall p c, In p ps -> get_entry m p = Some c -> no_room m held c.
Proof.
  intros po lab ops H m Em held node m' e ps. apply prioritized_cidrs_refusal.
  exact (reachable_state_inv po lab ops m H Em).
Qed.
Print Assumptions C05_in_every_history_refused_only_when_nothing_has_room.

Theorem C05_in_every_history_a_servable_node_is_served :
  forall po lab ops, Forall wf_op ops ->
  forall m, w_ctl (run po lab init_world ops) = Some m ->
  forall svcs canp apisame held node nr outs ps,
  n_cidrs node = [] -> n_deleting node = false -> n_cidrs nr = [] ->
  (forall cs, canp cs = true) ->
  ordered_matching po lab m (n_labels node) true = Ok ps ->
  (exists p c, In p ps /\ get_entry m p = Some c /\ ~ no_room m held c) ->
  exists m' cs, cs <> [] /\
    sync_node po lab svcs canp apisame held m (Some node) (Some nr) (POk :: outs) = (m', Ok tt, [FxPatch (n_name node) cs POk]).
Proof.
  intros po lab ops H m Em svcs canp apisame held node nr outs ps. apply servable_node_is_served.
  - exact (reachable_state_inv po lab ops m H Em).
  - exact (proj1 (one_entry_per_clustercidr_in_every_history po lab ops H m Em)).
Qed.
Print Assumptions C05_in_every_history_a_servable_node_is_served.
