(* C05 -- A node is refused only when no eligible ClusterCIDR has room.
   Proved: a refusal is always reported (error result -- so the work item is queued again, C11 --
   and a CIDRNotAvailable event on the node); the candidate search of a pool finds a free block
   whenever one exists, whatever the cursor position (C14_next_candidate).
   Not proved yet (checked on every implementation trace by the monitor, which recomputes free
   capacity from the snapshot and the node cache): completeness of the allocateCIDR loop with its
   evaluated counter across pools blocked by other ClusterCIDRs. *)
From NIPAM Require Import Sys Alloc_proofs Pool_proofs.
Open Scope N_scope.

Theorem C05_partial_refusal_is_reported :
  forall po lab canp apisame held m node reread outs m' e fx,
  n_cidrs node = [] ->
  allocate_or_occupy po lab canp apisame held m node reread outs = (m', Err e, fx) ->
  (forall nm cs o, ~ In (FxPatch nm cs o) fx) ->
  In (FxEvent 1 (n_name node)) fx \/ e = ENotFound \/ exists n, reread = Some n /\ n_cidrs n <> [].
Proof. exact refusal_is_reported. Qed.
Print Assumptions C05_partial_refusal_is_reported.

Theorem C05_partial_pool_search_complete :
  forall p, PoolInv p ->
  match next_candidate p with
  | Cand blk sk p' =>
      exists i, i < maxc (pg p) /\ blk = block (pg p) i /\ ~ In blk (used p) /\
        sk < pmax p /\ i = (cur p + sk) mod pmax p /\
        (forall j, j < sk -> In (block (pg p) ((cur p + j) mod pmax p)) (used p)) /\
        p' = with_cur p ((i + 1) mod pmax p) /\ PoolInv p' /\ (UsageOk p -> UsageOk p')
  | Exhausted _ => forall i, i < maxc (pg p) -> In (block (pg p) i) (used p)
  end.
Proof. exact next_spec. Qed.
Print Assumptions C05_partial_pool_search_complete.
