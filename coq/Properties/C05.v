(* C05 -- A node is refused only when no eligible ClusterCIDR has room.
   Proved: a refusal is always reported (error result -- so the work item is queued again, C11 --
   and a CIDRNotAvailable event on the node); the candidate search of a pool finds a free block
   whenever one exists, whatever the cursor position (C14_next_candidate).
   Proved (Complete_proofs.v): the allocateCIDR loop with its evaluated counter is complete -- when it
   gives up on a pool, EVERY block of that pool is a used key somewhere, overlaps a used key somewhere
   (other ClusterCIDRs over the same addresses, any block size) or overlaps a pod CIDR of a cached node;
   giving up is the only error it can end with, and it leaves every used set as it found it.
   Not proved yet (checked on every implementation trace by the monitor, which recomputes free
   capacity from the snapshot and the node cache): the lift of that statement over the sequence of
   attempts of prioritizedCIDRs to the state the node sync started from (each attempt is complete with
   respect to the state it starts in; attempts change cursors and reserve/release one IPv4 block). *)
From NIPAM Require Import Sys Alloc_proofs Pool_proofs Complete_proofs.
Open Scope N_scope.

Theorem C05_partial_refusal_is_reported :
  forall po lab canp apisame held m node reread outs m' e fx,
  n_cidrs node = [] ->
  allocate_or_occupy po lab canp apisame held m node reread outs = (m', Err e, fx) ->
  (forall nm cs o, ~ In (FxPatch nm cs o) fx) ->
  In (FxEvent 1 (n_name node)) fx \/ e = ENotFound \/ exists n, reread = Some n /\ n_cidrs n <> [].
Proof. exact refusal_is_reported. Qed.
Print Assumptions C05_partial_refusal_is_reported.

Theorem C05_partial_pool_search_complete :
  forall p, PoolInv p ->
  match next_candidate p with
  | Cand blk sk p' =>
      exists i, i < maxc (pg p) /\ blk = block (pg p) i /\ ~ In blk (used p) /\
        sk < pmax p /\ i = (cur p + sk) mod pmax p /\
        (forall j, j < sk -> In (block (pg p) ((cur p + j) mod pmax p)) (used p)) /\
        p' = with_cur p ((i + 1) mod pmax p) /\ PoolInv p' /\ (UsageOk p -> UsageOk p')
  | Exhausted _ => forall i, i < maxc (pg p) -> In (block (pg p) i) (used p)
  end.
Proof. exact next_spec. Qed.
Print Assumptions C05_partial_pool_search_complete.

(* the allocation loop over one pool: it fails only by giving up, it gives up only when every block of the
   pool is blocked (used here, used or overlapped through another ClusterCIDR, or held by a cached node),
   and a failed loop changes no used set anywhere *)
Theorem C05_allocation_loop_complete :
  forall held m p f c pl m' e,
  get_entry m p = Some c -> pool_of c f = Some pl -> PoolInv pl -> gf (pg pl) = f -> clean_geom (pg pl) = true ->
  allocate_cidr held m p f = (m', Err e) ->
  e = EExhausted /\ same_scans m m' /\ forall i, i < maxc (pg pl) -> blockedb m held (block (pg pl) i) = true.
Proof. exact allocate_cidr_complete. Qed.
Print Assumptions C05_allocation_loop_complete.
