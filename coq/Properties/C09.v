(* C09 -- Pod CIDRs never overlap the configured service ranges. *)
From NIPAM Require Import Sys Alloc_proofs Inv_proofs Pool_proofs Geom_proofs.
Open Scope N_scope.

(* occupying a service range in a pool marks every block it overlaps (whatever the relative sizes:
   inside, equal, containing the range, smaller than a block: "overlap" is the only notion) *)
Theorem C09_service_range_marks_all_overlapping_blocks :
  forall p svc p', PoolInv p -> clean_geom (pg p) = true -> wf_cidr svc -> occupy p svc = Some p' ->
  pg p' = pg p /\ PoolInv p' /\ forall i, i < maxc (pg p) -> overlap (block (pg p) i) svc -> In (block (pg p) i) (used p').
Proof. exact occupy_marks_all_overlapping. Qed.
Print Assumptions C09_service_range_marks_all_overlapping_blocks.

(* a service range that does not meet the pool's range overlaps none of its blocks *)
Theorem C09_disjoint_service_range_touches_no_block :
  forall p svc i, PoolInv p -> i < maxc (pg p) -> ~ overlap (grange (pg p)) svc -> ~ overlap (block (pg p) i) svc.
Proof. exact no_overlap_no_block. Qed.
Print Assumptions C09_disjoint_service_range_touches_no_block.

(* as long as the marked blocks stay used, no candidate overlaps the service range *)
Theorem C09_candidates_avoid_service_range :
  forall p svc blk sk p', PoolInv p ->
  (forall i, i < maxc (pg p) -> overlap (block (pg p) i) svc -> In (block (pg p) i) (used p)) ->
  next_candidate p = Cand blk sk p' -> ~ overlap blk svc.
Proof. exact candidate_avoids_marked. Qed.
Print Assumptions C09_candidates_avoid_service_range.

(* construction (with service ranges, listed ClusterCIDRs and nodes) establishes the structural invariant *)
Theorem C09_construction_invariant :
  forall po lab ccs outs s1 s2 nodes m fx pan,
  Forall good_obj ccs -> Forall wf_node nodes ->
  (forall s, s1 = Some s -> wf_cidr s) -> (forall s, s2 = Some s -> wf_cidr s) ->
  construct po lab ccs outs s1 s2 nodes = (m, fx, pan) -> MapInv m.
Proof. exact construct_inv. Qed.
Print Assumptions C09_construction_invariant.
