(* C09 -- Pod CIDRs never overlap the configured service ranges.
   Pool level: occupying a service range marks every block it overlaps; candidates avoid marked blocks.
   History level (Svc_proofs.v): in every world reachable by well-formed operations, every entry mapped by the constructor
   of the running incarnation (ghost flag cc_start: its ClusterCIDR was known at start-up) has every block that overlaps a
   service range of that incarnation in use -- through allocation attempts and their roll-back, node releases (which
   occupy the service ranges again after every released pod CIDR: repair of D22), ClusterCIDR work items, crashes and
   restarts (also with other service ranges).  Hence no PATCH of any history carries a block taken from such an entry
   that overlaps a service range; on success the node is associated with that very entry.
   The invariant did NOT hold on the tree before the repair aeef8fa: ReleaseCIDR freed the marked blocks (D22). *)
From NIPAM Require Import Sys Alloc_proofs Inv_proofs Pool_proofs Geom_proofs World_proofs Svc_proofs.
From Coq Require Import Lia.
Open Scope N_scope.

(* occupying a service range in a pool marks every block it overlaps (whatever the relative sizes:
   inside, equal, containing the range, smaller than a block: "overlap" is the only notion) *)
Theorem C09_service_range_marks_all_overlapping_blocks :
  forall p svc p', PoolInv p -> clean_geom (pg p) = true -> wf_cidr svc -> occupy p svc = Some p' ->
  pg p' = pg p /\ PoolInv p' /\ forall i, i < maxc (pg p) -> overlap (block (pg p) i) svc -> In (block (pg p) i) (used p').
Proof. exact occupy_marks_all_overlapping. Qed.
Print Assumptions C09_service_range_marks_all_overlapping_blocks.

(* a service range that does not meet the pool's range overlaps none of its blocks *)
Theorem C09_disjoint_service_range_touches_no_block :
  forall p svc i, PoolInv p -> i < maxc (pg p) -> ~ overlap (grange (pg p)) svc -> ~ overlap (block (pg p) i) svc.
Proof. exact no_overlap_no_block. Qed.
Print Assumptions C09_disjoint_service_range_touches_no_block.

(* as long as the marked blocks stay used, no candidate overlaps the service range *)
Theorem C09_candidates_avoid_service_range :
  forall p svc blk sk p', PoolInv p ->
  (forall i, i < maxc (pg p) -> overlap (block (pg p) i) svc -> In (block (pg p) i) (used p)) ->
  next_candidate p = Cand blk sk p' -> ~ overlap blk svc.
Proof. exact candidate_avoids_marked. Qed.
Print Assumptions C09_candidates_avoid_service_range.

(* construction (with service ranges, listed ClusterCIDRs and nodes) establishes the structural invariant *)
Theorem C09_construction_invariant :
  forall po lab ccs outs s1 s2 nodes m fx pan,
  Forall good_obj ccs -> Forall wf_node nodes ->
  (forall s, s1 = Some s -> wf_cidr s) -> (forall s, s2 = Some s -> wf_cidr s) ->
  construct po lab ccs outs s1 s2 nodes = (m, fx, pan) -> MapInv m.
Proof. exact construct_inv. Qed.
Print Assumptions C09_construction_invariant.

(* ---------- over histories ---------- *)
(* the marks are never removed: in every reachable world, every entry mapped by the constructor of the running
   incarnation has every block overlapping one of its service ranges in use *)
Theorem C09_service_blocks_stay_occupied_in_every_history :
  forall po lab ops, Forall wf_op ops ->
  let w := run po lab init_world ops in
  forall m, w_ctl w = Some m ->
  forall e, In e (all_entries m) -> cc_start e = true ->
  forall svc, In svc (svc_list (w_svc w)) ->
  forall p, pool_of e (cf svc) = Some p ->
  forall i, i < maxc (pg p) -> overlap (block (pg p) i) svc -> In (block (pg p) i) (used p).
Proof. intros po lab ops H w m Em e He Hst svc Hsvc p Hp. exact (service_marks_in_every_history po lab ops H m Em e He Hst svc Hsvc p Hp). Qed.
Print Assumptions C09_service_blocks_stay_occupied_in_every_history.

(* no PATCH of any history carries a block of a start-up entry that overlaps a service range: the CIDRs of every PATCH
   were taken from ONE entry e of the controller's state; if e was mapped by the constructor none of them overlaps a
   service range; when the work item succeeds, the node is associated with the entry at the same place, which has the
   same ghost flag and holds the CIDRs *)
Theorem C09_no_patch_from_a_startup_entry_overlaps_a_service_range :
  forall po lab ops o w' ob, Forall wf_op ops ->
  let w := run po lab init_world ops in
  step po lab w o = (w', ob) ->
  forall nm cs out, In (FxPatch nm cs out) (ob_fx ob) ->
  exists m m' r, w_ctl w = Some m /\ (r <> Panic -> w_ctl w' = Some m') /\
  exists p e, get_entry m p = Some e /\
    (cc_start e = true -> forall x, In x cs -> forall svc, In svc (svc_list (w_svc w)) -> ~ overlap x svc) /\
    (r = Ok tt -> exists e', get_entry m' p = Some e' /\ cc_start e' = cc_start e /\ has_str nm (cc_assoc e') = true /\
                   forall x, In x cs -> exists pl, pool_of e' (cf x) = Some pl /\ In x (used pl)).
Proof. intros po lab ops o w' ob H w Hs nm cs out He. exact (history_patches_avoid_service_ranges po lab ops o w' ob H Hs nm cs out He). Qed.
Print Assumptions C09_no_patch_from_a_startup_entry_overlaps_a_service_range.

(* the constructor flags every entry it maps, later creations are not flagged *)
Theorem C09_constructor_marks_every_entry :
  forall po lab ccs outs s1 s2 nodes m fx pan,
  Forall good_obj ccs -> Forall wf_node nodes ->
  (forall s, s1 = Some s -> wf_cidr s) -> (forall s, s2 = Some s -> wf_cidr s) ->
  construct po lab ccs outs s1 s2 nodes = (m, fx, pan) -> SInv (svc_list (s1, s2)) m.
Proof. exact construct_svc. Qed.
Print Assumptions C09_constructor_marks_every_entry.

(* non-vacuity, and the history of D22: the service range 10.0.0.0/28 is configured; a ClusterCIDR created AFTER start-up
   (not filtered: outside the property) gives n1 the block 10.0.0.0/28; restart: the ClusterCIDR is now known at start-up
   and filtered; n1 is deleted and released; n2 is NOT given 10.0.0.0/28 but the next block *)
Example C09_history_nonvacuous :
  let po0 : parse_oracle := fun _ => Some [] in
  let lab0 : label_oracle := fun k => [cl k] in
  let svc := mkCidr V4 167772160 28 in
  let ops := [Construct (Some svc) None [] []; StartInformers;
              UCreateCC (mkCCObj [99] (FOk (mkCidr V4 167772160 26)) FEmpty 4 (Some [107]) [] false 1 0 0); DeliverCC; ProcCC UOk; DeliverCC; ProcCC UOk;
              UCreateNode [110;49] [] []; DeliverNode; ProcNode [POk]; DeliverNode; Crash;
              Construct (Some svc) None [UOk] []; StartInformers; ProcCC UOk; ProcNode [POk];
              UDeleteNode [110;49]; DeliverNode; ProcNode [POk]; UCreateNode [110;50] [] []; DeliverNode; ProcNode [POk]] in
  Forall wf_op ops /\
  map (fun a => (an_name a, an_cidrs a)) (w_nodes (run po0 lab0 init_world ops)) = [([110;50], [PGood (mkCidr V4 167772176 28) true])] /\
  map (fun e => (cc_name e, cc_start e)) (match w_ctl (run po0 lab0 init_world ops) with Some m => all_entries m | None => [] end) = [([99], true)].
Proof.
  cbv zeta. split; [|split; vm_compute; reflexivity].
  repeat constructor; cbn; try (intros ? E; discriminate E);
    try (unfold good_obj, good_field, good_range, wf_cidr; cbn; repeat split; try lia; try discriminate; intros [? _]; discriminate).
  all: try (intros s E; inversion E; subst; unfold wf_cidr; cbn; repeat split; try lia; reflexivity).
  all: try (match goal with H : Some _ = Some ?s |- _ => inversion H; subst; cbn; try lia; reflexivity end).
Qed.
