(* C10 -- Handling the same ClusterCIDR again has no additional effect. *)
From NIPAM Require Import Sys Alloc_proofs Inv_proofs World_proofs Path_proofs Uniq_proofs Default_proofs Create_proofs.
Open Scope N_scope.

(* mapping is idempotent per name: whenever an entry of that name is already filed under the selector,
   handling the object again (retry after a failed write, duplicate or stale notification, object
   already picked up at start-up) leaves the map unchanged, whatever the write outcome *)
Theorem C10_handling_mapped_object_changes_nothing :
  forall m o term boot out k, o_selkey o = Some k -> is_mapped m k (o_name o) = true ->
  fst (fst (create_cluster_cidr m o term boot out)) = m.
Proof. exact create_when_mapped_keeps_map. Qed.
Print Assumptions C10_handling_mapped_object_changes_nothing.

(* once an object carrying the finalizer has been handled successfully, handling it again is a no-op:
   no state change, no API request *)
Theorem C10_second_handling_is_noop :
  forall m o out1 out2 m1 fx1, reconcile_create m o out1 = (m1, Ok tt, fx1) -> need_finalizer o = false ->
  reconcile_create m1 o out2 = (m1, Ok tt, []).
Proof. exact reconcile_create_idempotent. Qed.
Print Assumptions C10_second_handling_is_noop.

(* a failed finalizer write leaves nothing behind (the entry is mapped only after the write succeeded) *)
Theorem C10_failed_write_maps_nothing :
  forall m o out m' r fx, need_finalizer o = true -> out <> UOk ->
  create_cluster_cidr m o false false out = (m', r, fx) -> m' = m.
Proof.
  intros m o out m' r fx Hn Ho H. unfold create_cluster_cidr in H.
  destruct (o_selkey o); [|inversion H; reflexivity].
  destruct (create_set o false) as [c|e|]; try (inversion H; reflexivity).
  destruct (cc_v4 c), (cc_v6 c); try (inversion H; reflexivity); rewrite Hn in H; destruct out; try congruence; inversion H; reflexivity.
Qed.
Print Assumptions C10_failed_write_maps_nothing.

(* the same at the level of the closed loop: a ClusterCIDR work item that succeeded for an object carrying the
   finalizer, run again on the same object (duplicate or stale notification, resync), changes nothing in the
   world -- no state change, no API request -- whatever write outcome is scripted *)
Theorem C10_world_second_handling_is_noop :
  forall w key o out1 out2 w1 ob1,
  o_deleting o = false -> need_finalizer o = false ->
  run_cc_sync w key (Some o) out1 = (w1, ob1) -> ob_res ob1 = 1 ->
  run_cc_sync w1 key (Some o) out2 = (w1, mkObs 1 [] false).
Proof.
  intros w key o out1 out2 w1 ob1 Hd Hn H Hr. unfold run_cc_sync in H.
  destruct (w_ctl w) as [m|] eqn:Em; [|inversion H; subst; cbn in Hr; discriminate].
  unfold sync_cc in H. rewrite Hd in H.
  match type of H with context [reconcile_create m o ?x] => destruct (reconcile_create m o x) as [[m1 r] fx] eqn:Ec end.
  cbn [andb] in H. inversion H; subst. clear H. cbn [ob_res] in Hr.
  destruct r as [[]|e|]; cbn in Hr; try discriminate.
  (* the first handling wrote nothing either: the finalizer was already there *)
  assert (Hfx : fx = []).
  { unfold reconcile_create in Ec. rewrite Hn in Ec. cbn [orb] in Ec. destruct (negb (is_mapped_obj m o)); [|inversion Ec; reflexivity].
    unfold create_cluster_cidr in Ec. destruct (o_selkey o); [|discriminate]. destruct (create_set o false) as [c| |]; try discriminate.
    rewrite Hn in Ec. destruct (cc_v4 c), (cc_v6 c); inversion Ec; reflexivity. }
  subst fx. cbn [apply_effects after_call].
  unfold run_cc_sync. cbn [set_ctl w_ctl]. unfold sync_cc. rewrite Hd.
  match goal with |- context [reconcile_create m1 o ?x] => rewrite (reconcile_create_idempotent m o _ x m1 [] Ec Hn) end.
  cbn. reflexivity.
Qed.
Print Assumptions C10_world_second_handling_is_noop.

(* for the closed loop: in every world reachable by well-formed operations -- any subset of the ClusterCIDR writes failing
   any number of times, stale and duplicate notifications, the start-up listing followed by the same objects arriving as
   notifications, crashes and restarts -- every selector key occurs once in the controller's map and, under it, every
   ClusterCIDR name occurs once: a ClusterCIDR contributes exactly one entry (one pool per family) or none *)
Theorem C10_one_entry_per_clustercidr_in_every_history :
  forall po lab ops, Forall wf_op ops ->
  forall m, w_ctl (run po lab init_world ops) = Some m ->
  NoDup (map fst m) /\ forall k l, In (k, l) m -> NoDup (map cc_name l).
Proof. intros po lab ops H m Em. exact (one_entry_per_clustercidr_in_every_history po lab ops H m Em). Qed.
Print Assumptions C10_one_entry_per_clustercidr_in_every_history.

(* once the deletion has completed it contributes none: a deletion work item that succeeds leaves no entry of that name
   under the selector that is not terminating -- and with one entry per name, the terminating one was removed when it had
   no associated node (delete_cluster_cidr); stated here as: whatever remains under that name is terminating *)
Theorem C10_after_deletion_nothing_allocatable_remains :
  forall m o out m' r fx k, NU m -> KU m -> o_selkey o = Some k ->
  reconcile_delete m o out = (m', r, fx) -> all_term_at m' k (o_name o).
Proof. exact reconcile_delete_marks_terminating. Qed.
Print Assumptions C10_after_deletion_nothing_allocatable_remains.

(* "already picked up at start-up", the default ClusterCIDR: the object the controller builds from its --cluster-cidr flags is
   added to the start-up listing only when no object of that name is listed -- so a restart that finds it adds no second
   one -- and adding is idempotent *)
Theorem C10_default_clustercidr_is_added_at_most_once :
  forall dp ccs, with_default dp (with_default dp ccs) = with_default dp ccs.
Proof. exact with_default_idem. Qed.
Print Assumptions C10_default_clustercidr_is_added_at_most_once.

Theorem C10_listed_default_clustercidr_is_kept :
  forall dp ccs o, In o ccs -> o_name o = default_name -> with_default dp ccs = ccs.
Proof. exact with_default_listed. Qed.
Print Assumptions C10_listed_default_clustercidr_is_kept.

(* and among the API objects of every history -- user creations, deletions, the controller's own writes and its Create of the
   default ClusterCIDR, restarts -- every ClusterCIDR name occurs once: one object per name, hence (theorem above) one entry *)
Theorem C10_one_object_per_name_in_every_history :
  forall po lab ops, NoDup (map o_name (w_ccs (run po lab init_world ops))).
Proof. exact clustercidr_names_unique_in_every_history. Qed.
Print Assumptions C10_one_object_per_name_in_every_history.

(* non-vacuity: started twice with dual-stack flags; the second start finds the object the first one created *)
Example C10_default_clustercidr_nonvacuous :
  let po0 : parse_oracle := fun _ => Some [] in
  let lab0 : label_oracle := fun k => [cl k] in
  let dp := [(mkCidr V4 167772160 24, 28%Z); (mkCidr V6 336294682933583715844663186250927177728 120, 124%Z)] in
  let ops := [Construct None None [] dp; StartInformers; ProcCC UOk; Crash; Construct None None [] dp; StartInformers; ProcCC UOk] in
  map (fun o => (o_name o, o_v4 o, o_hb o, o_fins o)) (w_ccs (run po0 lab0 init_world ops)) =
    [(default_name, FOk (mkCidr V4 167772160 24), 4%Z, [finalizer])].
Proof. vm_compute. reflexivity. Qed.

(* "Create is only used for creating the default ClusterCIDR": every ClusterCIDR object the API holds, the store shows, a
   notification carries or a worker fetched has a non-empty resource version (an invariant of every history), so in every step
   of every history the only object the controller sends with Create is the one named default-cluster-cidr, and only while
   it starts up -- handling any listed or notified object again never creates a second API object *)
Theorem C10_only_the_default_clustercidr_is_ever_created :
  forall po lab ops o o' uo,
  In (FxCreateCC o' uo) (ob_fx (snd (step po lab (run po lab init_world ops) o))) ->
  o_name o' = default_name /\ exists s1 s2 outs dp, o = Construct s1 s2 outs dp.
Proof. exact only_the_default_clustercidr_is_created. Qed.
Print Assumptions C10_only_the_default_clustercidr_is_ever_created.
