(* C10 -- Handling the same ClusterCIDR again has no additional effect. *)
From NIPAM Require Import Sys Alloc_proofs Inv_proofs.
Open Scope N_scope.

(* mapping is idempotent per name: whenever an entry of that name is already filed under the selector,
   handling the object again (retry after a failed write, duplicate or stale notification, object
   already picked up at start-up) leaves the map unchanged, whatever the write outcome *)
Theorem C10_handling_mapped_object_changes_nothing :
  forall m o term boot out k, o_selkey o = Some k -> is_mapped m k (o_name o) = true ->
  fst (fst (create_cluster_cidr m o term boot out)) = m.
Proof. exact create_when_mapped_keeps_map. Qed.
Print Assumptions C10_handling_mapped_object_changes_nothing.

(* once an object carrying the finalizer has been handled successfully, handling it again is a no-op:
   no state change, no API request *)
Theorem C10_second_handling_is_noop :
  forall m o out1 out2 m1 fx1, reconcile_create m o out1 = (m1, Ok tt, fx1) -> need_finalizer o = false ->
  reconcile_create m1 o out2 = (m1, Ok tt, []).
Proof. exact reconcile_create_idempotent. Qed.
Print Assumptions C10_second_handling_is_noop.

(* a failed finalizer write leaves nothing behind (the entry is mapped only after the write succeeded) *)
Theorem C10_failed_write_maps_nothing :
  forall m o out m' r fx, need_finalizer o = true -> out <> UOk ->
  create_cluster_cidr m o false false out = (m', r, fx) -> m' = m.
Proof.
  intros m o out m' r fx Hn Ho H. unfold create_cluster_cidr in H.
  destruct (o_selkey o); [|inversion H; reflexivity].
  destruct (create_set o false) as [c|e|]; try (inversion H; reflexivity).
  destruct (cc_v4 c), (cc_v6 c); try (inversion H; reflexivity); rewrite Hn in H; destruct out; try congruence; inversion H; reflexivity.
Qed.
Print Assumptions C10_failed_write_maps_nothing.
