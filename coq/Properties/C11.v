(* C11 -- When changes stop the controller converges to the intended state.
   Proved: a node or ClusterCIDR work item that failed is always queued again, never dropped.
   Not proved (checked by the monitor after a fair drain of every history): progress and bounded
   convergence; fairness and timing of the real rate limiter are represented only by Tick.
   Recorded residue: K-AMB. *)
From NIPAM Require Import Sys Alloc_proofs Sys_proofs.
Open Scope N_scope.

Theorem C11_partial_failed_node_item_requeued :
  forall po lab w outs w' ob key rest, w_ctl w <> None -> q_ready (w_nq w) = key :: rest ->
  step po lab w (ProcNode outs) = (w', ob) -> ob_res ob = 2 ->
  In key (q_retry (w_nq w')) /\ ob_requeued ob = true.
Proof. exact failed_node_item_requeued. Qed.
Print Assumptions C11_partial_failed_node_item_requeued.

Theorem C11_partial_failed_cc_item_requeued :
  forall po lab w out w' ob key rest, w_ctl w <> None -> q_ready (w_cq w) = key :: rest ->
  step po lab w (ProcCC out) = (w', ob) -> ob_res ob = 2 ->
  In key (q_retry (w_cq w')) /\ ob_requeued ob = true.
Proof. exact failed_cc_item_requeued. Qed.
Print Assumptions C11_partial_failed_cc_item_requeued.
