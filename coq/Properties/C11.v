(* C11 -- When changes stop the controller converges to the intended state.
   Proved: a node or ClusterCIDR work item that failed is always queued again, never dropped (safety half);
   the progress step for nodes: a node without pod CIDRs for which some considered ClusterCIDR has room IS
   served when its item runs with a successful write; and conversely a refusal means no considered entry has
   room (C05) -- so each fair, fault-free round strictly reduces the number of servable unserved nodes.
   Both progress steps are also proved for the closed loop (Conv_proofs.v): one fault-free ProcNode on a queued, servable
   node leaves the node's API object WITH pod CIDRs; one fault-free ProcCC on a ClusterCIDR whose deletion was requested,
   that carries only the controller's finalizer and on whose entry no node depends, removes the object from the API and
   the entry from the map.
   The measure argument is proved for the node half (Conv_proofs.v, rounds_converge): from a QUIET world (controller and
   informers running, node feed empty, the node store equal to the API objects, no node being deleted) at most
   (number of nodes without pod CIDRs) + 1 fair fault-free rounds -- each node still without pod CIDRs is fetched, its
   work item run with a successful write, the resulting notification delivered -- reach a SETTLED world: every node
   still without pod CIDRs was processed, in a state that differs from the final one in search cursors only, and refused
   there, i.e. no entry offered for its labels had room (C05).  A round in which something is servable serves at least
   one node (the count strictly decreases); a round that serves nobody changes no used set.
   And from ANY world reached by a history without node relists in which the controller and the informers run and no node
   is being deleted (Coh_proofs.v): informer coherence -- replaying the pending node notifications onto the node store
   yields exactly the API objects -- is an invariant of every such history, so delivering the pending notifications makes
   the world quiet, and the rounds converge from there.
   Node relists permute the store; coherence UP TO ORDER (CohP_proofs.v: the store has one object per name and replaying the
   pending notifications onto it yields exactly the views of the API objects, as a set) is an invariant of EVERY history, so
   the convergence theorem holds from the world reached by any history of well-formed operations whatever
   (C11_convergence_in_any_history).  The ClusterCIDR-deletion half is a one-round measure (ConvCC_proofs.v, below).
   Not proved: real queue order -- fairness is represented by the round schedule, the rate limiter by Tick; nodes being
   deleted.
   Recorded residue: K-AMB. *)
From NIPAM Require Import Sys Alloc_proofs Sys_proofs Inv_proofs World_proofs Complete_proofs Path_proofs NoPanic_proofs Progress_proofs Store_proofs Conv_proofs Coh_proofs CohP_proofs Term_proofs Default_proofs ConvCC_proofs Just2_proofs.
From Coq Require Import Lia.
Open Scope N_scope.

Theorem C11_partial_failed_node_item_requeued :
  forall po lab w outs w' ob key rest, w_ctl w <> None -> q_ready (w_nq w) = key :: rest ->
  step po lab w (ProcNode outs) = (w', ob) -> ob_res ob = 2 ->
  In key (q_retry (w_nq w')) /\ ob_requeued ob = true.
Proof. exact failed_node_item_requeued. Qed.
Print Assumptions C11_partial_failed_node_item_requeued.

Theorem C11_partial_failed_cc_item_requeued :
  forall po lab w out w' ob key rest, w_ctl w <> None -> q_ready (w_cq w) = key :: rest ->
  step po lab w (ProcCC out) = (w', ob) -> ob_res ob = 2 ->
  In key (q_retry (w_cq w')) /\ ob_requeued ob = true.
Proof. exact failed_cc_item_requeued. Qed.
Print Assumptions C11_partial_failed_cc_item_requeued.

(* progress step: a servable node is served by one successful run of its work item *)
Theorem C11_partial_servable_node_is_served :
  forall po lab svcs canp apisame held m node nr outs ps,
  MapInv m -> KU m -> n_cidrs node = [] -> n_deleting node = false -> n_cidrs nr = [] ->
  (forall cs, canp cs = true) ->
  ordered_matching po lab m (n_labels node) true = Ok ps ->
  (exists p c, In p ps /\ get_entry m p = Some c /\ ~ no_room m held c) ->
  exists m' cs, cs <> [] /\
    sync_node po lab svcs canp apisame held m (Some node) (Some nr) (POk :: outs) = (m', Ok tt, [FxPatch (n_name node) cs POk]).
Proof. exact servable_node_is_served. Qed.
Print Assumptions C11_partial_servable_node_is_served.

(* ---------- progress steps of the closed loop ---------- *)
Theorem C11_partial_queued_servable_node_gets_pod_cidrs :
  forall po lab w m key rest outs node a ps,
  w_ctl w = Some m -> MapInv m -> KU m ->
  q_ready (w_nq w) = key :: rest ->
  find_node key (w_ncache w) = Some node -> n_cidrs node = [] -> n_deleting node = false ->
  find_anode key (w_nodes w) = Some a -> an_cidrs a = [] ->
  ordered_matching po lab m (n_labels node) true = Ok ps ->
  (exists p c, In p ps /\ get_entry m p = Some c /\ ~ no_room m (held_cidrs (w_ncache w)) c) ->
  let w' := fst (step po lab w (ProcNode (POk :: outs))) in
  exists a' cs, cs <> [] /\ find_anode key (w_nodes w') = Some a' /\ an_cidrs a' = map (fun c => PGood c true) cs /\
                ob_res (snd (step po lab w (ProcNode (POk :: outs)))) = 1.
Proof. exact proc_node_serves. Qed.
Print Assumptions C11_partial_queued_servable_node_gets_pod_cidrs.

Theorem C11_partial_unneeded_deleting_clustercidr_is_released :
  forall po lab w m key rest o cur k l i c,
  w_ctl w = Some m -> q_ready (w_cq w) = key :: rest ->
  find_cc key (w_ccache w) = Some o -> o_deleting o = true -> o_fins o = [finalizer] ->
  find_cc (o_name o) (w_ccs w) = Some cur -> o_rv cur = o_rv o -> o_deleting cur = true ->
  o_selkey o = Some k -> find_key k m = Some l -> find_name (o_name o) l 0 = Some (i, c) -> cc_assoc c = [] ->
  let w' := fst (step po lab w (ProcCC UOk)) in
  find_cc (o_name o) (w_ccs w') = None /\ ob_res (snd (step po lab w (ProcCC UOk))) = 1 /\
  exists m', w_ctl w' = Some m' /\ delete_cluster_cidr m o = (m', Ok tt).
Proof. exact proc_cc_releases. Qed.
Print Assumptions C11_partial_unneeded_deleting_clustercidr_is_released.

(* ---------- the measure argument (node half) ---------- *)
Theorem C11_bounded_convergence_of_fair_rounds :
  forall po lab n w, Quiet w -> (length (unserved_nodes w) <= n)%nat ->
  exists k, (k <= S n)%nat /\ Quiet (Nat.iter k (round po lab) w) /\ settled po lab (Nat.iter k (round po lab) w).
Proof. exact rounds_converge. Qed.
Print Assumptions C11_bounded_convergence_of_fair_rounds.

(* one round: the count of nodes without pod CIDRs goes down, or the world is settled *)
Theorem C11_each_round_serves_someone_or_settles :
  forall po lab w, Quiet w ->
  Quiet (round po lab w) /\
  ((length (unserved_nodes (round po lab w)) < length (unserved_nodes w))%nat \/ settled po lab (round po lab w)).
Proof. exact round_spec. Qed.
Print Assumptions C11_each_round_serves_someone_or_settles.

(* non-vacuity: a reachable world is quiet -- one ClusterCIDR with two blocks, three nodes delivered to the controller --
   and one round serves two of them; the third stays without pod CIDRs (settled: refused) *)
Example C11_quiet_world_nonvacuous :
  let po0 : parse_oracle := fun _ => Some [] in
  let lab0 : label_oracle := fun k => [cl k] in
  let ops := [UCreateCC (mkCCObj [99] (FOk (mkCidr V4 167772160 27)) FEmpty 4 (Some [107]) [] false 1 0 0);
              Construct None None [UOk] []; StartInformers; ProcCC UOk;
              UCreateNode [110;49] [] []; UCreateNode [110;50] [] []; UCreateNode [110;51] [] [];
              DeliverNode; DeliverNode; DeliverNode; DeliverCC] in
  let w0 := run po0 lab0 init_world ops in
  Quiet w0 /\
  map (fun a => (an_name a, an_cidrs a)) (w_nodes (round po0 lab0 w0)) =
    [([110;49], [PGood (mkCidr V4 167772160 28) true]); ([110;50], [PGood (mkCidr V4 167772176 28) true]); ([110;51], [])].
Proof.
  cbv zeta. split; [|vm_compute; reflexivity].
  match goal with |- Quiet (run ?po ?lab init_world ?ops) =>
    assert (Hwf : Forall wf_op ops) end.
  { repeat constructor; cbn; try (intros ? E; discriminate E);
      try (unfold good_obj, good_field, good_range, wf_cidr; cbn; repeat split; try lia; try discriminate; intros [? _]; discriminate). }
  constructor.
  - apply run_winv; [apply winv_init|exact Hwf].
  - apply run_wk; [apply winv_init|intros m E; discriminate E|exact Hwf].
  - eexists. vm_compute. reflexivity.
  - vm_compute. reflexivity.
  - vm_compute. reflexivity.
  - apply Store_proofs.seq_of_eq; [vm_compute; reflexivity|]. unfold Store_proofs.nd. vm_compute. repeat constructor; cbn; intuition discriminate.
  - vm_compute. repeat constructor; cbn; intuition discriminate.
  - intros a Ha. vm_compute in Ha. destruct Ha as [<-|[<-|[<-|[]]]]; reflexivity.
Qed.

(* ---------- informer coherence and convergence from any running world ---------- *)
Theorem C11_informer_coherence_in_every_history_without_node_relist :
  forall po lab ops, Forall coh_op ops ->
  let w := run po lab init_world ops in
  NoDup (map an_name (w_nodes w)) /\
  (w_synced w = true -> replay_n (w_ncache w) (w_nfeed w) = map node_view (w_nodes w)).
Proof. intros po lab ops H w. pose proof (run_coh po lab ops init_world coh_init H) as C. split; [exact (co_names _ C)|exact (co_sync _ C)]. Qed.
Print Assumptions C11_informer_coherence_in_every_history_without_node_relist.

Theorem C11_convergence_from_any_running_world :
  forall po lab ops, Forall wf_op ops -> Forall coh_op ops ->
  let w := run po lab init_world ops in
  w_synced w = true -> (exists m, w_ctl w = Some m) -> (forall a, In a (w_nodes w) -> an_deleting a = false) ->
  exists k, (k <= S (length (unserved_nodes (drain po lab w))))%nat /\
            settled po lab (Nat.iter k (round po lab) (drain po lab w)).
Proof.
  intros po lab ops Hwf Hco w Hs Hm Hd. apply converge_after_drain; try assumption.
  - apply run_winv; [apply winv_init|exact Hwf].
  - apply run_wk; [apply winv_init|intros m E; discriminate E|exact Hwf].
  - apply run_coh; [apply coh_init|exact Hco].
Qed.
Print Assumptions C11_convergence_from_any_running_world.

(* the ClusterCIDR informer likewise: replaying the pending ClusterCIDR notifications onto the store yields the API objects,
   in every history without a ClusterCIDR relist *)
Theorem C11_clustercidr_informer_coherence :
  forall po lab ops, Forall cohc_op ops ->
  let w := run po lab init_world ops in
  w_synced w = true -> replay_c (w_ccache w) (w_cfeed w) = w_ccs w.
Proof. intros po lab ops H w. exact (cc_sync _ (run_cohc po lab ops init_world cohc_init H)). Qed.
Print Assumptions C11_clustercidr_informer_coherence.

(* the deletion half, as a dichotomy: a fault-free run of the work item of a ClusterCIDR whose deletion was requested and
   that carries the controller's finalizer, on the object as the API has it, either takes the finalizer off (the object is
   gone when it carried no other) or writes nothing because the controller still sees dependants on the entry (or cannot
   convert the selector) *)
Theorem C11_partial_deleting_clustercidr_is_released_or_busy :
  forall W m o,
  w_ctl W = Some m -> find_cc (o_name o) (w_ccs W) = Some o -> o_deleting o = true -> has_str finalizer (o_fins o) = true ->
  let W2 := fst (run_cc_sync W (o_name o) (Some o) UOk) in
  ((forall o2, find_cc (o_name o) (w_ccs W2) = Some o2 -> has_str finalizer (o_fins o2) = false) /\ w_ctl W2 <> None) \/
  (w_ccs W2 = w_ccs W /\ w_cfeed W2 = w_cfeed W /\ busy_at m o).
Proof. exact run_cc_sync_deleting. Qed.
Print Assumptions C11_partial_deleting_clustercidr_is_released_or_busy.

(* ---------- the ClusterCIDR-deletion half as a measure: ONE round ---------- *)
(* From a world in which the controller and the informers run and no ClusterCIDR notification is pending, one fair fault-free
   round -- every ClusterCIDR whose deletion was requested and that still carries the controller's finalizer is fetched, its
   work item run with a successful write, the resulting notifications delivered -- leads to a world of the same kind in which
   every such ClusterCIDR that is left is one the controller still sees a dependant of: under its selector there is an entry
   of its name with an associated node (or its selector cannot be converted).  Every other one has lost the finalizer, i.e.
   is gone when it carried no other. *)
Theorem C11_one_round_settles_clustercidr_deletions :
  forall po lab w, QuietC w ->
  QuietC (round_c po lab w) /\
  forall o, In o (w_ccs (round_c po lab w)) -> o_deleting o = true -> has_str finalizer (o_fins o) = true ->
    busy_in (ctl_of (round_c po lab w)) o.
Proof.
  intros po lab w Q. destruct (round_c_settles po lab w Q) as [Q' S]. split; [exact Q'|].
  intros o Ho Hd Hf. apply S; [exact Ho|]. unfold wants_release. rewrite Hd, Hf. reflexivity.
Qed.
Print Assumptions C11_one_round_settles_clustercidr_deletions.

(* non-vacuity: two ClusterCIDRs are being deleted; c (selector k) serves node n1, d (selector l) serves nobody.  The world is
   quiet; the round removes d and keeps c, whose entry still has n1 associated *)
Example C11_clustercidr_round_nonvacuous :
  let po0 : parse_oracle := fun _ => Some [] in
  let lab0 : label_oracle := fun k => [cl k] in
  let ops := [UCreateCC (mkCCObj [99] (FOk (mkCidr V4 167772160 27)) FEmpty 4 (Some [107]) [] false 1 0 0);
              Construct None None [UOk] []; StartInformers; ProcCC UOk;
              UCreateNode [110;49] [] []; DeliverNode; ProcNode [POk]; DeliverNode; DeliverCC;
              UCreateCC (mkCCObj [100] (FOk (mkCidr V4 167772416 27)) FEmpty 4 (Some [108]) [] false 1 0 0); DeliverCC; ProcCC UOk; DeliverCC;
              UDeleteCC [99]; UDeleteCC [100]; DeliverCC; DeliverCC] in
  let w0 := run po0 lab0 init_world ops in
  QuietC w0 /\ map o_name (pending w0) = [[99]; [100]] /\
  map (fun o => (o_name o, o_fins o)) (w_ccs (round_c po0 lab0 w0)) = [([99], [finalizer])].
Proof.
  cbv zeta. split; [|split; vm_compute; reflexivity].
  match goal with |- QuietC (run ?po ?lab init_world ?ops) =>
    assert (Hwf : Forall wf_op ops) end.
  { repeat constructor; cbn; try (intros ? E; discriminate E);
      try (unfold good_obj, good_field, good_range, wf_cidr; cbn; repeat split; try lia; try discriminate; intros [? _]; discriminate). }
  constructor.
  - apply run_winv; [apply winv_init|exact Hwf].
  - apply run_wk; [apply winv_init|intros m E; discriminate E|exact Hwf].
  - apply run_cohc; [apply cohc_init|repeat constructor].
  - apply run_cn. unfold CN. cbn. constructor.
  - eexists. vm_compute. reflexivity.
  - vm_compute. reflexivity.
  - vm_compute. reflexivity.
Qed.

(* ---------- convergence from the world reached by ANY history ---------- *)
(* informer coherence up to order is an invariant of every history, node relists included *)
Theorem C11_informer_coherence_up_to_order_in_every_history :
  forall po lab ops,
  let w := run po lab init_world ops in
  NoDup (map an_name (w_nodes w)) /\ NoDup (map n_name (w_ncache w)) /\
  (w_synced w = true -> forall y, In y (replay_n (w_ncache w) (w_nfeed w)) <-> In y (map node_view (w_nodes w))).
Proof.
  intros po lab ops w. pose proof (run_cohp po lab ops init_world cohp_init) as C.
  split; [exact (cq_names _ C)|]. split; [exact (cq_store _ C)|]. intros Hs. exact (proj2 (proj2 (cq_sync _ C Hs))).
Qed.
Print Assumptions C11_informer_coherence_up_to_order_in_every_history.

Theorem C11_convergence_in_any_history :
  forall po lab ops, Forall wf_op ops ->
  let w := run po lab init_world ops in
  w_synced w = true -> (exists m, w_ctl w = Some m) -> (forall a, In a (w_nodes w) -> an_deleting a = false) ->
  exists k, (k <= S (length (unserved_nodes (drain po lab w))))%nat /\
            settled po lab (Nat.iter k (round po lab) (drain po lab w)).
Proof. exact converge_in_any_history. Qed.
Print Assumptions C11_convergence_in_any_history.

(* ---------- the recorded residue K-AMB, as a statement about the model ---------- *)
(* After all three writes of a node's pod CIDRs timed out (not applied) and the read-back failed too, the reservation is kept:
   the only block of the only ClusterCIDR stays in use although no node holds it, and every later fault-free run of the node's
   work item is refused -- the node is servable in the cluster's terms and is never served until the controller restarts.
   (Convergence holds for the histories of the theorems above, whose rounds are fault-free from a quiet world.) *)
Example C11_not_converging_after_failed_readback_K_AMB :
  let po0 : parse_oracle := fun _ => Some [] in
  let lab0 : label_oracle := fun k => [cl k] in
  let ops := [UCreateCC (mkCCObj [99] (FOk (mkCidr V4 167772160 28)) FEmpty 4 (Some [107]) [] false 1 0 0);
              Construct None None [UOk] []; StartInformers; ProcCC UOk; UCreateNode [110;49] [] []; DeliverNode;
              ProcNode [PTimeoutNotApplied; PTimeoutNotApplied; PTimeoutNotApplied; PFail]; Tick; ProcNode [POk]; Tick; ProcNode [POk]] in
  let w := run po0 lab0 init_world ops in
  map (fun a => (an_name a, an_cidrs a)) (w_nodes w) = [([110;49], [])] /\
  Just2_proofs.used_blocks w = [mkCidr V4 167772160 28] /\
  map (fun x => ob_res (snd (fst x))) (trace po0 lab0 init_world ops) = [0; 1; 0; 1; 0; 0; 2; 0; 2; 0; 2].
Proof. cbv zeta. repeat split; vm_compute; reflexivity. Qed.
