(* C11 -- When changes stop the controller converges to the intended state.
   Proved: a node or ClusterCIDR work item that failed is always queued again, never dropped (safety half);
   the progress step for nodes: a node without pod CIDRs for which some considered ClusterCIDR has room IS
   served when its item runs with a successful write; and conversely a refusal means no considered entry has
   room (C05) -- so each fair, fault-free round strictly reduces the number of servable unserved nodes.
   Not proved (checked by the monitor after a fair drain of every history): the measure argument as one
   theorem over drain schedules (bounded convergence), and the ClusterCIDR-deletion half of the steady state;
   fairness and timing of the real rate limiter are represented only by Tick.
   Recorded residue: K-AMB. *)
From NIPAM Require Import Sys Alloc_proofs Sys_proofs Inv_proofs Complete_proofs Path_proofs Progress_proofs.
Open Scope N_scope.

Theorem C11_partial_failed_node_item_requeued :
  forall po lab w outs w' ob key rest, w_ctl w <> None -> q_ready (w_nq w) = key :: rest ->
  step po lab w (ProcNode outs) = (w', ob) -> ob_res ob = 2 ->
  In key (q_retry (w_nq w')) /\ ob_requeued ob = true.
Proof. exact failed_node_item_requeued. Qed.
Print Assumptions C11_partial_failed_node_item_requeued.

Theorem C11_partial_failed_cc_item_requeued :
  forall po lab w out w' ob key rest, w_ctl w <> None -> q_ready (w_cq w) = key :: rest ->
  step po lab w (ProcCC out) = (w', ob) -> ob_res ob = 2 ->
  In key (q_retry (w_cq w')) /\ ob_requeued ob = true.
Proof. exact failed_cc_item_requeued. Qed.
Print Assumptions C11_partial_failed_cc_item_requeued.

(* progress step: a servable node is served by one successful run of its work item *)
Theorem C11_partial_servable_node_is_served :
  forall po lab svcs canp apisame held m node nr outs ps,
  MapInv m -> KU m -> n_cidrs node = [] -> n_deleting node = false -> n_cidrs nr = [] ->
  (forall cs, canp cs = true) ->
  ordered_matching po lab m (n_labels node) true = Ok ps ->
  (exists p c, In p ps /\ get_entry m p = Some c /\ ~ no_room m held c) ->
  exists m' cs, cs <> [] /\
    sync_node po lab svcs canp apisame held m (Some node) (Some nr) (POk :: outs) = (m', Ok tt, [FxPatch (n_name node) cs POk]).
Proof. exact servable_node_is_served. Qed.
Print Assumptions C11_partial_servable_node_is_served.
