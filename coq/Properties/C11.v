(* C11 -- When changes stop the controller converges to the intended state.
   Proved: a node or ClusterCIDR work item that failed is always queued again, never dropped (safety half);
   the progress step for nodes: a node without pod CIDRs for which some considered ClusterCIDR has room IS
   served when its item runs with a successful write; and conversely a refusal means no considered entry has
   room (C05) -- so each fair, fault-free round strictly reduces the number of servable unserved nodes.
   Both progress steps are also proved for the closed loop (Conv_proofs.v): one fault-free ProcNode on a queued, servable
   node leaves the node's API object WITH pod CIDRs; one fault-free ProcCC on a ClusterCIDR whose deletion was requested,
   that carries only the controller's finalizer and on whose entry no node depends, removes the object from the API and
   the entry from the map.
   Not proved (checked by the monitor after a fair drain of every history): the measure argument as one
   theorem over drain schedules (bounded convergence);
   fairness and timing of the real rate limiter are represented only by Tick.
   Recorded residue: K-AMB. *)
From NIPAM Require Import Sys Alloc_proofs Sys_proofs Inv_proofs Complete_proofs Path_proofs Progress_proofs Conv_proofs.
Open Scope N_scope.

Theorem C11_partial_failed_node_item_requeued :
  forall po lab w outs w' ob key rest, w_ctl w <> None -> q_ready (w_nq w) = key :: rest ->
  step po lab w (ProcNode outs) = (w', ob) -> ob_res ob = 2 ->
  In key (q_retry (w_nq w')) /\ ob_requeued ob = true.
Proof. exact failed_node_item_requeued. Qed.
Print Assumptions C11_partial_failed_node_item_requeued.

Theorem C11_partial_failed_cc_item_requeued :
  forall po lab w out w' ob key rest, w_ctl w <> None -> q_ready (w_cq w) = key :: rest ->
  step po lab w (ProcCC out) = (w', ob) -> ob_res ob = 2 ->
  In key (q_retry (w_cq w')) /\ ob_requeued ob = true.
Proof. exact failed_cc_item_requeued. Qed.
Print Assumptions C11_partial_failed_cc_item_requeued.

(* progress step: a servable node is served by one successful run of its work item *)
Theorem C11_partial_servable_node_is_served :
  forall po lab svcs canp apisame held m node nr outs ps,
  MapInv m -> KU m -> n_cidrs node = [] -> n_deleting node = false -> n_cidrs nr = [] ->
  (forall cs, canp cs = true) ->
  ordered_matching po lab m (n_labels node) true = Ok ps ->
  (exists p c, In p ps /\ get_entry m p = Some c /\ ~ no_room m held c) ->
  exists m' cs, cs <> [] /\
    sync_node po lab svcs canp apisame held m (Some node) (Some nr) (POk :: outs) = (m', Ok tt, [FxPatch (n_name node) cs POk]).
Proof. exact servable_node_is_served. Qed.
Print Assumptions C11_partial_servable_node_is_served.

(* ---------- progress steps of the closed loop ---------- *)
Theorem C11_partial_queued_servable_node_gets_pod_cidrs :
  forall po lab w m key rest outs node a ps,
  w_ctl w = Some m -> MapInv m -> KU m ->
  q_ready (w_nq w) = key :: rest ->
  find_node key (w_ncache w) = Some node -> n_cidrs node = [] -> n_deleting node = false ->
  find_anode key (w_nodes w) = Some a -> an_cidrs a = [] ->
  ordered_matching po lab m (n_labels node) true = Ok ps ->
  (exists p c, In p ps /\ get_entry m p = Some c /\ ~ no_room m (held_cidrs (w_ncache w)) c) ->
  let w' := fst (step po lab w (ProcNode (POk :: outs))) in
  exists a' cs, cs <> [] /\ find_anode key (w_nodes w') = Some a' /\ an_cidrs a' = map (fun c => PGood c true) cs /\
                ob_res (snd (step po lab w (ProcNode (POk :: outs)))) = 1.
Proof. exact proc_node_serves. Qed.
Print Assumptions C11_partial_queued_servable_node_gets_pod_cidrs.

Theorem C11_partial_unneeded_deleting_clustercidr_is_released :
  forall po lab w m key rest o cur k l i c,
  w_ctl w = Some m -> q_ready (w_cq w) = key :: rest ->
  find_cc key (w_ccache w) = Some o -> o_deleting o = true -> o_fins o = [finalizer] ->
  find_cc (o_name o) (w_ccs w) = Some cur -> o_rv cur = o_rv o -> o_deleting cur = true ->
  o_selkey o = Some k -> find_key k m = Some l -> find_name (o_name o) l 0 = Some (i, c) -> cc_assoc c = [] ->
  let w' := fst (step po lab w (ProcCC UOk)) in
  find_cc (o_name o) (w_ccs w') = None /\ ob_res (snd (step po lab w (ProcCC UOk))) = 1 /\
  exists m', w_ctl w' = Some m' /\ delete_cluster_cidr m o = (m', Ok tt).
Proof. exact proc_cc_releases. Qed.
Print Assumptions C11_partial_unneeded_deleting_clustercidr_is_released.
