(* C12 -- No watched object content can crash the controller or cause a bogus assignment.
   [Panic] is an explicit result of the model wherever the Go code would dereference, index or assert
   without a guard (and wherever a path of the model would not denote an entry).  Proved:
   - over the closed loop (NoPanic_proofs.v, last theorem of this file): in EVERY history of well-formed
     operations from the initial world -- ClusterCIDRs with unparseable, empty, wrong-family or any parsed
     range of the domain of C13, any perNodeHostBits, any (also unrepresentable) selector; nodes with any mix
     of unparseable and parsed pod CIDRs of either family; deletions delivered plainly, as tombstones or through
     relists; stale work items; failed and timed-out writes; crashes and restarts -- NO step panics: no node
     work item, no ClusterCIDR work item, no notification handler, not the construction at start-up;
   - unusable ClusterCIDRs are rejected with an error and leave the state unchanged;
   - what is handed out is always a well-formed block (C02), for every such history.
   Outside the model's value domain: IPv4-mapped IPv6 text forms (K1). *)
From NIPAM Require Import Sys Alloc_proofs Inv_proofs Sel_proofs Path_proofs NoPanic_proofs World_proofs.
Open Scope N_scope.

Theorem C12_ordering_never_panics :
  forall po lab m ls occ, MapInv m -> ordered_matching po lab m ls occ <> Panic.
Proof. exact ordered_matching_no_panic. Qed.
Print Assumptions C12_ordering_never_panics.

Theorem C12_invariant_preserved_by_node_items :
  forall po lab svcs canp apisame held m cached reread outs m' r fx,
  MapInv m -> Forall wf_cidr svcs -> (forall n, cached = Some n -> wf_node n) ->
  sync_node po lab svcs canp apisame held m cached reread outs = (m', r, fx) -> MapInv m'.
Proof. exact sync_node_inv. Qed.

Theorem C12_invariant_preserved_by_clustercidr_items :
  forall m key cached out m' r fx,
  MapInv m -> (forall o, cached = Some o -> good_obj o) -> sync_cc m key cached out = (m', r, fx) -> MapInv m'.
Proof. exact sync_cc_inv. Qed.
Print Assumptions C12_invariant_preserved_by_clustercidr_items.

(* ClusterCIDR handling itself has no panic at all, for ANY object content *)
Theorem C12_clustercidr_items_never_panic :
  forall m key cached out, snd (fst (sync_cc m key cached out)) <> Panic.
Proof. exact sync_cc_no_panic. Qed.
Print Assumptions C12_clustercidr_items_never_panic.

(* unusable objects are rejected with an error and change nothing: unrepresentable selector, unparseable
   range, range of the other family, host bits out of range, no range at all *)
Theorem C12_unusable_selector_rejected :
  forall m o term boot out, o_selkey o = None -> create_cluster_cidr m o term boot out = (m, Err ESelector, []).
Proof. exact unrepresentable_selector_rejected. Qed.

Theorem C12_unusable_range_rejected :
  forall m o term boot out k, o_selkey o = Some k ->
  (o_v4 o = FBad \/ o_v6 o = FBad \/ (exists c, o_v4 o = FOk c /\ cf c = V6) \/ (exists c, o_v6 o = FOk c /\ cf c = V4)
   \/ (o_v4 o = FEmpty /\ o_v6 o = FEmpty)) ->
  exists e, create_cluster_cidr m o term boot out = (m, Err e, []).
Proof.
  intros m o term boot out k Hk H. unfold create_cluster_cidr, create_set. rewrite Hk.
  destruct H as [H|[H|[(c & H & Hf)|[(c & H & Hf)|[H4 H6]]]]].
  - rewrite H. cbn. eexists. reflexivity.
  - rewrite H. destruct (mk_pool V4 (o_v4 o) (o_hb o)) eqn:E4; cbn; try (eexists; reflexivity). exfalso. exact (mk_pool_never_panics _ _ _ E4).
  - rewrite H. unfold mk_pool. rewrite Hf. cbn. eexists. reflexivity.
  - rewrite H. destruct (mk_pool V4 (o_v4 o) (o_hb o)) eqn:E4; cbn; try (eexists; reflexivity).
    + unfold mk_pool. rewrite Hf. cbn. eexists. reflexivity.
    + exfalso. exact (mk_pool_never_panics _ _ _ E4).
  - rewrite H4, H6. cbn. eexists. reflexivity.
Qed.
Print Assumptions C12_unusable_range_rejected.

Theorem C12_unusable_hostbits_rejected :
  forall f base clen hb, (hb < 0)%Z \/ (Z.of_N (width f) - hb < Z.of_N clen)%Z -> new_pool f base clen hb = NewErr.
Proof.
  intros f base clen hb H. unfold new_pool.
  destruct (match f with V6 => true | V4 => false end && (16 <? Z.of_N (width f) - hb - Z.of_N clen)%Z)%bool; [reflexivity|].
  destruct H as [H|H].
  - apply Z.ltb_lt in H. rewrite H. reflexivity.
  - apply Z.ltb_lt in H. rewrite H. rewrite Bool.orb_true_r. reflexivity.
Qed.
Print Assumptions C12_unusable_hostbits_rejected.

(* a node work item never panics, in any state with the structural invariant and unique keys ... *)
Theorem C12_node_items_never_panic :
  forall po lab svcs canp apisame held m cached reread outs,
  MapInv m -> KU m -> snd (fst (sync_node po lab svcs canp apisame held m cached reread outs)) <> Panic.
Proof. exact sync_node_no_panic. Qed.
Print Assumptions C12_node_items_never_panic.

(* ... and these hold in every reachable world: no step of any history of well-formed operations panics *)
Theorem C12_no_step_of_any_history_panics :
  forall po lab ops, Forall wf_op ops ->
  forall o ob w', In (o, ob, w') (trace po lab init_world ops) -> ob_res ob <> 3.
Proof. exact no_panic_in_any_history. Qed.
Print Assumptions C12_no_step_of_any_history_panics.

(* non-vacuity: a history with garbage, a wrong-family range, a node holding a CIDR of a family its ClusterCIDR
   lacks, a tombstone and a relist, evaluated: results are errors and successes, never 3 *)
Example C12_history_nonvacuous :
  let po0 : parse_oracle := fun _ => Some [] in
  let lab0 : label_oracle := fun k => [cl k] in
  let ops := [UCreateCC (mkCCObj [99] (FOk (mkCidr V4 167772160 26)) FEmpty 4 (Some [107]) [] false 1 0 0);
              UCreateCC (mkCCObj [100] FBad (FOk (mkCidr V4 167772160 26)) (-3) None [] false 1 0 0);
              UCreateNode [110;49] [] [PGood (mkCidr V6 (2^120) 124) true; PBad];
              Construct None None [] []; StartInformers; ProcCC UOk; ProcCC UOk; ProcNode [POk]; ProcNode [POk];
              UCreateNode [110;50] [] []; DeliverNode; ProcNode [PFail; PTimeoutApplied; PFail; PFail];
              UDeleteNode [110;50]; DeliverNodeTombstone; RelistNodes; UDeleteNode [110;49]; RelistNodes] in
  Forall wf_op ops /\
  map (fun x => ob_res (snd (fst x))) (trace po0 lab0 init_world ops) = [0; 0; 0; 1; 0; 1; 2; 2; 0; 0; 0; 2; 0; 0; 1; 0; 2].
Proof.
  cbv zeta. split; [|vm_compute; reflexivity].
  repeat constructor; cbn; try discriminate; try (intros ? E; discriminate E);
    unfold good_obj, good_field, good_range, wf_cidr, wf_pcidr; cbn; repeat split; try lia; try discriminate; try (intros [? _]; discriminate).
Qed.
