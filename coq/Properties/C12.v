(* C12 -- No watched object content can crash the controller or cause a bogus assignment.
   [Panic] is an explicit result of the model wherever the Go code would dereference, index or
   assert without a guard.  Proved: under the structural invariant the ordering of matching entries
   never panics (every entry has a pool), the invariant is preserved by every work item and by
   construction for every well-formed input, unusable ClusterCIDRs are rejected with an error and
   leave the state unchanged; what is handed out is always a well-formed block (C02). *)
From NIPAM Require Import Sys Alloc_proofs Inv_proofs Sel_proofs.
Open Scope N_scope.

Theorem C12_ordering_never_panics :
  forall po lab m ls occ, MapInv m -> ordered_matching po lab m ls occ <> Panic.
Proof. exact ordered_matching_no_panic. Qed.
Print Assumptions C12_ordering_never_panics.

Theorem C12_invariant_preserved_by_node_items :
  forall po lab canp apisame held m cached reread outs m' r fx,
  MapInv m -> (forall n, cached = Some n -> wf_node n) ->
  sync_node po lab canp apisame held m cached reread outs = (m', r, fx) -> MapInv m'.
Proof. exact sync_node_inv. Qed.

Theorem C12_invariant_preserved_by_clustercidr_items :
  forall m key cached out m' r fx,
  MapInv m -> (forall o, cached = Some o -> good_obj o) -> sync_cc m key cached out = (m', r, fx) -> MapInv m'.
Proof. exact sync_cc_inv. Qed.
Print Assumptions C12_invariant_preserved_by_clustercidr_items.

Lemma mk_pool_never_panics f fp hb : mk_pool f fp hb <> Panic.
Proof.
  unfold mk_pool. destruct fp as [| |c]; try discriminate.
  destruct (negb (fam_eqb (cf c) f)); [discriminate|]. destruct (new_pool _ _ _ _); discriminate.
Qed.

(* ClusterCIDR handling itself has no panic at all, for ANY object content *)
Theorem C12_clustercidr_items_never_panic :
  forall m key cached out, snd (fst (sync_cc m key cached out)) <> Panic.
Proof.
  intros m key cached out. unfold sync_cc. destruct cached as [o|]; [|cbn; discriminate].
  destruct (o_deleting o).
  - unfold reconcile_delete, delete_cluster_cidr.
    destruct (o_selkey o) as [k|]; [|cbn; discriminate].
    destruct (find_key k m) as [l|]; [|destruct (has_str finalizer (o_fins o)); [destruct out|]; cbn; discriminate].
    destruct (find_name (o_name o) l 0) as [[i c]|]; [|destruct (has_str finalizer (o_fins o)); [destruct out|]; cbn; discriminate].
    destruct (cc_assoc c); [|cbn; discriminate].
    destruct l as [|c0 [|c1 l']]; destruct (has_str finalizer (o_fins o)); try destruct out; cbn; discriminate.
  - unfold reconcile_create. destruct (need_finalizer o || negb (is_mapped_obj m o))%bool; [|cbn; discriminate].
    unfold create_cluster_cidr. destruct (o_selkey o); [|cbn; discriminate].
    unfold create_set. destruct (mk_pool V4 (o_v4 o) (o_hb o)) as [p4|e|] eqn:E4; try (cbn; discriminate).
    + destruct (mk_pool V6 (o_v6 o) (o_hb o)) as [p6|e|] eqn:E6; try (cbn; discriminate).
      * cbn [cc_v4 cc_v6]. destruct p4, p6; try (cbn; discriminate); destruct (need_finalizer o); try destruct out; cbn; discriminate.
      * exfalso. exact (mk_pool_never_panics _ _ _ E6).
    + exfalso. exact (mk_pool_never_panics _ _ _ E4).
Qed.
Print Assumptions C12_clustercidr_items_never_panic.

(* unusable objects are rejected with an error and change nothing: unrepresentable selector, unparseable
   range, range of the other family, host bits out of range, no range at all *)
Theorem C12_unusable_selector_rejected :
  forall m o term boot out, o_selkey o = None -> create_cluster_cidr m o term boot out = (m, Err ESelector, []).
Proof. exact unrepresentable_selector_rejected. Qed.

Theorem C12_unusable_range_rejected :
  forall m o term boot out k, o_selkey o = Some k ->
  (o_v4 o = FBad \/ o_v6 o = FBad \/ (exists c, o_v4 o = FOk c /\ cf c = V6) \/ (exists c, o_v6 o = FOk c /\ cf c = V4)
   \/ (o_v4 o = FEmpty /\ o_v6 o = FEmpty)) ->
  exists e, create_cluster_cidr m o term boot out = (m, Err e, []).
Proof.
  intros m o term boot out k Hk H. unfold create_cluster_cidr, create_set. rewrite Hk.
  destruct H as [H|[H|[(c & H & Hf)|[(c & H & Hf)|[H4 H6]]]]].
  - rewrite H. cbn. eexists. reflexivity.
  - rewrite H. destruct (mk_pool V4 (o_v4 o) (o_hb o)) eqn:E4; cbn; try (eexists; reflexivity). exfalso. exact (mk_pool_never_panics _ _ _ E4).
  - rewrite H. unfold mk_pool. rewrite Hf. cbn. eexists. reflexivity.
  - rewrite H. destruct (mk_pool V4 (o_v4 o) (o_hb o)) eqn:E4; cbn; try (eexists; reflexivity).
    + unfold mk_pool. rewrite Hf. cbn. eexists. reflexivity.
    + exfalso. exact (mk_pool_never_panics _ _ _ E4).
  - rewrite H4, H6. cbn. eexists. reflexivity.
Qed.
Print Assumptions C12_unusable_range_rejected.

Theorem C12_unusable_hostbits_rejected :
  forall f base clen hb, (hb < 0)%Z \/ (Z.of_N (width f) - hb < Z.of_N clen)%Z -> new_pool f base clen hb = NewErr.
Proof.
  intros f base clen hb H. unfold new_pool.
  destruct (match f with V6 => true | V4 => false end && (16 <? Z.of_N (width f) - hb - Z.of_N clen)%Z)%bool; [reflexivity|].
  destruct H as [H|H].
  - apply Z.ltb_lt in H. rewrite H. reflexivity.
  - apply Z.ltb_lt in H. rewrite H. rewrite Bool.orb_true_r. reflexivity.
Qed.
Print Assumptions C12_unusable_hostbits_rejected.
