(* C19 -- Exported pool metrics agree with the pool's real state (ghost copies of the four
   series carried by the pool model; the Prometheus library and the HTTP endpoint are exercised
   by the correspondence check, not modelled). *)
From NIPAM Require Import Pool Geom_proofs Pool_proofs.
Open Scope N_scope.

(* after every operation sequence on a pool configured once: max_cidrs = capacity,
   allocations_total - releases_total = number of used blocks = number of distinct used blocks,
   and the usage gauge, once set, shows used / capacity *)
Theorem C19_metrics_agree :
  forall f base clen hb p ops,
    new_pool f base clen hb = NewOk p -> wf_geom (pg p) -> clean_geom (pg p) = true -> Forall wf_pop ops ->
    let q := prun p ops in
    m_max q = maxc (pg p) /\
    m_alloc q = m_rel q + cnt q /\ cnt q = N.of_nat (length (used q)) /\ NoDup (used q) /\
    match m_usage q with None => True | Some (a, b) => a = cnt q /\ b = maxc (pg p) end.
Proof.
  intros f base clen hb p ops Hnew Hwf Hcl Hops q. subst q.
  pose proof (new_pool_inv f base clen hb p Hnew Hwf) as I.
  assert (U : UsageOk p).
  { unfold new_pool in Hnew. destruct (_ && _)%bool; [discriminate|]. destruct (_ || _)%bool; [discriminate|].
    inversion Hnew; subst. exact Logic.I. }
  destruct (prun_refines ops p I Hcl Hops) as (Iq & Hg & Uq & _). specialize (Uq U).
  set (q := prun p ops) in *.
  assert (Hm : pmax q = maxc (pg p)) by (rewrite (inv_max q Iq), Hg; reflexivity).
  split; [rewrite (inv_m_max q Iq); exact Hm|]. split; [apply Iq|]. split; [apply Iq|]. split; [apply Iq|].
  unfold UsageOk in Uq. destruct (m_usage q) as [[a b]|]; [|exact Logic.I]. rewrite <- Hm. exact Uq.
Qed.
Print Assumptions C19_metrics_agree.

(* the usage gauge is set by every successful occupy / release *)
Theorem C19_usage_set_by_occupy :
  forall p c p', occupy p c = Some p' -> m_usage p' = Some (cnt p', pmax p').
Proof.
  intros p c p' H. unfold occupy in H. destruct (go_begin_end (pg p) c) as [[b e]|]; [|discriminate].
  inversion H. reflexivity.
Qed.
Theorem C19_usage_set_by_release :
  forall p c p', release p c = Some p' -> m_usage p' = Some (cnt p', pmax p').
Proof.
  intros p c p' H. unfold release in H. destruct (go_begin_end (pg p) c) as [[b e]|]; [|discriminate].
  inversion H. reflexivity.
Qed.

(* repeated occupy / release of the same CIDR is counted once *)
Theorem C19_redundant_occupy_counts_once :
  forall p c p1 p2, PoolInv p -> clean_geom (pg p) = true -> wf_cidr c ->
  occupy p c = Some p1 -> occupy p1 c = Some p2 -> m_alloc p2 = m_alloc p1 /\ m_rel p2 = m_rel p1.
Proof. intros p c p1 p2 I Hcl Hc H1 H2. destruct (occupy_idempotent p c p1 p2 I Hcl Hc H1 H2) as (_ & _ & _ & Ha & Hr). split; assumption. Qed.
Print Assumptions C19_redundant_occupy_counts_once.

Theorem C19_redundant_release_counts_once :
  forall p c p1 p2, PoolInv p -> clean_geom (pg p) = true -> wf_cidr c ->
  release p c = Some p1 -> release p1 c = Some p2 -> m_alloc p2 = m_alloc p1 /\ m_rel p2 = m_rel p1.
Proof. intros p c p1 p2 I Hcl Hc H1 H2. destruct (release_idempotent p c p1 p2 I Hcl Hc H1 H2) as (_ & _ & _ & Ha & Hr). split; assumption. Qed.
Print Assumptions C19_redundant_release_counts_once.

(* asking for a candidate changes no metric *)
Theorem C19_next_changes_no_metric :
  forall p, PoolInv p ->
  match next_candidate p with
  | Cand _ _ p' => m_alloc p' = m_alloc p /\ m_rel p' = m_rel p /\ m_usage p' = m_usage p /\ m_max p' = m_max p
  | Exhausted _ => True
  end.
Proof.
  intros p I. pose proof (next_spec p I) as H. destruct (next_candidate p) as [blk sk p'|]; [|exact Logic.I].
  destruct H as (i & _ & _ & _ & _ & _ & _ & -> & _). repeat split.
Qed.
Print Assumptions C19_next_changes_no_metric.

Example C19_nonvacuous :
  exists p, new_pool V4 0x0a000000 24 4 = NewOk p /\
    let q := prun p [POcc (mkCidr V4 0x0a000000 26); POcc (mkCidr V4 0x0a000010 28); PRel (mkCidr V4 0x0a000020 27)] in
    (m_alloc q, m_rel q, m_usage q, m_max q) = (4, 2, Some (2, 16), 16).
Proof. eexists. split; [reflexivity|]. vm_compute. reflexivity. Qed.
