(* C13 -- Block numbering of a range is a bijection onto its aligned sub-ranges.
   Statements only; every proof is [exact lemma]. *)
From NIPAM Require Import Geom Geom_proofs.
Open Scope N_scope.

(* block i is the i-th aligned sub-range: the Go bit code equals base + i * 2^(W-n) with prefix n *)
Theorem C13_block_is_ith_subrange :
  forall g i, wf_geom g -> i < maxc g ->
    go_index_to_block g i = block g i /\ wf_cidr (block g i) /\ cl (block g i) = gnlen g.
Proof. intros g i Hg Hi. split; [exact (index_to_block_ok g i Hg Hi)|split; [exact (block_wf g i Hg Hi)|reflexivity]]. Qed.
Print Assumptions C13_block_is_ith_subrange.

(* distinct numbers give disjoint blocks *)
Theorem C13_distinct_blocks_disjoint :
  forall g i j, i <> j -> ~ overlap (block g i) (block g j).
Proof. exact blocks_disjoint. Qed.
Print Assumptions C13_distinct_blocks_disjoint.

(* the blocks tile the range exactly: every block is inside, every address of the range is in exactly one *)
Theorem C13_blocks_tile_range :
  forall g, wf_geom g ->
    (forall i, i < maxc g -> subcidr (block g i) (grange g)) /\
    (forall x, in_cidr (grange g) x ->
       exists i, i < maxc g /\ in_cidr (block g i) x /\ forall j, in_cidr (block g j) x -> j = i).
Proof. intros g Hg. split; [intros i Hi; exact (block_in_range g i Hg Hi)|intros x Hx; exact (blocks_tile g x Hg Hx)]. Qed.
Print Assumptions C13_blocks_tile_range.

(* mapping any address of block i back yields i *)
Theorem C13_address_maps_back :
  forall g i a, wf_geom g -> i < maxc g -> addr_ok g a = true -> in_cidr (block g i) a -> go_get_index g a = Some i.
Proof. exact get_index_ok. Qed.
Print Assumptions C13_address_maps_back.

(* mapping block i itself, or any sub-range of it, back yields (i, i) *)
Theorem C13_subrange_maps_back :
  forall g i c, wf_geom g -> clean_geom g = true -> wf_cidr c -> i < maxc g -> subcidr c (block g i) ->
    go_begin_end g c = Some (i, i).
Proof. exact begin_end_subblock. Qed.
Print Assumptions C13_subrange_maps_back.

(* in general a CIDR maps to exactly the interval of blocks it overlaps, or is rejected when it
   does not meet the range *)
Theorem C13_range_maps_to_touched_blocks :
  forall g c, wf_geom g -> clean_geom g = true -> wf_cidr c ->
    match go_begin_end g c with
    | None => ~ overlap (grange g) c
    | Some (b, e) => overlap (grange g) c /\ b <= e /\ e < maxc g /\
                     forall i, i < maxc g -> (overlap (block g i) c <-> b <= i <= e)
    end.
Proof. exact begin_end_ok. Qed.
Print Assumptions C13_range_maps_to_touched_blocks.

(* addresses outside the range are rejected: IPv4 *)
Theorem C13_outside_rejected_v4 :
  forall g a, wf_geom g -> gf g = V4 -> a < 2 ^ 32 -> ~ in_cidr (grange g) a -> go_get_index g a = None.
Proof. exact get_index_reject_v4. Qed.
Print Assumptions C13_outside_rejected_v4.

(* non-vacuity: a concrete non-trivial geometry meets the hypotheses *)
Example C13_nonvacuous :
  wf_geom (mkGeom V6 0x20010db8000000000000000000000000 48 64) /\ 5 < maxc (mkGeom V6 0x20010db8000000000000000000000000 48 64)
  /\ wf_geom (mkGeom V4 0x0a000000 8 24).
Proof. unfold wf_geom, maxc, gW; cbn [gf gclen gnlen gbase width]. repeat split; try (vm_compute; congruence); try lia; vm_compute; reflexivity. Qed.

(* addresses outside the range are rejected: IPv6 (for 16-byte addresses Go's net package does
   not read as IPv4; see K1).  This was FALSE of the faithful model of the pinned tree, which
   truncated the index to 64 bits before the range test (finding D13: range 2001:db8::/112,
   blocks /120, address a001:db8::500 mapped to index 5); it is provable since the repair. *)
Theorem C13_outside_rejected_v6 :
  forall g a, wf_geom g -> gf g = V6 -> a < 2 ^ 128 -> v4mapped a = false ->
    ~ in_cidr (grange g) a -> go_get_index g a = None.
Proof. exact get_index_reject_v6. Qed.
Print Assumptions C13_outside_rejected_v6.

(* K1 (recorded finding): an IPv4-mapped address handed to an IPv6 pool is run through the IPv4
   branch (ip.To4() != nil).  Witness: range ::/65, blocks /81, address ::ffff:ffff:ffff lies in
   block 1 but is mapped to 0; and an IPv4-mapped address outside a range is accepted as index 0. *)
Theorem C13_v4mapped_refuted :
  let g := mkGeom V6 0 65 81 in
  wf_geom g /\ in_cidr (block g 1) 0xffffffffffff /\ go_get_index g 0xffffffffffff = Some 0.
Proof. split; [|split]; [unfold wf_geom, gW; cbn; repeat split; try lia; vm_compute; congruence | unfold in_cidr; vm_compute; split; congruence | vm_compute; reflexivity]. Qed.
