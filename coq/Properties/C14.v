(* C14 -- A range's block pool behaves exactly like a set of block numbers.
   Statements only; every proof is an application of a lemma of Pool_proofs.v. *)
From NIPAM Require Import Pool Geom_proofs Pool_proofs.
Open Scope N_scope.

(* Occupy affects exactly the blocks the argument overlaps (all of them if it contains the range,
   the enclosing block if it is smaller than a block); it fails exactly when the argument lies
   outside the range, and then nothing is returned (pstep keeps the old pool). The cursor, the
   release counter and the geometry are untouched. *)
Theorem C14_occupy_exact :
  forall p c, PoolInv p -> clean_geom (pg p) = true -> wf_cidr c ->
  match occupy p c with
  | None => ~ overlap (grange (pg p)) c
  | Some p' =>
      overlap (grange (pg p)) c /\ PoolInv p' /\ UsageOk p' /\ pg p' = pg p /\ cur p' = cur p /\ m_rel p' = m_rel p /\
      forall i, i < maxc (pg p) ->
        (In (block (pg p) i) (used p') <-> In (block (pg p) i) (used p) \/ overlap (block (pg p) i) c)
  end.
Proof. exact occupy_spec. Qed.
Print Assumptions C14_occupy_exact.

Theorem C14_release_exact :
  forall p c, PoolInv p -> clean_geom (pg p) = true -> wf_cidr c ->
  match release p c with
  | None => ~ overlap (grange (pg p)) c
  | Some p' =>
      overlap (grange (pg p)) c /\ PoolInv p' /\ UsageOk p' /\ pg p' = pg p /\ cur p' = cur p /\ m_alloc p' = m_alloc p /\
      forall i, i < maxc (pg p) ->
        (In (block (pg p) i) (used p') <-> In (block (pg p) i) (used p) /\ ~ overlap (block (pg p) i) c)
  end.
Proof. exact release_spec. Qed.
Print Assumptions C14_release_exact.

(* repeating either operation is harmless *)
Theorem C14_occupy_idempotent :
  forall p c p1 p2, PoolInv p -> clean_geom (pg p) = true -> wf_cidr c ->
  occupy p c = Some p1 -> occupy p1 c = Some p2 ->
  (forall i, i < maxc (pg p) -> (abs p2 i <-> abs p1 i)) /\ cnt p2 = cnt p1 /\ cur p2 = cur p1 /\
  m_alloc p2 = m_alloc p1 /\ m_rel p2 = m_rel p1.
Proof. exact occupy_idempotent. Qed.
Print Assumptions C14_occupy_idempotent.

Theorem C14_release_idempotent :
  forall p c p1 p2, PoolInv p -> clean_geom (pg p) = true -> wf_cidr c ->
  release p c = Some p1 -> release p1 c = Some p2 ->
  (forall i, i < maxc (pg p) -> (abs p2 i <-> abs p1 i)) /\ cnt p2 = cnt p1 /\ cur p2 = cur p1 /\
  m_alloc p2 = m_alloc p1 /\ m_rel p2 = m_rel p1.
Proof. exact release_idempotent. Qed.
Print Assumptions C14_release_idempotent.

(* asking for a candidate yields a currently free block whenever one exists (the first free one
   cyclically from the cursor, with the number of used blocks passed), an exhaustion error exactly
   when every block is used, and reserves nothing: only the cursor changes *)
Theorem C14_next_candidate :
  forall p, PoolInv p ->
  match next_candidate p with
  | Cand blk sk p' =>
      exists i, i < maxc (pg p) /\ blk = block (pg p) i /\ ~ In blk (used p) /\
        sk < pmax p /\ i = (cur p + sk) mod pmax p /\
        (forall j, j < sk -> In (block (pg p) ((cur p + j) mod pmax p)) (used p)) /\
        p' = with_cur p ((i + 1) mod pmax p) /\ PoolInv p' /\ (UsageOk p -> UsageOk p')
  | Exhausted _ => forall i, i < maxc (pg p) -> In (block (pg p) i) (used p)
  end.
Proof. exact next_spec. Qed.
Print Assumptions C14_next_candidate.

(* every operation sequence on a freshly built pool of the domain: the invariant holds (the used
   keys are distinct blocks of the pool, the counter equals their number and lies between zero and
   the capacity, the cursor is a valid index) and the pool refines the set machine [sstep] *)
Theorem C14_all_sequences :
  forall f base clen hb p ops,
    new_pool f base clen hb = NewOk p -> wf_geom (pg p) -> clean_geom (pg p) = true -> Forall wf_pop ops ->
    let q := prun p ops in
    PoolInv q /\ pg q = pg p /\ cnt q = N.of_nat (length (used q)) /\ NoDup (used q) /\ cnt q <= pmax q /\
    forall i, i < maxc (pg p) -> (abs q i <-> fold_left (sstep (pg p)) ops (fun _ => False) i).
Proof.
  intros f base clen hb p ops Hnew Hwf Hcl Hops q. subst q.
  pose proof (new_pool_inv f base clen hb p Hnew Hwf) as I.
  destruct (prun_refines ops p I Hcl Hops) as (Iq & Hg & _ & Ha).
  split; [exact Iq|]. split; [exact Hg|]. split; [apply Iq|]. split; [apply Iq|]. split; [apply used_le_max; exact Iq|].
  intros i Hi. rewrite (Ha i Hi). apply srun_ext; [|exact Hi]. intros j Hj. unfold abs.
  unfold new_pool in Hnew. destruct (_ && _)%bool; [discriminate|]. destruct (_ || _)%bool; [discriminate|].
  inversion Hnew; subst. cbn. tauto.
Qed.
Print Assumptions C14_all_sequences.

(* non-vacuity: a concrete pool of the domain, a non-trivial sequence *)
Example C14_nonvacuous :
  exists p, new_pool V4 0x0a000000 24 4 = NewOk p /\ wf_geomb (pg p) = true /\ clean_geom (pg p) = true /\
    cnt (prun p [POcc (mkCidr V4 0x0a000010 28); POcc (mkCidr V4 0x0a000000 26); PNext; PRel (mkCidr V4 0x0a000020 27)]) = 2.
Proof. eexists. split; [reflexivity|]. vm_compute. repeat split. Qed.
