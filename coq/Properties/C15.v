(* C15 -- Concurrent workers produce the result of some one-at-a-time processing (PARTIAL).
   What a theorem carries: (1) under the lock discipline that C16 establishes for the current tree
   (shared state is updated only inside critical sections guarded by one non-re-entrant lock taken
   first and released last), every interleaving of workers and informer callbacks, observed whenever
   the lock is free, shows exactly the shared state of an execution that runs the critical sections
   one at a time; (2) the system theorems (C01, C08, ...) quantify over ALL orders of such atomic
   steps (any list of ops of Sys.v), so whatever one-at-a-time order results satisfies them.
   What the model cannot exhibit: data races on memory outside the vocabulary of the lock facts and
   the Go memory model; those are looked for by the validation run under the Go race detector
   (real Run() with 30+30 workers, real informers and work queues), which is a test, not a proof. *)
From NIPAM Require Import Serial.
From Coq Require Import List.
Import ListNotations.

Theorem C15_partial_lock_serializable :
  forall (S : Type) (s0 : S) (progs : list (thread S)) (sched : list nat),
  let f := frun S (mkF S s0 None progs) sched in
  f_holder S f = None ->
  exists sched', let a := arun S (mkA S s0 progs) sched' in a_sh S a = f_sh S f /\ a_progs S a = f_progs S f.
Proof. exact lock_serializable. Qed.
Print Assumptions C15_partial_lock_serializable.

(* non-vacuity: two threads incrementing a counter inside sections, interleaved update by update *)
Example C15_nonvacuous :
  let progs := [[Section_ nat [S; S]; Local nat]; [Local nat; Section_ nat [fun x => x * 2]]] in
  f_sh nat (frun nat (mkF nat 1 None progs) [0; 1; 0; 1; 0; 0; 1; 1; 1]) = 6.
Proof. reflexivity. Qed.
