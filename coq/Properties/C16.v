(* C16 -- Shared state is touched only under the lock, and the lock cannot self-deadlock.
   The checker [check] runs on program facts extracted from the Go source on every run
   (/verif/translator -> gen/Facts_lock.v); this file states its soundness for ALL programs.
   gen/C16_current.v then proves [check program = true] for the facts of the current tree by
   vm_compute, and instantiates the theorem below. *)
From NIPAM Require Import LockCheck.
From Coq Require Import List NArith.
Import ListNotations.
Open Scope N_scope.

(* deadlock : a function that takes the lock is called while the lock is held;
   unguarded: a function touching mutable shared state runs with the lock free;
   blocked  : a blocking primitive runs while the lock is held;
   irregular: a reachable function uses the lock other than lock-first with a deferred unlock *)
Theorem C16_checker_sound :
  forall p, check p = true -> ~ deadlock p /\ ~ unguarded p /\ ~ blocked p /\ ~ irregular p.
Proof. exact check_sound. Qed.
Print Assumptions C16_checker_sound.

(* non-vacuity: a small program breaking each rule is rejected, a correct one accepted *)
Example C16_rejects_reentrant : check [mkFn Locks [1] false false true; mkFn Locks [] true false false] = false.
Proof. reflexivity. Qed.
Example C16_rejects_unguarded : check [mkFn NoLock [1] false false true; mkFn NoLock [] true false false] = false.
Proof. reflexivity. Qed.
Example C16_accepts_guarded : check [mkFn NoLock [1] false true true; mkFn Locks [2] false false false; mkFn NoLock [] true false false] = true.
Proof. reflexivity. Qed.
