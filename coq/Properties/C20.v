(* C20 -- Objects read from the informer caches are never modified in place.
   In the functional model a cached object is a value and cannot be written; what is proved is the
   frame property of the closed loop: node and ClusterCIDR work items leave both informer caches
   exactly as they were (or the process has ended).  The tie to the Go code has two parts checked on
   every run: (1) the translator's taint analysis over SSA finds no instruction that could write
   through a cache object (gen/C20_current.v: cache_write_sites = []), (2) the harness deep-hashes
   every cached object before and after every step of every history. *)
From NIPAM Require Import Sys Alloc_proofs Sys_proofs.
Open Scope N_scope.

Theorem C20_partial_node_items_leave_caches :
  forall po lab w cached key outs, same_caches w (fst (run_node_sync po lab w cached key outs)).
Proof. exact node_work_item_keeps_caches. Qed.
Print Assumptions C20_partial_node_items_leave_caches.

Theorem C20_partial_clustercidr_items_leave_caches :
  forall w key cached out, same_caches w (fst (run_cc_sync w key cached out)).
Proof. exact cc_work_item_keeps_caches. Qed.
Print Assumptions C20_partial_clustercidr_items_leave_caches.
