(* C07 -- The ClusterCIDR serving a node follows the documented priority order.
   PriorityQueue.Less is a strict order, total on items whose five keys differ (the property
   excludes full ties); therefore the popped sequence is the unique sorted one, independent of
   push order (map iteration, creation order).  container/heap itself is library code: its
   contract (pop order is sorted for a strict weak order) is in the trusted base.
   Over histories (Term_proofs.v): the entry a PATCH is served from is the FIRST of the offered order -- the sorted
   selector-bearing entries matching the labels of the copy of the node the work item started with, then the
   selector-less ones -- that has room: every entry before it has, in one of its families, no block free of overlap
   with CIDRs in use (pools, other ClusterCIDRs' allocations, the node cache). *)
From NIPAM Require Import Prio Prio_proofs Sys Alloc_proofs Inv_proofs World_proofs Complete_proofs Term_proofs.
From Coq Require Import Permutation Sorted.
Open Scope N_scope.

Theorem C07_less_irreflexive : forall a, less a a = false.
Proof. exact less_irrefl. Qed.
Print Assumptions C07_less_irreflexive.

Theorem C07_less_transitive : forall a b c, less a b = true -> less b c = true -> less a c = true.
Proof. exact less_trans. Qed.
Print Assumptions C07_less_transitive.

Theorem C07_less_asymmetric : forall a b, less a b = true -> less b a = false.
Proof. exact less_asym. Qed.
Print Assumptions C07_less_asymmetric.

(* total whenever the five keys (matched requirements, blocks in total, node mask size, selector,
   range) are not all equal *)
Theorem C07_less_total_without_full_tie : forall a b, key a <> key b -> less a b = true \/ less b a = true.
Proof. exact less_total. Qed.
Print Assumptions C07_less_total_without_full_tie.

(* the documented order, level by level *)
Theorem C07_documented_levels : forall a b,
  less a b = true <->
  (it_match b < it_match a) \/
  (it_match a = it_match b /\ max_allocatable a < max_allocatable b) \/
  (it_match a = it_match b /\ max_allocatable a = max_allocatable b /\ node_mask_size b < node_mask_size a) \/
  (it_match a = it_match b /\ max_allocatable a = max_allocatable b /\ node_mask_size a = node_mask_size b /\
     it_sel a <> it_sel b /\ str_ltb (it_sel a) (it_sel b) = true) \/
  (it_match a = it_match b /\ max_allocatable a = max_allocatable b /\ node_mask_size a = node_mask_size b /\
     it_sel a = it_sel b /\ str_ltb (cidr_label a) (cidr_label b) = true).
Proof. exact less_levels. Qed.
Print Assumptions C07_documented_levels.

(* determinism: whatever order the items are pushed in, the popped (sorted) sequence is the same,
   it is sorted, and its head is smaller than every other item *)
Theorem C07_order_independent_of_push_order : forall l l' : list item,
  NoDup l -> (forall a b, In a l -> In b l -> a <> b -> key a <> key b) -> Permutation l l' ->
  sort_by less l = sort_by less l'.
Proof.
  intros l l' Hnd Hkeys Hp. apply (sort_unique less less_trans less_irrefl); [exact Hnd| |exact Hp].
  intros a b Ha Hb Hne. apply less_total. apply Hkeys; assumption.
Qed.
Print Assumptions C07_order_independent_of_push_order.

Theorem C07_first_is_highest_priority : forall (l : list item) x rest,
  NoDup l -> (forall a b, In a l -> In b l -> a <> b -> key a <> key b) ->
  sort_by less l = x :: rest -> forall y, In y l -> y <> x -> less x y = true.
Proof.
  intros l x rest Hnd Hkeys Hs y Hy Hne.
  apply (sort_head_min less less_trans l x rest Hnd); [|exact Hs|exact Hy|exact Hne].
  intros a b Ha Hb Hab. apply less_total. apply Hkeys; assumption.
Qed.
Print Assumptions C07_first_is_highest_priority.

Example C07_nonvacuous :
  let a := mkItem 1 [97] (Some (mkPview 16 28 [49])) None in
  let b := mkItem 1 [97] (Some (mkPview 256 28 [50])) None in
  less a b = true /\ less b a = false /\ key a <> key b.
Proof. cbn. repeat split. discriminate. Qed.

(* ---------- over histories: the serving entry is the first of the order that has room ---------- *)
Theorem C07_served_from_the_first_entry_with_room :
  forall po lab ops o w' ob, Forall wf_op ops ->
  let w := run po lab init_world ops in
  step po lab w o = (w', ob) ->
  forall nm cs out, In (FxPatch nm cs out) (ob_fx ob) ->
  exists m node p, w_ctl w = Some m /\ nm = n_name node /\
  exists ps pre post, ordered_matching po lab m (n_labels node) true = Ok ps /\ ps = pre ++ p :: post /\
    forall q c0, In q pre -> get_entry m q = Some c0 -> no_room m (held_cidrs (w_ncache w)) c0.
Proof. intros po lab ops o w' ob H w Hs nm cs out He. exact (history_patch_is_first_with_room po lab ops o w' ob H Hs nm cs out He). Qed.
Print Assumptions C07_served_from_the_first_entry_with_room.

(* the same for one call, with the association on success *)
Theorem C07_node_item_chooses_first_with_room :
  forall po lab svcs canp apisame held m cached reread outs m' r fx,
  MapInv m -> sync_node po lab svcs canp apisame held m cached reread outs = (m', r, fx) ->
  forall nm cs o, In (FxPatch nm cs o) fx ->
  exists node p, cached = Some node /\ nm = n_name node /\ patch_choice po lab held m (n_labels node) p /\
    (r = Ok tt -> exists e', get_entry m' p = Some e' /\ has_str nm (cc_assoc e') = true /\
                   forall x, In x cs -> exists pl, pool_of e' (cf x) = Some pl /\ In x (used pl)).
Proof. exact sync_node_choice. Qed.
Print Assumptions C07_node_item_chooses_first_with_room.
