(* C01 -- No two nodes are ever given overlapping pod CIDRs.
   Model: Sys.v (closed loop) over Alloc.v.  What is proved here, for EVERY history (every list of
   ops: user actions, deliveries in any order relative to work items, stale fetches, scripted
   write outcomes, crashes and restarts) and every population of ClusterCIDRs:
   every PATCH the controller issues carries CIDRs none of which overlaps a pod CIDR of any node
   that its node cache shows at that instant ("has been shown by its node feed").
   Residue (not a theorem yet; monitored on the implementation's traces by the check): nodes whose
   CIDRs the controller has itself written but whose update has not reached the cache yet are
   protected by the reservation kept in the pools (the block stays a used key from the moment it
   is reserved until the node is released). *)
From NIPAM Require Import Sys Alloc_proofs Sys_proofs.
Open Scope N_scope.

(* single step, any world *)
Theorem C01_patch_avoids_every_cached_node :
  forall po lab w o w' ob, step po lab w o = (w', ob) ->
  forall nm cs out, In (FxPatch nm cs out) (ob_fx ob) ->
  forall c nd c' canon, In c cs -> In nd (w_ncache w) -> In (PGood c' canon) (n_cidrs nd) -> overlapb c c' = false.
Proof. exact step_patch_avoids_cached_nodes. Qed.
Print Assumptions C01_patch_avoids_every_cached_node.

(* every step of every history from any starting world *)
Theorem C01_all_histories :
  forall po lab w0 ops o ob w', In (o, ob, w') (trace po lab w0 ops) ->
  exists wb, reachable po lab w0 wb /\ step po lab wb o = (w', ob) /\
    forall nm cs out, In (FxPatch nm cs out) (ob_fx ob) ->
      forall c nd c' canon, In c cs -> In nd (w_ncache wb) -> In (PGood c' canon) (n_cidrs nd) -> overlapb c c' = false.
Proof. exact history_patches_avoid_cached_nodes. Qed.
Print Assumptions C01_all_histories.

(* the allocation primitive: when a block is reserved it overlaps no used key of its family in any
   ClusterCIDR's pool (overlapping, nested, identical ranges and different block sizes included: the
   test is on overlap of CIDRs, not on block numbers) and no pod CIDR of a cached node *)
Theorem C01_reserved_block_is_fresh :
  forall held m p f m' x, allocate_cidr held m p f = (m', Ok x) ->
  exists m1 c1 c2,
    in_allocated_list m1 x = false /\ overlaps_allocated m1 x = false /\ in_use_by_node held x = false /\
    get_entry m1 p = Some c1 /\ cc_occupy c1 x = Ok c2 /\ m' = set_entry m1 p c2.
Proof. exact allocate_cidr_fresh. Qed.
Print Assumptions C01_reserved_block_is_fresh.
