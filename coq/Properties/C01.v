(* C01 -- No two nodes are ever given overlapping pod CIDRs.
   Model: Sys.v (closed loop) over Alloc.v.  What is proved here, for EVERY history (every list of
   ops: user actions, deliveries in any order relative to work items, stale fetches, scripted
   write outcomes, crashes and restarts) and every population of ClusterCIDRs:
   every PATCH the controller issues carries CIDRs none of which overlaps a pod CIDR of any node
   that its node cache shows at that instant ("has been shown by its node feed").
   For nodes whose pod CIDRs the controller has itself written (their update may not have reached the
   cache yet) the protection is the reservation kept in the pools.  Proved (Resv_proofs.v), for every
   controller state satisfying MapInv -- i.e. every reachable one (C02) -- with
   [Held m n c] := c is a used key of an entry of m with which node n is associated:
   (1) a node work item that PATCHes CIDRs and succeeds -- or ends with the outcome of every write AND of
       the read-back unknown -- leaves every written CIDR Held for that node;
   (2) no PATCH of any node work item carries a CIDR overlapping a CIDR that is Held for anybody;
   (3) Held is preserved by every allocating/occupying node work item, by every ClusterCIDR work item
       (an entry with associated nodes is never unmapped), and by the release of any OTHER node whose own
       pod CIDRs do not overlap it.
   And as ONE theorem over whole histories (Hist_proofs.v, last theorem below): in every world reachable in
   one incarnation of the controller in which nodes are created without pod CIDRs and never deleted -- any
   nodes and ClusterCIDRs (overlapping, nested, identical ranges, any block sizes, dual stack, created and
   deleted at any time), label edits, any interleaving of deliveries, resyncs, relists, stale fetches and work
   items, any pattern of failed / timed-out writes, a crash at any point -- no two nodes hold overlapping pod
   CIDRs.
   And WITH node deletion (Hist2_proofs.v, invariant GInv): behind a well-behaved informer -- names used once,
   deletions delivered in order as ordinary delete notifications; node work items may be arbitrarily stale -- no two
   existing nodes ever overlap, nor does an existing node overlap one that is deleted but whose deletion the
   controller has not processed yet (its blocks stay reserved until then, and are handed out again only after).
   And ACROSS RESTARTS (Hist3_proofs.v, invariant HInv, last theorem): any number of incarnations -- crash at any
   point, construction from the API objects, informers started later, nodes created and deleted while the
   controller is down -- no two holders ever overlap: a holder is protected by its reservation (written by this
   incarnation) or by the node cache (listed at start-up), and every copy of a node shows what the node holds.
   And WITH THE WHOLE INFORMER CONTRACT (Hist4_proofs.v, invariant JInv = HInv + KInv, last theorem): delete
   notifications that carry only the store's last known state (tombstones) and relists (pending notifications
   dropped, every listed node re-delivered, every vanished one deleted with its last known state) at any time.
   Residue (not a theorem; monitored on the implementation's traces): nodes marked deleting, pod CIDRs pre-set
   while the informers run, a name re-used before the deletion of its previous bearer was processed: the world-level glue that a node's
   reservation is released only through a deletion notification (or deleting sync) of that very node
   name, and that the CIDRs carried by such notifications are the node's own (assumption E7 about pod
   CIDRs pre-set by the environment; known findings K-TOMB, K-REPL are exactly failures of that glue
   in the other direction: a release that never comes). *)
From NIPAM Require Import Sys Alloc_proofs Sys_proofs Inv_proofs World_proofs Resv_proofs Hist_proofs Hist2_proofs Hist3_proofs Hist4_proofs.
Open Scope N_scope.

(* single step, any world *)
Theorem C01_patch_avoids_every_cached_node :
  forall po lab w o w' ob, step po lab w o = (w', ob) ->
  forall nm cs out, In (FxPatch nm cs out) (ob_fx ob) ->
  forall c nd c' canon, In c cs -> In nd (w_ncache w) -> In (PGood c' canon) (n_cidrs nd) -> overlapb c c' = false.
Proof. exact step_patch_avoids_cached_nodes. Qed.
Print Assumptions C01_patch_avoids_every_cached_node.

(* every step of every history from any starting world *)
Theorem C01_all_histories :
  forall po lab w0 ops o ob w', In (o, ob, w') (trace po lab w0 ops) ->
  exists wb, reachable po lab w0 wb /\ step po lab wb o = (w', ob) /\
    forall nm cs out, In (FxPatch nm cs out) (ob_fx ob) ->
      forall c nd c' canon, In c cs -> In nd (w_ncache wb) -> In (PGood c' canon) (n_cidrs nd) -> overlapb c c' = false.
Proof. exact history_patches_avoid_cached_nodes. Qed.
Print Assumptions C01_all_histories.

(* the allocation primitive: when a block is reserved it overlaps no used key of its family in any
   ClusterCIDR's pool (overlapping, nested, identical ranges and different block sizes included: the
   test is on overlap of CIDRs, not on block numbers) and no pod CIDR of a cached node *)
Theorem C01_reserved_block_is_fresh :
  forall held m p f m' x, allocate_cidr held m p f = (m', Ok x) ->
  exists m1 c1 c2,
    in_allocated_list m1 x = false /\ overlaps_allocated m1 x = false /\ in_use_by_node held x = false /\
    get_entry m1 p = Some c1 /\ cc_occupy c1 x = Ok c2 /\ m' = set_entry m1 p c2.
Proof. exact allocate_cidr_fresh. Qed.
Print Assumptions C01_reserved_block_is_fresh.

(* (1)+(2)+(3a): one node work item (the node is not being deleted) *)
Theorem C01_written_cidrs_stay_reserved_and_are_avoided :
  forall po lab svcs canp apisame held m cached reread outs m' r fx,
  MapInv m -> (forall n, cached = Some n -> wf_node n /\ n_deleting n = false) -> r <> Panic ->
  sync_node po lab svcs canp apisame held m cached reread outs = (m', r, fx) ->
  (forall name c, Held m name c -> Held m' name c) /\
  (forall nm cs o, In (FxPatch nm cs o) fx -> forall name k, Held m name k -> forall x, In x cs -> overlapb x k = false) /\
  (forall nm cs o, In (FxPatch nm cs o) fx -> r = Ok tt \/ In (FxGetNode nm false) fx -> forall x, In x cs -> Held m' nm x).
Proof. exact sync_node_keeps. Qed.
Print Assumptions C01_written_cidrs_stay_reserved_and_are_avoided.

(* (3b): ClusterCIDR work items (creation, deletion request, vanished object) never drop a reservation *)
Theorem C01_reservations_survive_clustercidr_items :
  forall m key cached out m' r fx, sync_cc m key cached out = (m', r, fx) ->
  forall name c, Held m name c -> Held m' name c.
Proof. exact sync_cc_keeps. Qed.
Print Assumptions C01_reservations_survive_clustercidr_items.

(* (3c): releasing a node touches only that node's associations and the keys its own pod CIDRs overlap *)
Theorem C01_reservations_survive_release_of_other_nodes :
  forall svcs m node m' r, MapInv m -> Forall wf_cidr svcs -> wf_node node -> release_cidr svcs m node = (m', r) ->
  forall name k, Held m name k -> name <> n_name node ->
    (forall c canon, In (PGood c canon) (n_cidrs node) -> overlapb c k = false) -> Held m' name k.
Proof. exact release_cidr_keeps. Qed.
Print Assumptions C01_reservations_survive_release_of_other_nodes.

(* the property over whole histories of one incarnation without node deletion *)
Theorem C01_no_two_nodes_overlap_in_any_history_without_node_deletion :
  forall po lab pre s1 s2 outs dp ops,
  Forall user_op pre -> (forall s, s1 = Some s -> wf_cidr s) -> (forall s, s2 = Some s -> wf_cidr s) -> wf_dp dp -> Forall quiet_op ops ->
  let w := run po lab init_world (pre ++ Construct s1 s2 outs dp :: ops) in
  forall a b, In a (w_nodes w) -> In b (w_nodes w) -> an_name a <> an_name b ->
  forall c d, node_cidr a c -> node_cidr b d -> overlapb c d = false.
Proof. exact no_overlap_in_quiet_histories. Qed.
Print Assumptions C01_no_two_nodes_overlap_in_any_history_without_node_deletion.

(* non-vacuity: such a history in which two nodes are served from two overlapping ClusterCIDRs of different
   block sizes, one write timing out after having been applied *)
Example C01_history_nonvacuous :
  let po0 : parse_oracle := fun _ => Some [] in
  let lab0 : label_oracle := fun k => [cl k] in
  let pre := [UCreateCC (mkCCObj [99] (FOk (mkCidr V4 167772160 26)) FEmpty 4 (Some [107]) [] false 1 0 0);
              UCreateCC (mkCCObj [100] (FOk (mkCidr V4 167772160 25)) FEmpty 5 (Some [108]) [] false 1 0 0);
              UCreateNode [110;49] [] []; UCreateNode [110;50] [] []] in
  let ops := [StartInformers; ProcCC UOk; ProcCC UOk; ProcNode [PTimeoutApplied; PFail; PFail]; ProcNode [POk]] in
  Forall user_op pre /\ Forall quiet_op ops /\
  map (fun a => (an_name a, an_cidrs a)) (w_nodes (run po0 lab0 init_world (pre ++ Construct None None [] [] :: ops)))
  = [([110;49], [PGood (mkCidr V4 167772160 28) true]); ([110;50], [PGood (mkCidr V4 167772176 28) true])].
Proof.
  cbv zeta. split; [repeat constructor; cbn; try discriminate; unfold good_obj, good_field, good_range, wf_cidr; cbn; repeat split; try lia; try discriminate; intros [? _]; discriminate|].
  split; [repeat constructor|]. vm_compute. reflexivity.
Qed.

(* the property over whole histories of one incarnation WITH node deletion (well-behaved informer) *)
Theorem C01_no_two_holders_overlap_in_any_history_with_node_deletion :
  forall po lab pre s1 s2 outs dp ops,
  Forall user_op pre -> (forall s, s1 = Some s -> wf_cidr s) -> (forall s, s2 = Some s -> wf_cidr s) -> wf_dp dp -> Forall tame_op ops ->
  NoDup (flat_map created (pre ++ ops)) ->
  let w := run po lab init_world (pre ++ Construct s1 s2 outs dp :: ops) in
  forall n1 c1 n2 c2, holder w n1 c1 -> holder w n2 c2 -> n1 <> n2 -> overlapb c1 c2 = false.
Proof. exact no_overlap_with_node_deletion. Qed.
Print Assumptions C01_no_two_holders_overlap_in_any_history_with_node_deletion.

(* non-vacuity: n1 is served, deleted, its deletion is processed, and n2 then receives the very block n1 held *)
Example C01_deletion_history_nonvacuous :
  let po0 : parse_oracle := fun _ => Some [] in
  let lab0 : label_oracle := fun k => [cl k] in
  let pre := [UCreateCC (mkCCObj [99] (FOk (mkCidr V4 167772160 28)) FEmpty 4 (Some [107]) [] false 1 0 0); UCreateNode [110;49] [] []] in
  let ops := [StartInformers; ProcCC UOk; ProcNode [POk]; DeliverNode; UDeleteNode [110;49]; DeliverNode; UCreateNode [110;50] [] [];
              DeliverNode; ProcNode [POk]; ProcNode [POk]] in
  Forall user_op pre /\ Forall tame_op ops /\ NoDup (flat_map created (pre ++ ops)) /\
  map (fun a => (an_name a, an_cidrs a)) (w_nodes (run po0 lab0 init_world (pre ++ Construct None None [] [] :: ops)))
  = [([110;50], [PGood (mkCidr V4 167772160 28) true])].
Proof.
  cbv zeta. split; [repeat constructor; cbn; try discriminate; unfold good_obj, good_field, good_range, wf_cidr; cbn; repeat split; try lia; try discriminate; intros [? _]; discriminate|].
  split; [repeat constructor|]. split; [cbn; constructor; [cbn; intros [E|[]]; discriminate E|constructor; [intros []|constructor]]|]. vm_compute. reflexivity.
Qed.

(* the property over whole histories with any number of restarts (and node deletion, stale work items, faults) *)
Theorem C01_no_two_holders_overlap_in_any_history_across_restarts :
  forall po lab ops,
  Forall tame3_op ops -> NoDup (flat_map created ops) ->
  let w := run po lab init_world ops in
  forall n1 c1 n2 c2, holder w n1 c1 -> holder w n2 c2 -> n1 <> n2 -> overlapb c1 c2 = false.
Proof. exact no_overlap_across_restarts. Qed.
Print Assumptions C01_no_two_holders_overlap_in_any_history_across_restarts.

(* non-vacuity: n1 is served by the first incarnation; the controller crashes; n2 is created while it is down;
   the second incarnation serves n2 next to n1 *)
Example C01_restart_history_nonvacuous :
  let po0 : parse_oracle := fun _ => Some [] in
  let lab0 : label_oracle := fun k => [cl k] in
  let ops := [UCreateCC (mkCCObj [99] (FOk (mkCidr V4 167772160 26)) FEmpty 4 (Some [107]) [] false 1 0 0); UCreateNode [110;49] [] [];
              Construct None None [] []; StartInformers; ProcCC UOk; ProcNode [POk]; Crash; UCreateNode [110;50] [] [];
              Construct None None [] []; StartInformers; ProcCC UOk; ProcNode [POk]; ProcNode [POk]] in
  Forall tame3_op ops /\ NoDup (flat_map created ops) /\
  map (fun a => (an_name a, an_cidrs a)) (w_nodes (run po0 lab0 init_world ops))
  = [([110;49], [PGood (mkCidr V4 167772160 28) true]); ([110;50], [PGood (mkCidr V4 167772176 28) true])].
Proof.
  cbv zeta. split; [repeat constructor; cbn; try discriminate; try (intros ? E; discriminate E); unfold good_obj, good_field, good_range, wf_cidr; cbn; repeat split; try lia; try discriminate; intros [? _]; discriminate|].
  split; [cbn; constructor; [cbn; intros [E|[]]; discriminate E|constructor; [intros []|constructor]]|]. vm_compute. reflexivity.
Qed.

(* the most general form: each operation is judged in the state it is applied to.  Nodes may be created WITH pod CIDRs
   while no informer is watching (pre-existing pod CIDRs: controller down or informers not yet started) as long as these
   overlap nothing another holder holds; a name may be used again once the deletion of its previous bearer was processed *)
Theorem C01_no_two_holders_overlap_in_any_valid_history :
  forall po lab ops, valid po lab init_world ops ->
  let w := run po lab init_world ops in
  forall n1 c1 n2 c2, holder w n1 c1 -> holder w n2 c2 -> n1 <> n2 -> overlapb c1 c2 = false.
Proof. exact no_overlap_in_valid_histories. Qed.
Print Assumptions C01_no_two_holders_overlap_in_any_valid_history.

(* non-vacuity: a node with a pre-existing /27 (two blocks of the ClusterCIDR, which is created later) exists before the
   controller starts; the controller serves two more nodes around it *)
Example C01_valid_history_nonvacuous :
  let po0 : parse_oracle := fun _ => Some [] in
  let lab0 : label_oracle := fun k => [cl k] in
  let ops := [UCreateNode [110;48] [] [PGood (mkCidr V4 167772160 27) true];
              Construct None None [] []; StartInformers;
              UCreateCC (mkCCObj [99] (FOk (mkCidr V4 167772160 26)) FEmpty 4 (Some [107]) [] false 1 0 0); DeliverCC; ProcCC UOk;
              UCreateNode [110;49] [] []; UCreateNode [110;50] [] []; DeliverNode; DeliverNode; ProcNode [POk]; ProcNode [POk]; ProcNode [POk]] in
  valid po0 lab0 init_world ops /\
  map (fun a => (an_name a, an_cidrs a)) (w_nodes (run po0 lab0 init_world ops))
  = [([110;48], [PGood (mkCidr V4 167772160 27) true]); ([110;49], [PGood (mkCidr V4 167772192 28) true]); ([110;50], [PGood (mkCidr V4 167772208 28) true])].
Proof.
  cbv zeta. split; [|vm_compute; reflexivity].
  repeat (match goal with
          | |- valid ?po ?lab ?w (?o :: ?r) =>
              change (op_ok w o /\ valid po lab (fst (step po lab w o)) r); split;
              [|let w' := eval vm_compute in (fst (step po lab w o)) in
                replace (fst (step po lab w o)) with w' by (vm_compute; reflexivity)]
          | |- valid _ _ _ [] => exact I
          end).
  all: cbn [op_ok]; try exact I.
  all: try (unfold good_obj, good_field, good_range, wf_cidr; cbn; repeat split; try lia; try discriminate; intros [? _]; discriminate).
  all: try (split; [intros ? E; discriminate E|split; [intros ? E; discriminate E|constructor]]).
  all: try (split; [cbn; tauto|split; [constructor|left; reflexivity]]).
  split; [cbn; tauto|]. split; [repeat constructor; unfold wf_pcidr, wf_cidr; cbn; repeat split; try lia; reflexivity|].
  right. split; [reflexivity|]. intros c cn Hc n2 d [(a & [] & _)|(x & cn2 & [] & _)].
Qed.

(* the whole informer contract: delete notifications carrying the store's last known state (tombstones) and relists at any
   time.  [op_ok4] = [op_ok] of the theorem above, plus DeliverNodeTombstone and RelistNodes unconditionally. *)
Theorem C01_no_two_holders_overlap_with_tombstones_and_relists :
  forall po lab ops, valid4 po lab init_world ops ->
  let w := run po lab init_world ops in
  forall n1 c1 n2 c2, holder w n1 c1 -> holder w n2 c2 -> n1 <> n2 -> overlapb c1 c2 = false.
Proof. exact no_overlap_with_tombstones_and_relists. Qed.
Print Assumptions C01_no_two_holders_overlap_with_tombstones_and_relists.

(* it covers everything the previous theorem covers *)
Theorem C01_valid_histories_are_covered :
  forall po lab ops w, valid po lab w ops -> valid4 po lab w ops.
Proof. intros po lab ops w. exact (valid_valid4 po lab ops w). Qed.
Print Assumptions C01_valid_histories_are_covered.

(* non-vacuity: n1 is served, deleted, and the deletion is seen only through a relist that knows n1 without its pod CIDRs
   (its block stays reserved: known finding K-TOMB, a leak, not an overlap); n2 is served, its update is delivered, it is
   deleted and the deletion arrives as a tombstone (block released); n3 and n4 are first seen through a relist and are
   served with n2's block and the next one *)
Example C01_informer_contract_history_nonvacuous :
  let po0 : parse_oracle := fun _ => Some [] in
  let lab0 : label_oracle := fun k => [cl k] in
  let ops := [UCreateCC (mkCCObj [99] (FOk (mkCidr V4 167772160 26)) FEmpty 4 (Some [107]) [] false 1 0 0);
              Construct None None [] []; StartInformers; ProcCC UOk;
              UCreateNode [110;49] [] []; DeliverNode; ProcNode [POk]; UDeleteNode [110;49]; RelistNodes;
              UCreateNode [110;50] [] []; DeliverNode; ProcNode [POk]; DeliverNode; UDeleteNode [110;50]; DeliverNodeTombstone;
              UCreateNode [110;51] [] []; UCreateNode [110;52] [] []; RelistNodes; ProcNode [POk]; ProcNode [POk]; ProcNode [POk]; ProcNode [POk]] in
  valid4 po0 lab0 init_world ops /\
  map (fun a => (an_name a, an_cidrs a)) (w_nodes (run po0 lab0 init_world ops))
  = [([110;51], [PGood (mkCidr V4 167772176 28) true]); ([110;52], [PGood (mkCidr V4 167772192 28) true])].
Proof.
  cbv zeta. split; [|vm_compute; reflexivity].
  repeat (match goal with
          | |- valid4 ?po ?lab ?w (?o :: ?r) =>
              change (op_ok4 w o /\ valid4 po lab (fst (step po lab w o)) r); split;
              [|let w' := eval vm_compute in (fst (step po lab w o)) in
                replace (fst (step po lab w o)) with w' by (vm_compute; reflexivity)]
          | |- valid4 _ _ _ [] => exact I
          end).
  all: cbn [op_ok4 op_ok]; try exact I.
  all: try (unfold good_obj, good_field, good_range, wf_cidr; cbn; repeat split; try lia; try discriminate; intros [? _]; discriminate).
  all: try (split; [cbn; tauto|split; [constructor|left; reflexivity]]).
  all: try (split; [intros ? E; discriminate E|split; [intros ? E; discriminate E|constructor]]).
Qed.
