#!/bin/sh
# Builds the whole framework offline from files on disk: Coq development (full .vo build),
# extracted model + OCaml driver, Go harness against /repo's working tree.
set -e
cd /verif
export GOFLAGS=-mod=mod GOPROXY=off GOSUMDB=off GOTOOLCHAIN=local
mkdir -p build evidence replays
( cd coq && coq_makefile -f _CoqProject -o Makefile && timeout 3000 make -j"$(nproc)" )
python3 - <<'PY'
import sys
sys.path.insert(0, "/verif/py")
import vlib
ok, out, _ = vlib.model_build()
print("model build:", ok)
if not ok:
    print(out); sys.exit(1)
ok, out, _ = vlib.harness_build()
print("harness build:", ok)
if not ok:
    print(out); sys.exit(1)
sys.path.insert(0, "/verif/py/props")
import c16
ok, out = c16.translator_build()
print("translator build:", ok)
if not ok:
    print(out); sys.exit(1)
PY
